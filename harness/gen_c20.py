"""
gen_c20 — C20-only extension of the mini-Python of gen_c05 (imported read-only): the syntactic constructs that
`_MissingImportFinder` handles but the shared Pfb.PyCore model has no constructor for, a renderer for them, and their
*desugaring* to constructs the model has (the request sent to Driver/C20 is the desugared program).

Extra expression kinds
  ["op", parts, [child..]]   an operator / display / call that opens no scope and binds nothing: rendered by joining `parts`
                             (str = literal text, int = index of a child); the children are listed in the order in which
                             the analysis visits them (`generic_visit` = `_fields` order; `visit_Dict` = keys, then values).
                             Dict/set displays, BoolOp, Compare, UnaryOp, f-strings, slices, calls with */**/keyword
                             arguments, yield.   DESUGARED to ["tuple", children]: for the analysis both are "visit the
                             children in this order in the current scope on the current line" and nothing else
                             (`_conditional_depth` of BoolOp/IfExp only matters in unused-import mode).
  ["namedExpr", n, v]        `(n := v)`.  DESUGARED when it sits in an expression that is evaluated at one point of a simple
                             statement (expr / assign / if / while / return / raise / assert), outside lambdas and
                             comprehensions: the statement is split into the loads before, `n = _K`, the loads after, all
                             on the same line (visit_NamedExpr = visit value, then `_visit_Store(n)` in the current scope).
                             Anywhere else (comprehension: the store goes to the scope *outside* the comprehension, which
                             the model cannot express) the case is O-only.
Extra statement kinds
  ["match", subj, [[pattern, guard|null, body]..]]      pattern ::= ["mValue", e] | ["mLit"] | ["mAs", pattern|null, n|null]
        | ["mSeq", [p..]] | ["mStar", n|null] | ["mMap", [[keyexpr|null, p]..], rest|null] | ["mClass", e, [p..], [[kw, p]..]]
        | ["mOr", [p..]].   DESUGARED to `subj` (on the match line), then per case its pattern's loads / `n = _K` stores in
        visit order and the guard (on the case line), then the body: visit_Match/visit_match_case are generic_visit, the
        pattern visitors only load value patterns and store capture names, no scope is opened.
  ["typeAlias", n, [[tp, bound|null]..], value]          `type n[tp: bound, ..] = value`.  DESUGARED to
        `[value for (tp,..) in () if bound if ..]` followed by `n = _K`: a new scope that hides class scopes, stores of the
        parameters, loads of the bounds, load of the value, scope popped, store of the alias name.  The analysis loads the
        bounds *before* it stores the parameters (inside the same new scope): the same lookups unless a bound reads a
        parameter name, in which case the case is O-only.  (Loading the bounds outside the new scope would NOT be
        equivalent inside a function body: a deferred load clones the top scope, which must be the alias scope.)
  ["generic", [[tp, bound|null]..], funcDef|classDef]    PEP 695 `def f[T: B](..)` / `class C[T](..)`: O-only (the model has no
        scope around a def).
  ["async", funcDef|for|with]                            DESUGARED to the plain statement (visit_AsyncFunctionDef / visit_AsyncFor
        call the plain visitors, AsyncWith is generic_visit like With).
  ["assert", test, msg|null]  ["raiseFrom", e, cause]    DESUGARED to an expression statement / raise of the tuple of the parts.
  ["tryStar", body, handlers, orelse, final]             `except*`: DESUGARED to try (both are generic_visit + visit_ExceptHandler).
  ["tcomment", where, text, stmt]                        `# type: text` attached to stmt: where = "func" (own line after the def
        line), "line" (end of the statement's first line).  Whether the analysis reads it is decided by the harness from the
        parse (c20.type_comment_status): read ones make the case O-only, unread ones (assignments, `with`, `ast` mode, and all
        of them when a misplaced one makes `ast.parse(type_comments=True)` fail) are comments.
Natively modelled constructs that gen_c05's generator does not emit are generated here too: `from m import *`,
`__all__ = [...]` (string / non-string elements, non-list value), `del v[i]`, comprehension targets `x.a` / `x[i]`.
"""
from __future__ import annotations

import gen_c05 as G


# set by harness/c20.py from a behavioural probe of the tree under test (True from /repo 82e31a4 on)
ALIAS_SEES_CLASS_SCOPE = True


class Ctx(object):
    def __init__(self):
        self.nok = []          # reasons why the desugared program is not equivalent (case becomes O-only)
        self.in_class = 0      # lexical classDef nesting depth
        self.direct_class = False   # the statement being rendered sits directly in a class body (no def in between)
        self.in_func = 0       # lexical def nesting depth
        self.features = set()


# ----------------------------------------------------------------------------
# expressions
# ----------------------------------------------------------------------------
def map_args(a, f):
    b = dict(a)
    b["args"] = [[n, None if ann is None else f(ann)] for n, ann in a.get("args", [])]
    b["kwonly"] = [[n, None if ann is None else f(ann)] for n, ann in a.get("kwonly", [])]
    b["defaults"] = [f(d) for d in a.get("defaults", [])]
    b["kwdefaults"] = [None if d is None else f(d) for d in a.get("kwdefaults", [])]
    return b


def map_gens(gens, f):
    return [[f(t), f(it), [f(c) for c in ifs]] for t, it, ifs in gens]


def map_expr(e, f):
    """rebuild a gen_c05 expression applying f to its immediate sub-expressions"""
    k = e[0]
    if k in ("name", "const", "bool", "str"):
        return e
    if k == "attr":
        return ["attr", f(e[1]), e[2]]
    if k == "call":
        return ["call", f(e[1]), [f(a) for a in e[2]]]
    if k == "binop":
        return ["binop", f(e[1]), f(e[2])]
    if k == "lambda":
        return ["lambda", map_args(e[1], f), f(e[2])]
    if k in ("listComp", "setComp", "genExp"):
        return [k, f(e[1]), map_gens(e[2], f)]
    if k == "dictComp":
        return [k, f(e[1]), f(e[2]), map_gens(e[3], f)]
    if k == "ifExp":
        return ["ifExp", f(e[1]), f(e[2]), f(e[3])]
    if k in ("tuple", "list"):
        return [k, [f(x) for x in e[1]]]
    if k == "subscript":
        return ["subscript", f(e[1]), f(e[2])]
    return e          # a kind gen_c05 knows and this file does not: passed through


def tx(e):
    """-> an expression of gen_c05's mini-AST that RENDERS like e: C20-only nodes become ["name", <their text>]"""
    k = e[0]
    if k == "op":
        kids = [G.r_expr(tx(c)) for c in e[2]]
        return ["name", "".join(p if isinstance(p, str) else kids[p] for p in e[1])]
    if k == "namedExpr":
        return ["name", "(%s := %s)" % (e[1], G.r_expr(tx(e[2])))]
    return map_expr(e, tx)


def X(e):
    return G.r_expr(tx(e))


def has_walrus(e):
    if e is None:
        return False
    if e[0] == "namedExpr":
        return True
    if e[0] == "op":
        return any(has_walrus(c) for c in e[2])
    found = []

    def f(x):
        if has_walrus(x):
            found.append(1)
        return x
    map_expr(e, f)
    return bool(found)


def names_in(e):
    """the identifiers occurring anywhere in expression e"""
    out = set()

    def f(x):
        out.update(names_in(x))
        return x
    if e[0] == "name":
        out.add(e[1])
    elif e[0] == "op":
        for c in e[2]:
            f(c)
    elif e[0] == "namedExpr":
        out.add(e[1])
        f(e[2])
    else:
        map_expr(e, f)
    return out


def dx(e, ctx):
    """-> the desugared (model) expression; a walrus met here is in a position that cannot be desugared"""
    k = e[0]
    if k == "op":
        return ["tuple", [dx(c, ctx) for c in e[2]]]
    if k == "namedExpr":
        ctx.nok.append("walrus-nested")
        return dx(e[2], ctx)
    return map_expr(e, lambda x: dx(x, ctx))


def flatten(e, ctx):
    """expression evaluated at one point -> [("load", model expr) | ("store", name)] in visit order"""
    if not has_walrus(e):
        return [("load", dx(e, ctx))]
    k = e[0]
    if k == "namedExpr":
        return flatten(e[2], ctx) + [("store", e[1])]
    if k == "op":
        kids = e[2]
    elif k == "attr":
        kids = [e[1]]
    elif k == "call":
        kids = [e[1]] + list(e[2])
    elif k == "binop":
        kids = [e[1], e[2]]
    elif k == "ifExp":
        kids = [e[1], e[2], e[3]]
    elif k in ("tuple", "list"):
        kids = e[1]
    elif k == "subscript":
        kids = [e[1], e[2]]
    else:                       # lambda / comprehension containing a walrus
        ctx.nok.append("walrus-in-scope")
        return [("load", dx(e, ctx))]
    out = []
    for c in kids:
        out += flatten(c, ctx)
    return out


def items_to_stmts(items, line):
    out = []
    for kind, v in items:
        if kind == "load":
            out.append(["at", line, ["expr", v]])
        else:
            out.append(["at", line, ["assign", [["name", v]], ["const"]]])
    return out


# ----------------------------------------------------------------------------
# match patterns
# ----------------------------------------------------------------------------
def r_pat(p):
    k = p[0]
    if k == "mValue":
        return X(p[1])
    if k == "mLit":
        return "0"
    if k == "mAs":
        if p[1] is None:
            return p[2] or "_"
        return "(%s as %s)" % (r_pat(p[1]), p[2])
    if k == "mSeq":
        return "[%s]" % ", ".join(r_pat(x) for x in p[1])
    if k == "mStar":
        return "*" + (p[1] or "_")
    if k == "mMap":
        parts = ["%s: %s" % ("0" if ke is None else X(ke), r_pat(v)) for ke, v in p[1]]
        if p[2]:
            parts.append("**" + p[2])
        return "{%s}" % ", ".join(parts)
    if k == "mClass":
        parts = [r_pat(x) for x in p[2]] + ["%s=%s" % (kw, r_pat(v)) for kw, v in p[3]]
        return "%s(%s)" % (X(p[1]), ", ".join(parts))
    if k == "mOr":
        return "(%s)" % " | ".join(r_pat(x) for x in p[1])
    raise ValueError("pattern " + repr(p))


def flat_pat(p, ctx):
    k = p[0]
    if k == "mValue":
        return [("load", dx(p[1], ctx))]
    if k == "mLit":
        return []
    if k == "mAs":
        return (flat_pat(p[1], ctx) if p[1] is not None else []) + ([("store", p[2])] if p[2] else [])
    if k == "mSeq" or k == "mOr":
        return [i for x in p[1] for i in flat_pat(x, ctx)]
    if k == "mStar":
        return [("store", p[1])] if p[1] else []
    if k == "mMap":
        out = [("load", dx(ke, ctx)) for ke, v in p[1] if ke is not None]
        out += [i for ke, v in p[1] for i in flat_pat(v, ctx)]
        return out + ([("store", p[2])] if p[2] else [])
    if k == "mClass":
        out = [("load", dx(p[1], ctx))]
        out += [i for x in p[2] for i in flat_pat(x, ctx)]
        return out + [i for kw, v in p[3] for i in flat_pat(v, ctx)]
    raise ValueError("pattern " + repr(p))


# ----------------------------------------------------------------------------
# statements: render to `out` (list of source lines) and return the desugared located statements for the model
# ----------------------------------------------------------------------------
def r_tparams(tps):
    if not tps:
        return ""
    return "[%s]" % ", ".join(n if b is None else "%s: %s" % (n, X(b)) for n, b in tps)


def r_body(body, ind, out, ctx):
    if not body:
        out.append(ind + "pass")
    res = []
    for s in body:
        res += r_stmt(s, ind, out, ctx)
    return res


def _args_text(a):
    return G.r_args(map_args(a, tx), True)


def r_stmt(s, ind, out, ctx, prefix="", tparams=None, suffix="", after_head=None):
    """prefix: "async "; tparams: PEP 695 parameters; suffix: text appended to the statement's first line;
    after_head: an extra line (already indented relative to the body) emitted right after a def line"""
    k = s[0]
    I = ind + "    "
    line = len(out) + 1
    D = lambda e: dx(e, ctx)
    T = lambda t: G.r_target(tx(t))

    def walrus(e, mk):
        """statement whose only expression e is evaluated first: split off the walruses"""
        if e is not None and has_walrus(e):
            ctx.features.add("walrus-split")
            return items_to_stmts(flatten(e, ctx), line) + ([["at", line, mk(["const"])]] if mk else [])
        return [["at", line, mk(None if e is None else D(e))]] if mk else [["at", line, ["expr", D(e)]]]

    if k == "expr":
        out.append(ind + X(s[1]) + suffix)
        return walrus(s[1], None)
    if k == "assign":
        out.append(ind + " = ".join(T(t) for t in s[1]) + " = " + X(s[2]) + suffix)
        tg = [D(t) for t in s[1]]
        if has_walrus(s[2]):
            return walrus(s[2], lambda v: ["assign", tg, v])
        return [["at", line, ["assign", tg, D(s[2])]]]
    if k == "augAssign":
        out.append(ind + "%s += %s" % (T(s[1]), X(s[2])) + suffix)
        return [["at", line, ["augAssign", D(s[1]), D(s[2])]]]
    if k == "annAssign":
        out.append(ind + "%s: %s" % (T(s[1]), X(s[2])) + ("" if s[3] is None else " = " + X(s[3])) + suffix)
        return [["at", line, ["annAssign", D(s[1]), D(s[2]), None if s[3] is None else D(s[3])]]]
    if k == "import":
        out.append(ind + "import " + ", ".join(n + (" as " + a if a else "") for n, a in s[1]) + suffix)
        return [["at", line, s]]
    if k == "importFrom":
        out.append(ind + "from %s import %s" % (s[1], ", ".join(n + (" as " + a if a else "") for n, a in s[2])) + suffix)
        return [["at", line, s]]
    if k == "funcDef":
        for d in s[4]:
            out.append(ind + "@" + X(d))
        line = len(out) + 1
        ret = "" if s[5] is None else " -> " + X(s[5])
        out.append(ind + "%sdef %s%s(%s)%s:" % (prefix, s[1], r_tparams(tparams), _args_text(s[2]), ret) + suffix)
        if after_head:
            out.append(I + after_head)
        old_direct, ctx.direct_class = ctx.direct_class, False
        ctx.in_func += 1
        body = r_body(s[3], I, out, ctx)
        ctx.in_func -= 1
        ctx.direct_class = old_direct
        return [["at", line, ["funcDef", s[1], map_args(s[2], D), body, [D(d) for d in s[4]], None if s[5] is None else D(s[5])]]]
    if k == "classDef":
        for d in s[4]:
            out.append(ind + "@" + X(d))
        line = len(out) + 1
        bases = "(%s)" % ", ".join(X(b) for b in s[2]) if s[2] else ""
        out.append(ind + "class %s%s%s:" % (s[1], r_tparams(tparams), bases) + suffix)
        ctx.in_class += 1
        old_direct, ctx.direct_class = ctx.direct_class, True
        body = r_body(s[3], I, out, ctx)
        ctx.direct_class = old_direct
        ctx.in_class -= 1
        return [["at", line, ["classDef", s[1], [D(b) for b in s[2]], body, [D(d) for d in s[4]]]]]
    if k == "for":
        out.append(ind + "%sfor %s in %s:" % (prefix, T(s[1]), X(s[2])) + suffix)
        body = r_body(s[3], I, out, ctx)
        orelse = []
        if s[4]:
            out.append(ind + "else:")
            orelse = r_body(s[4], I, out, ctx)
        return [["at", line, ["for", D(s[1]), D(s[2]), body, orelse]]]
    if k == "while":
        out.append(ind + "while %s:" % X(s[1]) + suffix)
        body = r_body(s[2], I, out, ctx)
        out.append(I + "break")
        orelse = []
        if s[3]:
            out.append(ind + "else:")
            orelse = r_body(s[3], I, out, ctx)
        return walrus(s[1], lambda t: ["while", t, body, orelse])
    if k == "if":
        out.append(ind + "if %s:" % X(s[1]) + suffix)
        body = r_body(s[2], I, out, ctx)
        orelse = []
        if s[3]:
            out.append(ind + "else:")
            orelse = r_body(s[3], I, out, ctx)
        return walrus(s[1], lambda t: ["if", t, body, orelse])
    if k == "with":
        items = ", ".join(X(e) + ("" if tt is None else " as " + T(tt)) for e, tt in s[1])
        out.append(ind + "%swith %s:" % (prefix, items) + suffix)
        body = r_body(s[2], I, out, ctx)
        return [["at", line, ["with", [[D(e), None if tt is None else D(tt)] for e, tt in s[1]], body]]]
    if k in ("try", "tryStar"):
        star = "*" if k == "tryStar" else ""
        out.append(ind + "try:")
        body = r_body(s[1], I, out, ctx)
        hs = []
        for typ, name, hb in s[2]:
            h = "except" + star
            if typ is not None:
                h += " " + X(typ)
                if name:
                    h += " as " + name
            hl = len(out) + 1
            out.append(ind + h + ":")
            hs.append([hl, None if typ is None else D(typ), name if typ is not None else None, r_body(hb, I, out, ctx)])
        orelse, final = [], []
        if s[3]:
            out.append(ind + "else:")
            orelse = r_body(s[3], I, out, ctx)
        if s[4] or not s[2]:
            out.append(ind + "finally:")
            final = r_body(s[4], I, out, ctx)
        return [["at", line, ["try", body, hs, orelse, final]]]
    if k == "return":
        out.append(ind + "return" + ("" if s[1] is None else " " + X(s[1])) + suffix)
        return walrus(s[1], lambda v: ["return", v])
    if k == "pass":
        out.append(ind + "pass")
        return [["at", line, ["pass"]]]
    if k == "raise":
        out.append(ind + "raise " + X(s[1]) + suffix)
        return walrus(s[1], lambda v: ["raise", v])
    if k == "delete":
        out.append(ind + "del " + ", ".join(T(t) for t in s[1]) + suffix)
        return [["at", line, ["delete", [D(t) for t in s[1]]]]]
    if k in ("global", "nonlocal"):
        out.append(ind + k + " " + ", ".join(s[1]))
        return [["at", line, s]]
    # ---- C20-only kinds -------------------------------------------------------
    ctx.features.add(k)
    if k == "match":
        out.append(ind + "match %s:" % X(s[1]))
        res = walrus(s[1], None)
        for pat, guard, body in s[2]:
            cl = len(out) + 1
            out.append(I + "case %s%s:" % (r_pat(pat), "" if guard is None else " if " + X(guard)))
            items = flat_pat(pat, ctx)
            if guard is not None:
                items += flatten(guard, ctx)
            res += items_to_stmts(items, cl)
            res += r_body(body, I + "    ", out, ctx)
        return res
    if k == "typeAlias":
        out.append(ind + "type %s%s = %s" % (s[1], r_tparams(s[2]), X(s[3])))
        bounds = [b for n, b in s[2] if b is not None]
        if {n for n, b in s[2]} & {x for b in bounds for x in names_in(b)}:
            ctx.nok.append("typealias-bound-reads-param")
        # `[value for (tp,..) in () if bound if ..]`: new scope hiding class scopes, stores of the parameters, loads of the
        # bounds, load of the value (the analysis loads the bounds before it stores the parameters: the same unless a bound
        # reads a parameter), then the alias name is stored outside
        if ctx.direct_class and ALIAS_SEES_CLASS_SCOPE:
            # /repo 82e31a4: the alias scope of a `type` statement DIRECTLY in a class body keeps the class scopes visible
            # (`_NewScopeCtx(include_class_scopes=True)`), which a comprehension scope does not.  Without type parameters
            # and outside any def (no deferred loads, which clone the top scope) the new scope stays empty, so value and
            # alias resolve exactly like `value` as an expression statement of the class body followed by `n = _K`.
            # With parameters (a scope that holds them AND sees the class) the model has no construct: O-only.
            if s[2] or ctx.in_func:
                ctx.nok.append("typealias-in-class-body")
            else:
                ctx.features.add("typealias-class-direct")
                return [["at", line, ["expr", D(s[3])]], ["at", line, ["assign", [["name", s[1]]], ["const"]]]]
        tgt = ["tuple", [["name", n] for n, b in s[2]]]
        return [["at", line, ["expr", ["listComp", D(s[3]), [[tgt, ["tuple", []], [D(b) for b in bounds]]]]]],
                ["at", line, ["assign", [["name", s[1]]], ["const"]]]]
    if k == "generic":
        ctx.nok.append("pep695")
        return r_stmt(s[2], ind, out, ctx, prefix=prefix, tparams=s[1])
    if k == "async":
        return r_stmt(s[1], ind, out, ctx, prefix="async ", tparams=tparams)
    if k == "assert":
        out.append(ind + "assert " + X(s[1]) + ("" if s[2] is None else ", " + X(s[2])))
        e = ["tuple", [s[1]] + ([] if s[2] is None else [s[2]])]
        return walrus(e, None)
    if k == "raiseFrom":
        out.append(ind + "raise %s from %s" % (X(s[1]), X(s[2])))
        return walrus(["tuple", [s[1], s[2]]], lambda v: ["raise", v])
    if k == "tcomment":
        if s[1] == "func":
            return r_stmt(s[3], ind, out, ctx, prefix=prefix, tparams=tparams, after_head="# type: " + s[2])
        return r_stmt(s[3], ind, out, ctx, prefix=prefix, tparams=tparams, suffix="  # type: " + s[2])
    raise ValueError("stmt " + repr(s))


def render(prog):
    """prog = {"body": [stmt..], "calls": [stmt..]} -> (source, located desugared statements, Ctx)"""
    ctx = Ctx()
    out = []
    located = []
    for s in list(prog["body"]) + list(prog.get("calls", [])):
        located += r_stmt(s, "", out, ctx)
    return "\n".join(out) + "\n", located, ctx


# ----------------------------------------------------------------------------
# generator
# ----------------------------------------------------------------------------
class Gen20(G.Gen):
    """gen_c05's generator with the C20 alphabets plus, at rate `new`, the constructs above at every expression /
    statement position (the base generator calls self.expr / self.stmt / self.test / self.comp_target recursively)."""

    def __init__(self, rng, roots, parts, vnames, new=0.22):
        G.Gen.__init__(self, rng)
        self.R, self.S, self.M, self.A, self.V = roots, parts, parts, parts, vnames
        self.new = new
        self.depth_guard = 0

    # -- helpers ----------------------------------------------------------------
    def small(self, fctx):
        return G.Gen.expr(self, 0, fctx)

    def dotted(self):
        e = ["name", self.ch(self.R + self.R + self.V)]
        for _ in range(self.ch([1, 1, 2, 3])):
            e = ["attr", e, self.ch(self.S)]
        return e

    def new_expr(self, d, fctx):
        r = self.rng.random()
        sub = lambda: self.expr(d - 1, fctx, small=True)
        if r < 0.16:      # dict display; visit order: keys (not the ** ones), then values
            n = self.ch([0, 1, 1, 2])
            star = self.p(0.3)
            keys = [sub() for _ in range(n)]
            vals = [sub() for _ in range(n)]
            kids = keys + vals
            parts = ["{"]
            for i in range(n):
                parts += [i, ": ", n + i, ", "]
            if star:
                kids.append(sub())
                parts += ["**", len(kids) - 1]
            parts.append("}")
            return ["op", parts, kids]
        if r < 0.22:      # set display
            kids = [sub() for _ in range(self.ch([1, 2]))]
            parts = ["{"]
            for i in range(len(kids)):
                parts += [i, ", "]
            return ["op", parts[:-1] + ["}"], kids]
        if r < 0.36:      # comparison (==, in, is not, chained): the operators are applied by nobody during analysis
            kids = [self.vexpr(fctx), self.vexpr(fctx)] + ([self.vexpr(fctx)] if self.p(0.2) else [])
            parts = ["(", 0]
            for i in range(1, len(kids)):
                parts += [" %s " % self.ch(["==", "!=", "in", "not in", "is", "is not", "<"]), i]
            return ["op", parts + [")"], kids]
        if r < 0.48:      # and / or
            kids = [self.vexpr(fctx), sub()] + ([sub()] if self.p(0.2) else [])
            op = self.ch([" and ", " or "])
            parts = ["(", 0]
            for i in range(1, len(kids)):
                parts += [op, i]
            return ["op", parts + [")"], kids]
        if r < 0.54:
            return ["op", ["(" + self.ch(["not ", "-", "~"]), 0, ")"], [self.vexpr(fctx)]]
        if r < 0.66:      # f-string: value, then the values of the format spec
            kids = [sub()]
            parts = ['f"a{ ', 0]
            if self.p(0.3):
                kids.append(self.vexpr(fctx))
                parts += [" :{ ", 1, " }"]
            elif self.p(0.3):
                parts += [" !r"]
            parts += [' }']
            if self.p(0.4):
                kids.append(self.vexpr(fctx))
                parts += ['b{ ', len(kids) - 1, ' }']
            return ["op", parts + ['"'], kids]
        if r < 0.72:      # slice
            kids = [self.vexpr(fctx), self.vexpr(fctx)] + ([self.vexpr(fctx)] if self.p(0.5) else [])
            return ["op", [0, "[", 1, ":"] + ([2] if len(kids) == 3 else []) + ["]"], kids]
        if r < 0.84:      # call with * / keyword / ** arguments: func, args, keyword values
            kids = [self.callee(fctx)]
            parts = [0, "("]
            if self.p(0.5):
                kids.append(sub())
                parts += [len(kids) - 1, ", "]
            if self.p(0.5):
                kids.append(self.vexpr(fctx))
                parts += ["*", len(kids) - 1, ", "]
            kids.append(sub())
            parts += ["kw=", len(kids) - 1]
            if self.p(0.4):
                kids.append(self.vexpr(fctx))
                parts += [", **", len(kids) - 1]
            return ["op", parts + [")"], kids]
        if r < 0.88 and fctx is not None:
            return ["op", ["(yield ", 0, ")"], [sub()]]
        return ["namedExpr", self.vname() if self.p(0.7) else self.ch(self.R), sub()]

    def expr(self, d, fctx, small=False):
        if d > 0 and self.p(self.new * (0.5 if small else 1.0)):
            return self.new_expr(d, fctx)
        return G.Gen.expr(self, d, fctx, small)

    def test(self, d, fctx):
        if self.p(self.new):
            r = self.rng.random()
            if r < 0.35:
                return ["namedExpr", self.vname(), self.vexpr(fctx)]
            return self.new_expr(1, fctx)
        return G.Gen.test(self, d, fctx)

    def comp_target(self):
        if self.p(self.new * 0.5):
            base = ["name", self.ch(self.V + self.R)]
            return ["attr", base, self.ch(self.A)] if self.p(0.6) else ["subscript", base, self.dotted()]
        return G.Gen.comp_target(self)

    # -- patterns -----------------------------------------------------------------
    def pattern(self, d):
        r = self.rng.random()
        if d <= 0:
            r *= 0.5
        if r < 0.2:
            return ["mValue", self.dotted()]
        if r < 0.25:
            return ["mLit"]
        if r < 0.45:
            return ["mAs", None, self.vname() if self.p(0.8) else None]
        if r < 0.5:
            return ["mAs", ["mValue", self.dotted()], self.vname()]
        if r < 0.6:
            return ["mAs", self.pattern(d - 1), self.vname()]
        if r < 0.72:
            ps = [self.pattern(d - 1) for _ in range(self.ch([1, 2]))]
            if self.p(0.6):
                ps.insert(self.rng.randrange(len(ps) + 1), ["mStar", self.vname() if self.p(0.75) else None])
            return ["mSeq", ps]
        if r < 0.84:
            items = [[self.dotted() if self.p(0.7) else None, self.pattern(d - 1)] for _ in range(self.ch([0, 1, 1, 2]))]
            return ["mMap", items, self.vname() if self.p(0.6) else None]
        if r < 0.94:
            cls = self.dotted() if self.p(0.6) else ["name", self.ch(self.V + self.R + self.C)]
            return ["mClass", cls, [self.pattern(d - 1) for _ in range(self.ch([0, 1]))],
                    [[self.ch(self.A), self.pattern(d - 1)] for _ in range(self.ch([0, 1]))]]
        return ["mOr", [self.pattern(d - 1), self.pattern(d - 1)]]

    def tparams(self):
        names = ["T", "U"][: self.ch([1, 1, 2])]
        return [[n, (self.dotted() if self.p(0.6) else ["name", self.ch(self.V + self.R)]) if self.p(0.6) else None] for n in names]

    def tcomment_text(self, arrow):
        if self.p(0.12):
            return "see %s below" % G.r_expr(self.dotted())       # not a type: SyntaxError inside _visit_typecomment
        a = G.r_expr(self.dotted())
        b = G.r_expr(self.dotted() if self.p(0.5) else ["name", self.ch(self.V + self.R)])
        if arrow:
            return "(%s) -> %s" % (a, b)
        return a if self.p(0.7) else "%s[%s]" % (b, a)

    # -- statements -----------------------------------------------------------------
    def new_stmt(self, d, fctx, kind):
        r = self.rng.random()
        if r < 0.22:
            cases = []
            for _ in range(self.ch([1, 1, 2])):
                guard = self.test(1, fctx) if self.p(0.3) else None
                cases.append([self.pattern(2), guard, self.body(d - 1, fctx, kind, self.ch([1, 1, 2]))])
            return ["match", self.vexpr(fctx), cases]
        if r < 0.32:
            return ["typeAlias", self.ch(["X", "Y"] + self.V), self.tparams() if self.p(0.6) else [], self.expr(1, fctx, small=True)]
        if r < 0.40:
            inner = self.funcdef(d, fctx, kind) if self.p(0.6) else self.classdef(d, fctx, kind)
            if inner[0] not in ("funcDef", "classDef"):
                return inner
            return ["generic", self.tparams(), inner]
        if r < 0.50:
            r2 = self.rng.random()
            if r2 < 0.4:
                inner = self.funcdef(d, fctx, kind)
                return ["async", inner] if inner[0] == "funcDef" else inner
            if r2 < 0.7:
                return ["async", ["for", self.target() if self.p(0.3) else ["name", self.vname()], self.iterable(2, fctx),
                                  self.body(d - 1, fctx, kind), []]]
            return ["async", ["with", [[self.vexpr(fctx), self.target() if self.p(0.7) else None]], self.body(d - 1, fctx, kind)]]
        if r < 0.56:
            return ["assert", self.test(1, fctx), self.expr(1, fctx, small=True) if self.p(0.5) else None]
        if r < 0.60:
            return ["raiseFrom", self.vexpr(fctx), self.vexpr(fctx)]
        if r < 0.66:
            b = self.body(d - 1, fctx, kind)
            hs = [[self.ch([["name", "Exception"], self.dotted()]), self.vname() if self.p(0.6) else None, self.body(d - 1, fctx, kind, 1)]]
            return ["tryStar", b, hs, [], self.body(d - 1, fctx, kind, 1) if self.p(0.2) else []]
        if r < 0.74:
            if kind == "module" and fctx is None:
                return ["importFrom", self.ch(self.R) + ("." + self.ch(self.S) if self.p(0.3) else ""), [["*", None]]]
            return ["delete", [["subscript", self.vexpr(fctx), self.expr(1, fctx, small=True)]]]
        if r < 0.84:
            r2 = self.rng.random()
            names = [self.ch(self.R + self.V + [G.r_expr(self.dotted())]) for _ in range(self.ch([1, 2, 3]))]
            if r2 < 0.7:
                v = [self.ch(["list", "tuple"]), [["str", n] for n in names]]
            elif r2 < 0.85:
                v = ["list", [["str", names[0]], self.vexpr(fctx)]]
            else:
                v = self.vexpr(fctx)
            return ["assign", [["name", "__all__"]], v]
        if r < 0.90:
            return ["delete", [["subscript", self.vexpr(fctx), self.expr(1, fctx, small=True)]]]
        # type comments
        r2 = self.rng.random()
        if r2 < 0.35:
            inner = self.funcdef(d, fctx, kind)
            if inner[0] != "funcDef":
                return inner
            return ["tcomment", "func", self.tcomment_text(self.p(0.7)), inner]
        if r2 < 0.55:
            return ["tcomment", "line", self.tcomment_text(False),
                    ["for", ["name", self.vname()], self.iterable(2, fctx), self.body(d - 1, fctx, kind), []]]
        if r2 < 0.75:
            return ["tcomment", "line", self.tcomment_text(False), ["assign", [["name", self.vname()]], self.expr(1, fctx)]]
        if r2 < 0.85:
            return ["tcomment", "line", self.tcomment_text(False), ["with", [[self.vexpr(fctx), ["name", self.vname()]]], self.body(d - 1, fctx, kind)]]
        return ["tcomment", "line", self.tcomment_text(False), ["expr", self.vexpr(fctx)]]     # misplaced: SyntaxError with type_comments=True

    def stmt(self, d, fctx, kind):
        if self.p(self.new):
            return self.new_stmt(max(d, 1), fctx, kind)
        return G.Gen.stmt(self, d, fctx, kind)


# ----------------------------------------------------------------------------
# hand-written programs: every construct once, with names that the exhaustive cases bind to trap objects
# ----------------------------------------------------------------------------
def N(n):
    return ["name", n]


def A(*parts):
    e = N(parts[0])
    for p in parts[1:]:
        e = ["attr", e, p]
    return e


def snippets():
    """[(label, [stmt..])]; free names: x (a namespace entry), ta / ta.b / ta.b.c (registry chain), y (unbound)"""
    xa, tabc, tab = A("x", "b"), A("ta", "b", "c"), A("ta", "b")
    out = []
    add = lambda label, *stmts: out.append((label, list(stmts)))
    add("dict", ["expr", ["op", ["{", 0, ": ", 2, ", **", 3, ", ", 1, ": ", 4, "}"], [xa, N("x"), tabc, N("x"), A("y", "d")]]])
    add("set", ["expr", ["op", ["{", 0, ", ", 1, "}"], [N("x"), tabc]]])
    add("compare", ["expr", ["op", ["(", 0, " == ", 1, ")"], [N("x"), tabc]]], ["expr", ["op", ["(", 0, " in ", 1, ")"], [xa, N("x")]]])
    add("boolop", ["if", ["op", ["(", 0, " and ", 1, ")"], [N("x"), tabc]], [["expr", xa]], []],
        ["expr", ["op", ["(not ", 0, ")"], [N("x")]]])
    add("fstring", ["expr", ["op", ['f"{ ', 0, ' :{ ', 1, ' }}{ ', 2, ' !r}"'], [N("x"), xa, tabc]]])
    add("slice", ["expr", ["op", [0, "[", 1, ":", 2, "]"], [N("x"), tabc, xa]]])
    add("callkw", ["expr", ["op", [0, "(*", 1, ", kw=", 2, ", **", 3, ")"], [N("x"), xa, tabc, N("x")]]])
    add("walrus", ["expr", ["namedExpr", "z", tabc]], ["if", ["namedExpr", "x", xa], [["expr", A("x", "c")]], []],
        ["expr", ["call", N("x"), [["namedExpr", "w", N("x")], A("w", "b")]]])
    add("walrus-comp", ["expr", ["listComp", ["namedExpr", "x", tabc], [[N("i"), xa, []]]]], ["expr", A("x", "b")])
    add("walrus-comp-class", ["classDef", "C", [], [["expr", ["listComp", ["namedExpr", "q", xa], [[N("i"), tab, []]]]], ["expr", A("q", "b")]], []])
    add("match", ["match", N("x"), [
        [["mAs", ["mOr", [["mValue", tabc], ["mSeq", [["mAs", None, "y"], ["mStar", "rest"]]]]], "z"], xa, [["expr", A("z", "b")]]],
        [["mMap", [[tab, ["mAs", None, "v"]], [None, ["mLit"]]], "more"], None, [["expr", A("more", "c")]]],
        [["mClass", xa, [["mAs", None, "p"]], [["k", ["mValue", tabc]]]], None, [["expr", N("p")]]],
        [["mClass", N("x"), [["mAs", None, "p2"], ["mValue", tab]], []], N("p2"), [["pass"]]],
        [["mAs", None, None], None, [["expr", A("y", "b")]]]]])
    add("typealias", ["typeAlias", "X", [["T", tabc], ["U", None]], ["subscript", xa, N("T")]], ["typeAlias", "Y", [], tab], ["expr", A("X", "b")])
    add("typealias-class", ["classDef", "C", [], [["assign", [N("q")], N("x")], ["typeAlias", "X", [["T", N("q")]], A("q", "b")]], []])
    add("generic", ["generic", [["T", tabc]], ["funcDef", "f", {"args": [["p", N("T")]], "defaults": []}, [["return", xa]], [], N("T")]],
        ["generic", [["T", xa]], ["classDef", "C", [tab], [["expr", N("T")]], []]])
    add("async", ["async", ["funcDef", "f", {"args": [], "defaults": []}, [
        ["async", ["for", N("i"), xa, [["expr", tabc]], []]], ["async", ["with", [[N("x"), N("w")]], [["expr", A("w", "b")]]]],
        ["expr", ["op", ["(yield ", 0, ")"], [tabc]]]], [xa], None]])
    add("assert-raise", ["assert", ["op", ["(", 0, " is not ", 1, ")"], [N("x"), tabc]], xa], ["raiseFrom", xa, tabc])
    add("trystar", ["tryStar", [["expr", xa]], [[tab, "x", [["expr", A("x", "b")]]]], [], [["expr", A("x", "b")]]])
    add("star-import", ["importFrom", "ta", [["*", None]]], ["expr", A("y", "b")], ["expr", tabc], ["expr", xa])
    add("all", ["assign", [N("__all__")], ["list", [["str", "x"], ["str", "ta.b.c"], ["str", "y"]]]],
        ["assign", [N("__all__")], ["list", [["str", "x"], xa]]], ["assign", [N("__all__")], tabc])
    add("del-subscript", ["delete", [["subscript", xa, tabc], A("x", "b")]])
    add("comp-target", ["expr", ["listComp", N("i"), [[A("x", "b"), tab, []], [["subscript", N("x"), tabc], N("x"), [xa]]]]])
    add("tcomment-func", ["tcomment", "func", "(ta.b.c, x.b) -> x", ["funcDef", "f", {"args": [["p", None]], "defaults": []}, [["expr", xa]], [], None]],
        ["tcomment", "line", "ta.b.c", ["for", N("i"), N("x"), [["pass"]], []]], ["tcomment", "line", "x.b", ["assign", [N("z")], tabc]])
    add("tcomment-misplaced", ["tcomment", "line", "x.b", ["expr", tabc]],
        ["tcomment", "func", "(ta.b) -> x", ["funcDef", "f", {"args": [], "defaults": []}, [["pass"]], [], None]])
    add("lambda-default", ["expr", ["lambda", {"args": [["p", None]], "defaults": [xa]}, ["op", ["(", 0, " or ", 1, ")"], [N("p"), tabc]]]])
    add("decorated-class", ["classDef", "C", [xa], [["funcDef", "m", {"args": [["self", None]], "defaults": []}, [["return", tabc]], [N("x")], None]], [tab]])
    add("global-del", ["funcDef", "f", {"args": [], "defaults": []}, [["global", ["x"]], ["delete", [N("x")]], ["assign", [A("x", "b")], tabc]], [], None])
    add("nested-def-class", ["classDef", "x", [], [["funcDef", "m", {"args": [], "defaults": []}, [["expr", xa], ["expr", N("__class__")]], [], None]], []],
        ["expr", xa])
    return out
