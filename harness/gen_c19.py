"""
gen_c19 — generator of small import universes (files on disk) and of programs star-importing
from them, for property C19.  Every random choice comes from the `rng` passed in.

A *universe* is a dict relpath -> source placed in a fresh directory that is put on sys.path:

    p<T>/__init__.py        package P              (target kind "init")
    p<T>/sub.py             submodule P.sub        defines sx, sy, sz, _sp, SC
    p<T>/a.py               module P.a in package  (target kind "inpkg")
    p<T>/sp/__init__.py     subpackage P.sp        (target kind "subinit")
    p<T>/sp/leaf.py         P.sp.leaf              (target kind "leaf"); defines lf, lg
    f<T>.py                 foreign module F       defines fz, fy, FK, _fp
    m<T>.py                 plain top-level module (target kind "plain")
    m<T>x.py                foreign module whose *string* name has the target's name as a prefix
    n<T>/                   directory without __init__ (namespace package), uninspectable

The generator keeps its own straight-line account of what the target binds (`bound`, `allv`) only to
choose names for the program to read; the oracle never trusts it (CPython decides what is bound).
"""
from __future__ import annotations

PUBLIC = ["a", "b", "c", "d", "fn", "Cls", "val", "X", "y2", "helper", "k9", "é"]
PRIVATE = ["_p", "_q", "__r", "__version__"]

SUB_SRC = "sx = 'sx'\nsy = ['sy']\ndef sz():\n    return 'sz'\n_sp = 0\nclass SC:\n    pass\n"
LEAF_SRC = "lf = ('lf',)\ndef lg():\n    return 'lg'\n_lp = ['_lp']\nimport json as ljson\n"
# p<T>/_compat.py: a "compat" submodule of the package.  Besides ordinary public and private definitions it binds names to
# MODULE OBJECTS (`json` picked by try/except, `osp`, the sibling submodule under the name `csub`): re-exported by the
# package `from ._compat import text_type, json` these are attributes of an own submodule, not submodules.
COMPAT_SRC = ("try:\n    import simplejson_c19_missing as json\nexcept ImportError:\n    import json\n"
              "import os.path as osp\nfrom . import sub as csub\ntext_type = str\ndef cfn():\n    return 'cfn'\n"
              "class CK:\n    pass\ndef _fast():\n    return '_fast'\n_cpriv = ['_cpriv']\n")
# submodule (relative to the package p<T>) -> (public names, private names, names bound to module objects)
OWN_NAMES = {
    "sub": (["sx", "sy", "sz", "SC"], ["_sp"], []),
    "_compat": (["text_type", "cfn", "CK"], ["_fast", "_cpriv"], ["json", "osp", "csub"]),
    "sp.leaf": (["lf", "lg"], ["_lp"], ["ljson"]),
}
ALIASES_PUBLIC = PUBLIC + ["loads", "dumps2", "Alias"]
ALIASES_PRIVATE = PRIVATE + ["_h", "_impl"]
FOREIGN_SRC = "fz = ['fz']\ndef fy():\n    return 'fy'\nclass FK:\n    pass\n_fp = 1\nfd = {}\ni0 = 0\n"
MX_SRC = "xq = {'xq': 1}\n"

TARGET_KINDS = ["plain", "init", "inpkg", "subinit", "leaf"]


class U:
    """names of one universe"""
    def __init__(self, tag):
        self.tag = tag
        self.P = "p" + tag
        self.F = "f" + tag
        self.M = "m" + tag
        self.MX = "m" + tag + "x"
        self.N = "n" + tag

    def target_name(self, kind):
        return {"plain": self.M, "init": self.P, "inpkg": self.P + ".a",
                "subinit": self.P + ".sp", "leaf": self.P + ".sp.leaf"}[kind]

    def target_path(self, kind):
        return {"plain": self.M + ".py", "init": self.P + "/__init__.py", "inpkg": self.P + "/a.py",
                "subinit": self.P + "/sp/__init__.py", "leaf": self.P + "/sp/leaf.py"}[kind]


def _pub(rng):
    return rng.choice(PUBLIC)


def _anyname(rng, ppriv=0.2):
    return rng.choice(PRIVATE) if rng.random() < ppriv else rng.choice(PUBLIC)


def _val(rng):
    # values with identity (so that "same object" is a real test) and a few ints
    return rng.choice(["[1]", "{'k': 1}", "object()", "(lambda: 0)", "[]", "3", "'s'", "type('T', (), {})"])


class ModGen:
    """Generates the source of the target module, tracking (approximately) what it binds."""

    def __init__(self, rng, u, kind):
        self.rng, self.u, self.kind = rng, u, kind
        self.lines = []
        self.bound = {}         # name -> set of kinds: def/import_foreign/import_own/cond/...
        self.allv = None        # generator's idea of the runtime value of __all__ (list) or None
        self.all_dynamic = False
        self.broken_star = False  # generator expects `from M import *` to fail

    def bind(self, n, how):
        self.bound.setdefault(n, set()).add(how)

    def emit(self, s):
        self.lines.append(s)

    # -- statement makers ----------------------------------------------------
    def st_def(self):
        n = _anyname(self.rng)
        deco = "" if self.rng.random() < 0.8 else "@staticmethod\n"
        self.emit("%sdef %s(*args):\n    return %r" % (deco, n, n))
        self.bind(n, "def")

    def st_async(self):
        n = _anyname(self.rng, 0.1)
        self.emit("async def %s():\n    return 1" % n)
        self.bind(n, "async")

    def st_class(self):
        n = _anyname(self.rng)
        self.emit(self.rng.choice(["class %s:\n    pass", "class %s(object):\n    attr = 1\n    def m(self):\n        return 2"]) % n)
        self.bind(n, "class")

    def st_assign(self):
        r = self.rng.random()
        if r < 0.6:
            n = _anyname(self.rng)
            self.emit("%s = %s" % (n, _val(self.rng)))
            self.bind(n, "assign")
        elif r < 0.8:
            n1, n2 = _anyname(self.rng), _anyname(self.rng)
            self.emit("%s = %s = %s" % (n1, n2, _val(self.rng)))
            self.bind(n1, "assign"); self.bind(n2, "assign")
        else:
            n = _pub(self.rng)
            self.emit("%s = 1\n%s += 1" % (n, n))
            self.bind(n, "assign")

    def st_tuple(self):
        rng = self.rng
        ns = [_anyname(rng, 0.1) for _ in range(3)]
        form = rng.choice(["%s, %s = [1], [2]", "[%s, %s] = [1], [2]", "(%s, *%s) = [1], [2], [3]",
                           "%s, (%s, %s) = [1], ([2], [3])", "(%s, %s) = %s = ([1], [2])"])
        k = form.count("%s")
        self.emit(form % tuple(ns[:k]))
        for i, n in enumerate(ns[:k]):
            self.bind(n, "assign" if (form.startswith("(%s, %s) = %s") and i == 2) else "tuple")

    def st_attr(self):
        fns = [n for n, h in self.bound.items() if "def" in h and n.isascii() and n != "__all__"]
        if not fns:
            return self.st_assign()
        f = self.rng.choice(fns)
        self.emit(self.rng.choice(["%s.attr = 1", "%s.__dict__['k'] = 2", "%s.attr = %s.other = 3"]).replace("%s", f))

    def st_shapes(self):
        """assignment targets of every shape over names the module merely imported (or private names): the base /
        index of an attribute or subscript target is in Load context and binds nothing"""
        rng, u = self.rng, self.u
        F = u.F
        a, b = _anyname(rng, 0.1), _pub(rng)
        pre_os = ("import os", [("os", "import_foreign")])
        pre_fk = ("from %s import FK" % F, [("FK", "import_foreign")])
        pre_fd = ("from %s import fd, i0" % F, [("fd", "import_foreign"), ("i0", "import_foreign")])
        pre_fz = ("from %s import fz" % F, [("fz", "import_foreign")])
        pre_mod = ("import %s as fmod" % F, [("fmod", "import_foreign")])
        pre_dec = ("from json import decoder", [("decoder", "import_foreign")])
        priv = ("_t = type('T', (), {})\n_d = {}", [("_t", "assign"), ("_d", "assign")])
        K = "K_" + u.tag
        forms = [
            ([pre_os], "os.environ[%r] = 'v'" % K, []),
            ([pre_dec], "decoder.C19_FLAG = True", []),
            ([pre_fk], "FK.flag = [1]", []),
            ([pre_fk], "FK.flag: list = [1]", []),
            ([pre_fk], "FK.count = 0\nFK.count += 1", []),
            ([pre_fd, ], "fd[i0] = [1]", []),
            ([pre_fd], "fd['k']: int = 3", []),
            ([pre_fd], "fd['n'] = 0\nfd['n'] += 1", []),
            ([pre_fd, pre_fk], "fd[i0], FK.attr = [1], [2]", []),
            ([pre_fz], "fz[0:1] = ['fz']", []),
            ([pre_fz, pre_fd], "fz[i0] = 'fz'", []),
            ([pre_fk], "%s, FK.attr = [1], [2]" % a, [(a, "tuple")]),
            ([pre_fk, pre_fz], "(%s, (fz[0], *%s)) = [1], ('fz', [2])" % (a, b), [(a, "tuple"), (b, "tuple")]),
            ([pre_fk], "*FK.rest, %s = [1], [2], [3]" % a, [(a, "tuple")]),
            ([pre_fk], "[FK.x, [%s, FK.y]] = [1], ([2], [3])" % a, [(a, "tuple")]),
            ([pre_mod], "fmod.extra = [1]", []),
            ([pre_mod, pre_fd], "fmod.fd[fmod.i0] = %s = [1]" % a, [(a, "assign")]),
            ([pre_fk, pre_fd], "fd[FK].x = 1" if False else "fd[i0] = FK.z = [0]", []),
            ([pre_os, pre_fk], "with open(os.devnull) as FK.handle:\n    pass", []),
            ([pre_fk], "for FK.it in ([1], [2]):\n    pass", []),
            ([pre_fd], "for fd['it'] in ([1],):\n    pass", []),
            ([pre_fk], "FK.tmp = 1\ndel FK.tmp", []),
            ([pre_fd], "fd['tmp'] = 1\ndel fd['tmp']", []),
            ([], "(%s := [1])" % b, [(b, "cond")]),
            ([pre_fd], "fd[(%s := 'w')] = [1]" % b, [(b, "cond")]),
            ([priv], "_t.x = 1\n_d['k'] = [2]\n_d['k'], %s = [3], [4]" % a, [(a, "tuple")]),
            ([priv], "_tmp = [1]\ndel _tmp", []),
        ]
        pres, stmt, binds = rng.choice(forms)
        for src, bs in pres:
            self.emit(src)
            for n, h in bs:
                self.bind(n, h)
        self.emit(stmt)
        for n, h in binds:
            self.bind(n, h)

    def st_del(self):
        """top-level `del` of names bound so far by assignment / def / class / foreign import / own-package `from`
        import: `del a`, `del a, b`, through a parenthesised tuple or a list target (`del (a, b)`, `del [a]`,
        `del (a,), b`), delete-then-rebind (also by importing again)."""
        rng = self.rng
        ok = {"def", "async", "class", "assign", "tuple", "ann", "import_foreign", "import_own"}
        cands = [n for n, h in self.bound.items() if h and h <= ok and n != "__all__" and n.isidentifier()]
        if self.allv is not None:
            cands = [n for n in cands if n not in self.allv]     # keep the module star-importable
        if not cands:
            n = _pub(rng)
            self.emit(rng.choice(["%s = [0]", "def %s():\n    return 0", "class %s:\n    pass"]) % n)
            self.bind(n, "assign")
            cands = [n] if (self.allv is None or n not in self.allv) else []
            if not cands:
                return
        own = [n for n in cands if "import_own" in self.bound[n]]
        k = 1 if rng.random() < 0.7 else 2
        ns = rng.sample(cands, min(k, len(cands)))
        if own and rng.random() < 0.5 and not set(ns) & set(own):
            ns[0] = rng.choice(own)
        r = rng.random()
        if r < 0.70:
            self.emit("del " + ", ".join(ns))
        elif r < 0.82:
            self.emit("del (%s)" % "".join(n + ", " for n in ns).rstrip(" ") if len(ns) == 1 else "del (%s)" % ", ".join(ns))
        elif r < 0.92:
            self.emit("del [%s]" % ", ".join(ns))
        else:
            self.emit("del (%s,)%s" % (ns[0], "".join(", " + n for n in ns[1:])))
        was_own = {n: ("import_own" in self.bound.get(n, ())) for n in ns}
        for n in ns:
            self.bound.pop(n, None)
        if rng.random() < 0.35:
            n = ns[0]
            if was_own[n] and self.kind == "init" and rng.random() < 0.5:
                self.emit("from .sub import sx as %s" % n)
                self.bind(n, "import_own")
            else:
                self.emit(rng.choice(["%s = [9]", "def %s():\n    return 9", "class %s:\n    pass"]) % n)
                self.bind(n, "assign")

    def st_ann(self):
        n = _anyname(self.rng, 0.1)
        if self.rng.random() < 0.75:
            self.emit("%s: %s = %s" % (n, self.rng.choice(["int", "'list'", "object"]), _val(self.rng)))
            self.bind(n, "ann")
        else:
            self.emit("%s: int" % n)

    def st_typealias(self):
        # N3: `type X = ...` (3.12+) is a simple top-level statement binding X (a TypeAliasType object)
        n = _anyname(self.rng, 0.15)
        self.emit("type %s = %s" % (n, self.rng.choice(["int", "list[int]", "dict[str, 'X']", "int | None"])))
        self.bind(n, "typealias")

    def st_foreign(self):
        rng, u = self.rng, self.u
        c = rng.randrange(11)
        if c == 0:
            self.emit("import os"); self.bind("os", "import_foreign")
        elif c == 1:
            self.emit("import os.path as osp"); self.bind("osp", "import_foreign")
        elif c == 2:
            self.emit("import %s" % u.F); self.bind(u.F, "import_foreign")
        elif c == 3:
            n = _pub(rng)
            self.emit("import %s as %s" % (u.F, n)); self.bind(n, "import_foreign")
        elif c == 4:
            self.emit("from %s import fz" % u.F); self.bind("fz", "import_foreign")
        elif c == 5:
            n = _anyname(rng, 0.1)
            self.emit("from %s import fy as %s" % (u.F, n)); self.bind(n, "import_foreign")
        elif c == 6:
            self.emit("from os.path import join as helper"); self.bind("helper", "import_foreign")
        elif c == 7:
            self.emit("from %s import *" % u.F)
            for n in ("fz", "fy", "FK", "fd", "i0"):
                self.bind(n, "import_foreign")
        elif c == 8:
            self.emit("from %s import xq" % u.MX); self.bind("xq", "import_foreign")
        elif c == 9:
            self.emit("from %s import fz, FK as %s" % (u.F, "FKa")); self.bind("fz", "import_foreign"); self.bind("FKa", "import_foreign")
        else:
            self.emit("import os, sys"); self.bind("os", "import_foreign"); self.bind("sys", "import_foreign")

    def st_own(self):
        """imports that stay inside the target's own package tree (or look like it)"""
        rng, u, kind = self.rng, self.u, self.kind
        P = u.P
        if kind == "init":
            opts = [
                ("from .sub import sx", [("sx", "import_own")]),
                ("from .sub import sy as %s" % "ysy", [("ysy", "import_own")]),
                ("from .sub import sz, SC", [("sz", "import_own"), ("SC", "import_own")]),
                ("from .sub import _sp", [("_sp", "import_own")]),
                ("from .sub import (sx as a,\n    sy)", [("a", "import_own"), ("sy", "import_own")]),
                ("from %s.sub import sx" % P, [("sx", "import_own")]),
                ("from %s.sub import sz as fn" % P, [("fn", "import_own")]),
                ("from .sub import *", [("sx", "import_own"), ("sy", "import_own"), ("sz", "import_own"), ("SC", "import_own"), ("sub", "submodule")]),
                ("from . import sub", [("sub", "submodule")]),
                ("from . import sub as sb", [("sb", "submodule")]),
                ("from .sp import leaf", [("leaf", "submodule"), ("sp", "submodule")]),
                ("from .sp.leaf import lf", [("lf", "import_own"), ("sp", "submodule")]),
                ("from %s.sp.leaf import lg as val" % P, [("val", "import_own"), ("sp", "submodule")]),
                ("from .sp import leaf as L", [("L", "submodule"), ("sp", "submodule")]),
                ("from .sp.leaf import lf as sub", [("sub", "import_own"), ("sp", "submodule")]),
                ("from .sp import spx as leaf", [("leaf", "import_own"), ("sp", "submodule")]),
                ("from .sp import spx", [("spx", "import_own"), ("sp", "submodule")]),
                ("from %s import sub" % P, [("sub", "submodule")]),
                ("import %s.sub" % P, [(P, "import_foreign"), ("sub", "submodule")]),
            ]
        elif kind == "subinit":
            opts = [
                ("from .leaf import lf", [("lf", "import_own"), ("leaf", "submodule")]),
                ("from .leaf import lg as fn, lf as c", [("fn", "import_own"), ("c", "import_own"), ("leaf", "submodule")]),
                ("from %s.sp.leaf import lf as val" % P, [("val", "import_own"), ("leaf", "submodule")]),
                ("from . import leaf", [("leaf", "submodule")]),
                ("from ..sub import sx", [("sx", "import_foreign")]),
                ("from ..sub import sy as b", [("b", "import_foreign")]),
                ("from %s.sub import sz" % P, [("sz", "import_foreign")]),
                ("from .. import sub", [("sub", "import_foreign")]),
            ]
        elif kind == "inpkg":
            opts = [
                ("from .sub import sx", [("sx", "import_foreign")]),
                ("from .sub import sy as d", [("d", "import_foreign")]),
                ("from . import sub", [("sub", "import_foreign")]),
                ("from %s.sub import sz" % P, [("sz", "import_foreign")]),
                ("from .sp.leaf import lf", [("lf", "import_foreign")]),
                ("from %s import sub as sb" % P, [("sb", "import_foreign")]),
            ]
        elif kind == "leaf":
            opts = [
                ("from ..sub import sx", [("sx", "import_foreign")]),
                ("from ...%s.sub import sy" % P if False else "from ..sub import sy as X", [("X", "import_foreign")]),
                ("from %s.sub import sz" % P, [("sz", "import_foreign")]),
                ("from .. import sub", [("sub", "import_foreign")]),
            ]
        else:
            return self.st_foreign()
        src, binds = rng.choice(opts)
        self.emit(src)
        for n, h in binds:
            self.bind(n, h)

    def st_own_mix(self):
        """`from <submodule of the target's package> import n1 [as a1], n2 [as a2], ...`: 1-3 names of that submodule in
        random order - public, private, or bound to a module object there - each under no alias, a public alias or a
        private alias (all four private/public combinations of source name and alias), relative or absolute.  For a
        package __init__ (kinds init / subinit) these are re-exports from an own submodule; for a module inside the
        package (inpkg / leaf) the same statements read a sibling, i.e. are merely imported from elsewhere."""
        rng, u, kind = self.rng, self.u, self.kind
        P = u.P
        if kind == "init":
            sm = rng.choice(["sub", "_compat", "_compat", "sp.leaf"])
            rel, own = "." + sm, True
        elif kind == "subinit":
            sm = rng.choice(["sp.leaf", "sp.leaf", "sub", "_compat"])
            rel, own = (".leaf", True) if sm == "sp.leaf" else (".." + sm, False)
        elif kind == "inpkg":
            sm = rng.choice(["sub", "_compat", "sp.leaf"])
            rel, own = "." + sm, False
        elif kind == "leaf":
            sm = rng.choice(["sub", "_compat"])
            rel, own = ".." + sm, False
        else:
            return self.st_foreign()
        pub, priv, modobj = OWN_NAMES[sm]
        picked = []
        for _ in range(rng.choice([1, 2, 2, 3])):
            r = rng.random()
            pool = pub if (r < 0.40 or (r >= 0.70 and not modobj)) else priv if r < 0.70 else modobj
            n = rng.choice(pool)
            if n not in [x for x, _a in picked]:
                r2 = rng.random()
                alias = None if r2 < 0.45 else rng.choice(ALIASES_PUBLIC) if r2 < 0.80 else rng.choice(ALIASES_PRIVATE)
                picked.append((n, alias))
        rng.shuffle(picked)
        frm = rel if rng.random() < 0.6 else "%s.%s" % (P, sm)
        body = ", ".join(n if a is None else "%s as %s" % (n, a) for n, a in picked)
        if len(picked) > 1 and rng.random() < 0.2:
            body = "(" + body.replace(", ", ",\n    ") + ")"
        self.emit("from %s import %s" % (frm, body))
        for n, a in picked:
            self.bind(a or n, "import_own" if own else "import_foreign")
        if kind == "init":
            self.bind(sm.split(".")[0], "submodule")
        elif own:
            self.bind("leaf", "submodule")

    def _all_entries(self, k=None):
        rng = self.rng
        names = [n for n in self.bound if n != "__all__"]
        pubs = [n for n in names if not n.startswith("_")]
        out = []
        k = rng.randint(0, 4) if k is None else k
        for _ in range(k):
            r = rng.random()
            if r < 0.72 and pubs:
                out.append(rng.choice(pubs))
            elif r < 0.86 and names:
                out.append(rng.choice(names))
            elif r < 0.90:
                # entry that may well not exist / is not importable
                e = rng.choice(["zz_missing", "zz_missing", "a.b", "_p", "_p", "", "not an ident"])
                out.append(e)
            elif pubs:
                out.append(rng.choice(pubs))
        return out

    def _lit(self, entries, form=None):
        """literal display of `entries`; form 'list' | 'tuple' | None (random)"""
        rng = self.rng
        body = ", ".join(repr(e) for e in entries)
        if form is None:
            form = "list" if rng.random() < 0.75 else "tuple"
        if form == "tuple":
            return "(%s%s)" % (body, "," if entries else "")
        if rng.random() < 0.12 and entries:
            return "[\n    %s,\n]" % ",\n    ".join(repr(e) for e in entries)
        return "[%s]" % body

    def st_all(self):
        rng = self.rng
        r = rng.random()
        if r < 0.55:
            es = self._all_entries()
            tgt = "__all__" if rng.random() < 0.9 else rng.choice(["__all__ = _alias_all", "_alias_all = __all__"])
            lit = self._lit(es)
            self.all_form = "tuple" if lit.startswith("(") else "list"
            self.emit("%s = %s" % (tgt, lit))
            self.allv, self.all_dynamic = list(es), False
            self.bind("__all__", "assign")
            if tgt != "__all__":
                self.bind("_alias_all", "assign")
        elif r < 0.70:
            es = self._all_entries()
            self.all_form = "list"
            self.emit("__all__: list = %s" % self._lit(es, "list"))
            self.allv, self.all_dynamic = list(es), False
            self.bind("__all__", "ann")
        elif r < 0.93:
            es = self._all_entries(rng.randint(1, 3))
            form = rng.choice(["__all__ = %s + []", "__all__ = sorted(%s)", "__all__ = list(%s)",
                               "__all__ = [_n for _n in %s]", "_names = %s\n__all__ = _names"])
            self.all_form = "list"
            self.emit(form % self._lit(es, "list"))
            self.allv, self.all_dynamic = (sorted(es) if "sorted" in form else list(es)), True
            self.bind("__all__", "assign")
            if "_names" in form:
                self.bind("_names", "assign")
        elif r < 0.97:
            self.emit("__all__ = ['a', 1]" if rng.random() < 0.5 else "__all__ = [b'x']")
            self.allv, self.all_dynamic, self.broken_star = None, False, True
            self.bind("__all__", "assign")
        else:
            forms = ["__all__ = 3", "__all__ = None"]
            if "__all__" not in self.bound:
                # (a def/class named __all__ *after* a literal assignment is outside the generated family)
                forms += ["def __all__():\n    pass", "class __all__:\n    pass"]
            self.emit(rng.choice(forms))
            self.allv, self.broken_star = None, True
            self.bind("__all__", "assign")

    def st_all_aug(self):
        rng = self.rng
        if self.allv is None and not self.broken_star and rng.random() < 0.8:
            self.st_all()
        if self.allv is None:
            return
        r = rng.random()
        es = self._all_entries(rng.randint(0, 2))
        form = getattr(self, "all_form", "list")
        if r < 0.7:
            self.emit("__all__ += %s" % self._lit(es, form if form == "tuple" else None))
            self.allv = self.allv + list(es)
        elif r < 0.85:
            self.emit("_more = %s\n__all__ += _more" % self._lit(es, form))
            self.bind("_more", "assign")
            self.allv = self.allv + list(es)
            self.all_dynamic = True
        elif r < 0.93:
            self.emit("__all__ = __all__ + %s" % self._lit(es, form))
            self.allv = self.allv + list(es)
            self.all_dynamic = True
        else:
            self.emit("__all__ += %s(_n for _n in %s)" % (form, self._lit(es, "list")))
            self.allv = self.allv + list(es)
            self.all_dynamic = True

    def st_cond(self):
        rng = self.rng
        n = _anyname(rng, 0.1)
        c = rng.randrange(9)
        if c == 0:
            self.emit("if True:\n    def %s():\n        return 0" % n); self.bind(n, "cond")
        elif c == 1:
            self.emit("if False:\n    %s = [0]" % n)
        elif c == 2:
            self.emit("try:\n    import json\nexcept ImportError:\n    json = None"); self.bind("json", "cond")
        elif c == 3:
            self.emit("try:\n    %s = [1]\nfinally:\n    pass" % n); self.bind(n, "cond")
        elif c == 4:
            self.emit("for _i in (1, 2):\n    %s = [_i]" % n); self.bind(n, "cond"); self.bind("_i", "cond")
        elif c == 5:
            self.emit("if 1:\n    from %s import fy as %s\nelse:\n    %s = None" % (self.u.F, n, n)); self.bind(n, "cond")
        elif c == 6:
            self.emit("if len('x') == 1:\n    class %s:\n        pass\nelse:\n    %s = None" % (n, n)); self.bind(n, "cond")
        elif c == 7:
            self.emit("for %s in ([7],):\n    pass" % n); self.bind(n, "cond")
        else:
            self.emit("while False:\n    %s = 1" % n)

    def st_other(self):
        self.emit(self.rng.choice(["pass", "'a string statement'", "# just a comment", "assert True", "print", "[0][0]",
                                   "\n", "x_unused = None; del x_unused" if False else "1 + 1"]))

    # -- driver --------------------------------------------------------------
    def generate(self, max_items):
        rng = self.rng
        if rng.random() < 0.3:
            self.emit(rng.choice(['"""module docstring"""', "# -*- coding: utf-8 -*-", "'''doc\nstring __all__ = ['x']\n'''"]))
        want_all = rng.random() < 0.42
        n_items = rng.randint(0, max_items)
        makers = [(self.st_def, 14), (self.st_async, 5), (self.st_class, 8), (self.st_assign, 14), (self.st_tuple, 6),
                  (self.st_attr, 3), (self.st_shapes, 10), (self.st_del, 7), (self.st_ann, 6), (self.st_typealias, 3), (self.st_foreign, 12), (self.st_own, 12), (self.st_own_mix, 9), (self.st_cond, 7),
                  (self.st_other, 5)]
        if want_all:
            makers += [(self.st_all, 10), (self.st_all_aug, 6)]
        fns = [m for m, w in makers]
        ws = [w for m, w in makers]
        for _ in range(n_items):
            rng.choices(fns, ws)[0]()
        if want_all and "__all__" not in self.bound and rng.random() < 0.85:
            self.st_all()
            if rng.random() < 0.3:
                self.st_all_aug()
        return "\n".join(self.lines) + ("\n" if self.lines else "")

    def star_names(self):
        """generator's guess of what `from M import *` binds (None = star import expected to fail)"""
        if self.broken_star:
            return None
        if self.allv is not None:
            return list(dict.fromkeys(self.allv))
        return [n for n in self.bound if not n.startswith("_")]


def gen_universe(rng, tag, kind, max_items=7):
    u = U(tag)
    g = ModGen(rng, u, kind)
    src = g.generate(max_items)
    files = {
        u.P + "/__init__.py": rng.choice(["", "pk = 'pk'\n", "from . import sub\n"]),
        u.P + "/sub.py": SUB_SRC,
        u.P + "/_compat.py": COMPAT_SRC,
        u.P + "/a.py": "aa = 1\n",
        u.P + "/sp/__init__.py": "spx = ['spx']\n",
        u.P + "/sp/leaf.py": LEAF_SRC,
        u.F + ".py": FOREIGN_SRC,
        u.M + ".py": "pm = 1\n",
        u.MX + ".py": MX_SRC,
    }
    files[u.target_path(kind)] = src
    return u, g, files


# missing_dotted: `nopkg.mod`, no such package; in_module: `m.sub` where m.py is a plain module (find_spec raises
# ModuleNotFoundError for both: `ModuleHandle.filename` answers None, locating the module then fails)
UNINSPECTABLE = ["missing", "syntax", "namespace", "builtin", "extension", "nonstr_all", "undecodable",
                 "missing_dotted", "in_module"]


def gen_program(rng, u, target, star_names, extra_targets=(), g=None):
    """Return (program text, reads).  `star_names` None = do not read anything from the target."""
    lines = []
    r = rng.random()
    if r < 0.25:
        lines.append("import os")
    elif r < 0.35:
        lines.append("from %s import fz" % u.F)
    pre_shadow = None
    names = list(star_names or [])
    readable = [n for n in names if n.isidentifier()]
    if readable and rng.random() < 0.15:
        pre_shadow = rng.choice(readable)
        lines.append("from %s import fy as %s" % (u.F, pre_shadow))
    stars = ["from %s import *" % target] + ["from %s import *" % t for t in extra_targets]
    if len(stars) > 1 and rng.random() < 0.5:
        rng.shuffle(stars)
    lines.extend(stars)
    post_shadow = None
    if readable and rng.random() < 0.15:
        post_shadow = rng.choice(readable)
        lines.append("from %s import FK as %s" % (u.F, post_shadow))
    if rng.random() < 0.1:
        lines.append("import sys, json")
    body = []
    k = rng.randint(0, 4)
    reads = []
    if readable:
        pool = list(readable)
        rng.shuffle(pool)
        # bias: names the target merely imported / private names listed in __all__ come up, but not always
        def weight(n):
            if g is None:
                return 1.0
            how = g.bound.get(n, set())
            if how and how <= {"import_foreign"}:
                return 0.35
            if n.startswith("_"):
                return 0.5
            return 1.0
        for n in pool:
            if len(reads) >= k:
                break
            if rng.random() < weight(n):
                reads.append(n)
    if pre_shadow and pre_shadow not in reads and rng.random() < 0.7:
        reads.append(pre_shadow)
    if post_shadow and post_shadow not in reads and rng.random() < 0.7:
        reads.append(post_shadow)
    form = rng.random()
    if reads:
        if form < 0.6:
            body.append("_r = (%s,)" % ", ".join(reads))
        elif form < 0.8:
            body.append("def _use():\n    return [%s]\n_r = _use()" % ", ".join(reads))
        else:
            for i, n in enumerate(reads):
                body.append("_r%d = %s" % (i, n))
    else:
        body.append("_r = ()")
    sep = rng.choice(["\n", "\n\n", "\n# body\n"])
    return "\n".join(lines) + sep + "\n".join(body) + "\n", reads


# ----------------------------------------------------------------------------------------------
# facade / compat modules: `from M import *` binds names although the export list is empty
# ----------------------------------------------------------------------------------------------

def gen_facade_universe(rng, tag, kind):
    u = U(tag)
    g = ModGen(rng, u, kind)
    if rng.random() < 0.3:
        g.emit(rng.choice(['"""compat: one place to get the helpers"""', "# facade"]))
    for _ in range(rng.randint(1, 4)):
        r = rng.random()
        if r < 0.55:
            g.st_foreign()
        elif r < 0.70:
            n = rng.choice(PRIVATE)
            g.emit(rng.choice(["def %s(*a):\n    return 0", "%s = [0]", "class %s:\n    pass"]) % n)
            g.bind(n, "def")
        elif r < 0.80:
            g.emit("import json as _json")
            g.bind("_json", "import_foreign")
        elif r < 0.90:
            g.emit(rng.choice(["k9: int", "if False:\n    zz = 1", "pass", "'doc'"]))
        else:
            g.st_foreign()
    # make sure a public name arrives through a foreign import
    if not any(not n.startswith("_") for n in g.bound):
        g.emit("from %s import fz" % u.F)
        g.bind("fz", "import_foreign")
    src = "\n".join(g.lines) + "\n"
    files = {
        u.P + "/__init__.py": "",
        u.P + "/sub.py": SUB_SRC,
        u.P + "/_compat.py": COMPAT_SRC,
        u.P + "/a.py": "aa = 1\n",
        u.P + "/sp/__init__.py": "spx = ['spx']\n",
        u.P + "/sp/leaf.py": LEAF_SRC,
        u.F + ".py": FOREIGN_SRC,
        u.M + ".py": "pm = 1\n",
        u.MX + ".py": MX_SRC,
    }
    files[u.target_path(kind)] = src
    return u, g, files


# ----------------------------------------------------------------------------------------------
# environment cases: proj/tool.py star-imports its sibling proj/<S>; lib/<S> is another module of that name
# ----------------------------------------------------------------------------------------------

def gen_env_case(rng, tag):
    S = rng.choice(["settings", "config", "helpers", "common"]) + "_" + tag
    pkg = rng.random() < 0.25

    def modsrc(where, names, extra):
        lines = []
        for n in names:
            lines.append(rng.choice(["%s = %r", "def %s():\n    return %r", "class %s:\n    tag = %r"]) % (n, where + ":" + n)
                         if rng.random() < 0.5 else "%s = %r" % (n, where + ":" + n))
        lines += extra
        rng.shuffle(lines)
        return "\n".join(lines) + "\n"
    common = rng.sample(["TIMEOUT", "common", "Shared"], rng.randint(0, 2))
    proj_only = rng.sample(["DEBUG", "proj_fn", "ProjK", "level"], rng.randint(1, 3))
    lib_only = rng.sample(["LIB_ONLY", "lib_fn", "LibK"], rng.randint(1, 2))
    pextra = rng.choice([[], ["_hidden = 1"], ["import os"], ["__all__ = %r" % (sorted(proj_only + common),)]])
    lextra = rng.choice([[], ["_lh = 1"], ["__all__ = %r" % (sorted(lib_only + common),)]])
    psrc = modsrc("proj", proj_only + common, pextra)
    lsrc = modsrc("lib", lib_only + common, lextra)
    projfiles = {(S + "/__init__.py" if pkg else S + ".py"): psrc}
    libfiles = {(S + "/__init__.py" if (pkg and rng.random() < 0.7) else S + ".py"): lsrc, "otherlib_" + tag + ".py": "ol = 1\n"}
    reads = rng.sample(proj_only + common, rng.randint(1, len(proj_only + common)))
    lines = []
    if rng.random() < 0.3:
        lines.append("import os")
    lines.append("from %s import *" % S)
    if rng.random() < 0.2:
        lines.append("from otherlib_%s import ol" % tag)   # only importable when lib is on the path
    body = "_r = (%s,)\nprint([getattr(x, 'tag', None) or (x() if callable(x) else x) for x in _r])\n" % ", ".join(reads)
    program = "\n".join(lines) + "\n\n" + body
    via = "cli" if rng.random() < 0.4 else "lib"
    path_mode = rng.choice(["absent_nolib", "absent", "first", "after", "after", "after"])
    if "otherlib_" in program and path_mode == "absent_nolib":
        path_mode = "after"
    preimport = (via == "lib" and path_mode == "first" and rng.random() < 0.5)
    case = dict(kind="env", env=dict(path_mode=path_mode, preimport=preimport, via=via), modname=S,
                projfiles=projfiles, libfiles=libfiles, program=program, reads=reads, files={}, targets=[], cli=False)
    if not preimport and rng.random() < 0.45:
        # N1: lib/first_c19.py star-imports ITS sibling lib/<S> and is rewritten first, in the same process (library) /
        # the same `replace-star-imports --replace lib/first_c19.py proj/tool.py`; then proj/tool.py.  Every file
        # must get the explicit list of the module next to IT.
        case["env"]["prior"] = "lib"
        case["priorprogram"] = "from %s import *\n\n_r = (%s,)\n" % (S, lib_only[0])
    return case
