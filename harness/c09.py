"""C09 — No file is modified without the configured go-ahead."""
from __future__ import annotations

import collections
import copy
import errno
import io
import itertools
import os
import re
import runpy
import shutil
import stat
import sys
import tempfile

import vcommon
from vcommon import Prop
import gen_c09
from gen_c09 import SHORTCUTS, POLICIES, argv_of, build_tree, content, documented_safe

TOP_FN = {"tidy-imports": "fix_unused_and_missing_imports",
          "reformat-imports": "reformat_import_statements",
          "transform-imports": "transform_imports"}


# ----------------------------------------------------------------------------
# running the real tools in-process
# ----------------------------------------------------------------------------

def _text_of(x):
    for attr in ("joined",):
        if hasattr(x, attr):
            return getattr(x, attr)
    t = getattr(x, "text", None)
    if t is not None and hasattr(t, "joined"):
        return t.joined
    return str(x)


RW_EXC = {"RuntimeError": RuntimeError, "MemoryError": MemoryError, "RecursionError": RecursionError,
          "SystemExit": SystemExit, "KeyboardInterrupt": KeyboardInterrupt,
          "SystemExit0": SystemExit}
BASE_EXC_FAULTS = ("SystemExit", "SystemExit0", "KeyboardInterrupt")


def invoke(tool, argv, stdin_text, cwd, write_faults=None, rw_faults=None, list_faults=None, noisy=None):
    """Run $VERIF_REPO/bin/<tool> as __main__ inside this process.

    Fault hooks (from outside, nothing in /repo): `write_faults` {absolute path: errno name} makes
    `atomic_write_file(path, ...)` as seen by _cmdline raise that OSError before anything is created;
    `rw_faults` {input text: exception name} makes the tool's rewriter raise on that text ("SystemExit0" is
    `sys.exit(0)`); `list_faults` {real path of a directory: errno name} makes os.listdir of it raise.  Every call of
    atomic_write_file is recorded with its outcome.  `noisy="env"` is a run with PYFLYBY_LOG_LEVEL=DEBUG (the
    variable is read when pyflyby._log is imported, which has happened in this process: the level is set the
    way that import would have set it); `--verbose` comes with argv.

    fd 0 is /dev/null (so os.isatty(0) is False, like a pipe), fd 1/2 go to a temp file (external
    commands write there), Python-level stdin/stdout/stderr are StringIO objects.
    Returns dict(rc, msg, out, err, crash, rewrites, fdout_len).
    """
    script = os.path.join(vcommon.REPO, "bin", tool)
    import pyflyby._imports2s as I
    fn_name = TOP_FN[tool]
    orig_fn = getattr(I, fn_name)
    calls, depth = [], [0]

    write_faults = write_faults or {}
    rw_faults = rw_faults or {}
    writes = []
    import builtins
    import pyflyby._cmdline as CL
    import pyflyby._file as FL
    orig_aw = getattr(CL, "atomic_write_file", None)
    had_open = "open" in FL.__dict__

    def fopen(file, mode="r", *a, **k):
        # fault injection below atomic_write_file: creating '<target>.tmp.<pid>' (or the target) fails
        p = str(file)
        if any(ch in mode for ch in "wax+"):
            for tgt, kname in write_faults.items():
                if p == tgt or p.startswith(tgt + ".tmp."):
                    writes.append([tgt, "fault:" + kname])
                    raise OSError(getattr(errno, kname), os.strerror(getattr(errno, kname)), p)
        return builtins.open(file, mode, *a, **k)

    def aw(filename, data):
        p = str(filename)
        try:
            r = orig_aw(filename, data)
        except BaseException as e:
            if not (writes and writes[-1][0] == p and writes[-1][1]):
                writes.append([p, type(e).__name__])
            raise
        writes.append([p, None])
        return r

    def wrapper(*a, **k):
        if depth[0] == 0:
            t = _text_of(a[0]) if a else None
            calls.append(t)
            if t in rw_faults:
                if rw_faults[t] == "SystemExit0":
                    raise SystemExit(0)
                raise RW_EXC[rw_faults[t]]("injected rewriter fault")
        depth[0] += 1
        try:
            return orig_fn(*a, **k)
        finally:
            depth[0] -= 1

    list_faults = list_faults or {}
    listed_fail = []
    orig_listdir = os.listdir

    def flistdir(path="."):
        try:
            rp = os.path.realpath(os.fsdecode(path))
        except Exception:
            rp = None
        if rp in list_faults:
            kname = list_faults[rp]
            listed_fail.append(os.fsdecode(path))
            raise OSError(getattr(errno, kname), os.strerror(getattr(errno, kname)), os.fsdecode(path))
        return orig_listdir(path)

    saved = (sys.argv, sys.stdin, sys.stdout, sys.stderr, os.getcwd(), dict(os.environ))
    fds = [os.dup(0), os.dup(1), os.dup(2)]
    tmp = tempfile.TemporaryFile()
    devnull = os.open(os.devnull, os.O_RDONLY)
    out, err = io.StringIO(), io.StringIO()
    res = dict(rc=0, msg=None, crash=None)
    try:
        saved[2].flush()
        saved[3].flush()
    except Exception:
        pass
    try:
        setattr(I, fn_name, wrapper)
        if orig_aw is not None:
            CL.atomic_write_file = aw
        if write_faults:
            FL.open = fopen
        if list_faults:
            os.listdir = flistdir
        if noisy == "env":
            os.environ["PYFLYBY_LOG_LEVEL"] = "DEBUG"
            from pyflyby._log import logger as _lg
            _lg.set_level("DEBUG")
        os.dup2(devnull, 0)
        os.dup2(tmp.fileno(), 1)
        os.dup2(tmp.fileno(), 2)
        sys.argv = [script] + list(argv)
        sys.stdin = io.StringIO(stdin_text)
        sys.stdout, sys.stderr = out, err
        os.chdir(cwd)
        try:
            runpy.run_path(script, run_name="__main__")
        except SystemExit as e:
            c = e.code
            if c is None:
                res["rc"] = 0
            elif isinstance(c, int):
                res["rc"] = c
            else:
                res["rc"] = 1
                res["msg"] = str(c)
        except BaseException as e:  # an exception other than SystemExit escaped the tool
            res["rc"] = 1
            res["crash"] = type(e).__name__ + ": " + str(e)[:200]
    finally:
        setattr(I, fn_name, orig_fn)
        if orig_aw is not None:
            CL.atomic_write_file = orig_aw
        if write_faults and not had_open and "open" in FL.__dict__:
            del FL.open
        os.listdir = orig_listdir
        if hasattr(CL, "_fail_fast"):
            CL._fail_fast = False
        sys.argv, sys.stdin, sys.stdout, sys.stderr = saved[:4]
        os.dup2(fds[0], 0)
        os.dup2(fds[1], 1)
        os.dup2(fds[2], 2)
        for fd in fds + [devnull]:
            os.close(fd)
        try:
            os.chdir(saved[4])
        except OSError:
            os.chdir("/")
        os.environ.clear()
        os.environ.update(saved[5])
        try:
            from pyflyby._log import logger
            logger.set_level("ERROR")
        except Exception:
            pass
    tmp.seek(0)
    fdout = tmp.read().decode("utf-8", "replace")
    tmp.close()
    res.update(out=out.getvalue(), err=err.getvalue(), rewrites=calls, writes=writes, fdout_len=len(fdout), fdout=fdout[:2000],
               listed_fail=listed_fail)
    return res


_REF = {}


def ref_rewrite(tool, extra, text, scratch):
    """The tool's rewriter on `text`: what `<tool> file` prints with the default (non-tty) action PRINT;
    None when the tool fails on it.  Memoised per process."""
    key = (tool, tuple(extra), text)
    if key not in _REF:
        d = tempfile.mkdtemp(prefix="ref.", dir=scratch)
        try:
            p = os.path.join(d, "r.py")
            with open(p, "wb") as f:
                f.write(text.encode("utf-8", "surrogateescape"))
            r = invoke(tool, list(extra) + [p], "", d)
            _REF[key] = r["out"] if (r["rc"] == 0 and not r["crash"]) else None
        finally:
            shutil.rmtree(d, ignore_errors=True)
    return _REF[key]


def snap(root, n):
    p = os.path.join(root, n)
    try:
        st = os.lstat(p)
    except (FileNotFoundError, NotADirectoryError):
        return ["absent"]
    if stat.S_ISLNK(st.st_mode):
        return ["link", os.readlink(p)]
    if stat.S_ISDIR(st.st_mode):
        return ["dir", None, None, stat.S_IMODE(st.st_mode)]
    if not stat.S_ISREG(st.st_mode):
        return ["special", None, None, stat.S_IMODE(st.st_mode)]
    with open(p, "rb") as f:
        data = f.read().decode("utf-8", "surrogateescape")
    return ["file", data, st.st_ino, stat.S_IMODE(st.st_mode)]


def walk_names(root):
    """Every entry below root (relative names), whatever it is called."""
    out = []
    for dp, dns, fns in os.walk(root):
        for f in fns + dns:
            out.append(rel(root, os.path.join(dp, f)))
    return out


def rel(root, p):
    p = os.path.normpath(p)
    if p == root:
        return "."
    if p.startswith(root + "/"):
        return p[len(root) + 1:]
    return "//" + p


def expand_real(root, args, unlistable=()):
    """The harness's own reading of 'arguments that are files are always included, directories are
    recursively searched for *.py files' (os.* calls on the real tree, before the tool runs).  Directories are
    searched whether or not they are reached through a symlink (what the symlink policy has to say about that
    is the oracle's business); `unlistable` = real paths of directories whose listing fails (fault)."""
    out = []

    def walk(d, depth=0):
        if os.path.realpath(os.path.join(root, d)) in unlistable or depth > 12:
            return
        for e in sorted(os.listdir(os.path.join(root, d))):
            if e.startswith(".") or e == "__pycache__":
                continue
            n = d + "/" + e
            p = os.path.join(root, n)
            if not documented_safe(p):
                continue        # Filename.list(ignore_unsafe=True): names outside the whitelist are skipped
            if os.path.isfile(p):
                if e.endswith(".py"):
                    out.append(n)
            elif os.path.isdir(p):
                walk(n, depth + 1)

    for a in args:
        p = os.path.join(root, a)
        if os.path.isfile(p):
            out.append(a)
        elif os.path.isdir(p):
            walk(a)
    return out


def configured(case):
    """(action names, symlink policy, rejected?) as the command line *documents* them: the last action option
    wins (shortcuts expand to their documented --actions list), the last --symlinks wins, default error;
    without an action option and without ttys the default is PRINT."""
    acts, pol, bad = ["PRINT"], "error", False
    for o in case["opts"]:
        if o[0] == "actions":
            acts = list(o[1])
        elif o[0] == "symlinks":
            if o[1] in POLICIES:
                pol = o[1]
            else:
                bad = True
        else:
            acts = list(SHORTCUTS[o[0]])
    for a in acts:
        if a not in gen_c09.ACTION_NAMES:
            bad = True
    return acts, pol, bad


def policy_dropped(case):
    """D4: an action option follows the last --symlinks option (counting the implicit leading --symlinks=error)."""
    last_sym, last_act = -1, -2
    for i, o in enumerate(case["opts"]):
        if o[0] == "symlinks":
            last_sym = i
        else:
            last_act = i
    return last_act > last_sym


def is_yes(a):
    return a.strip().lower() in ("y", "yes")


def maybe_yes(a):
    return a.strip().lower().startswith("y")


class C09(Prop):
    id = "C09"
    driver = "C09"
    lean_modules = ["Pfb.C09.Props"]
    theorems = [
        "Pfb.C09.C09_safety",
        "Pfb.C09.C09_print_diff_only",
        "Pfb.C09.C09_ifchanged",
        "Pfb.C09.C09_query_no",
        "Pfb.C09.C09_rewriter_failure",
        "Pfb.C09.C09_follow_only_target",
        "Pfb.C09.C09_links_preserved",
        "Pfb.C09.C09_follow_unsafe_untouched",
        "Pfb.C09.C09_follow_unsafe_main",
        "Pfb.C09.C09_skip_error_untouched_acts",
        "Pfb.C09.C09_skip_error_untouched_partial",
        "Pfb.C09.C09_follow_links_kept_partial",
        "Pfb.C09.C09_isolation_partial",
        "Pfb.C09.C09_rewriter_once",
        "Pfb.C09.C09_unwritable_untouched",
        "Pfb.C09.safeName_shell_inert",
        "Pfb.C09.C09_unsafe_refused",
        "Pfb.C09.parse_fixed_policy",
        "Pfb.C09.C09_skip_error_untouched_fixed",
        "Pfb.C09.C09_links_kept_fixed",
        "Pfb.C09.D4_fixed_witness",
        "Pfb.C09.parse_policy_present",
        "Pfb.C09.policyActionPresent_configured",
        "Pfb.C09.runActions_change",
        "Pfb.C09.D4_witness",
        "Pfb.C09.D4_witness_default",
        "Pfb.C09.D4_witness_follow",
        "Pfb.C09.C09_skip_error_untouched_full_false",
        "Pfb.C09.D12_witness",
        "Pfb.C09.D12_witness_summary",
        "Pfb.C09.C09_isolation_full_false",
        "Pfb.C09.mainV_plain",
        "Pfb.C09.processFilesFF_none",
        "Pfb.C09.C09_failfast_stops",
        "Pfb.C09.C09_unsafe_isolated",
        "Pfb.C09.C09_2_witness",
        "Pfb.C09.C09_1a_witness",
    ]
    anchors = [
        ("lib/python/pyflyby/_cmdline.py", "parse_args"),
        ("lib/python/pyflyby/_cmdline.py", "process_actions"),
        ("lib/python/pyflyby/_cmdline.py", "Modifier"),
        ("lib/python/pyflyby/_cmdline.py", "filename_args"),
        ("lib/python/pyflyby/_cmdline.py", "action_print"),
        ("lib/python/pyflyby/_cmdline.py", "action_ifchanged"),
        ("lib/python/pyflyby/_cmdline.py", "action_replace"),
        ("lib/python/pyflyby/_cmdline.py", "action_exit1"),
        ("lib/python/pyflyby/_cmdline.py", "action_external_command"),
        ("lib/python/pyflyby/_cmdline.py", "action_query"),
        ("lib/python/pyflyby/_cmdline.py", "symlink_callback"),
        ("lib/python/pyflyby/_cmdline.py", "symlink_error"),
        ("lib/python/pyflyby/_cmdline.py", "symlink_follow"),
        ("lib/python/pyflyby/_cmdline.py", "symlink_skip"),
        ("lib/python/pyflyby/_cmdline.py", "symlink_replace"),
        ("lib/python/pyflyby/_file.py", "expand_py_files_from_args"),
        ("lib/python/pyflyby/_file.py", "atomic_write_file"),
        ("lib/python/pyflyby/_file.py", "Filename._from_filename"),
        ("lib/python/pyflyby/_file.py", "Filename.list"),
        ("bin/tidy-imports", None),
        ("bin/reformat-imports", None),
        ("bin/transform-imports", None),
    ]
    quick_cases = 1000
    thorough_cases = 9000
    quick_deadline_s = 70
    thorough_deadline_s = 700
    rule = ("real invocations of bin/tidy-imports | reformat-imports | transform-imports (in-process, __main__) on fresh temp "
            "trees: option lists = shuffles of 0-2 action options (--actions=<1-4 of PRINT/REPLACE/IFCHANGED/QUERY/DIFF/EXIT1/"
            "EXECUTE:true/EXECUTE:echo> or -p/-d/-r/-R/-i) and 0-2 --symlinks options (rarely an invalid value), placed before "
            "or after the files; 1-5 arguments over regular files (changed / unchanged / unparsable / re-rewritable / undecodable / "
            "empty), symlinks (target listed or not, chains; with an ordinary name but a resolved path that Filename refuses: "
            "target under 'My Project3/', 'a (copy)1/', ...), dangling symlinks, missing names, directories (with .py, non-.py, "
            "hidden, __pycache__, nested, symlink children), repeated arguments; 0-6 answers; plus a sampled (quick) / full "
            "(thorough) small scope: every action list of length <= 3 x policy placement x 4 file sequences, every file sequence "
            "of length <= 3 over 7 kinds x 12 configurations x policies; round 3: every character of a hostile file-name alphabet "
            "(all ASCII punctuation, space/tab/newline/CR/DEL/control, non-ASCII incl. astral and bidi) in five name shapes, plus "
            "leading '-', '~' components, brace/comma names and 250-character names, as argument or directory child, under 8 action "
            "configurations (DIFF, PRINT, EXECUTE, IFCHANGED+DIFF, REPLACE ...), next to a precious file the shell redirection would "
            "hit; one failing file at every position of 2-5-file runs failing in 15 ways (temp name > NAME_MAX, injected EACCES/"
            "EROFS/ENOSPC/EDQUOT below atomic_write_file, rewriter raising RuntimeError/MemoryError/RecursionError/SystemExit/"
            "KeyboardInterrupt, unparsable, undecodable, missing, dangling) x 8 action configurations; a probe of Filename's "
            "whitelist on 400 names against the model's safeName; defect round: symlinks to DIRECTORIES (as argument, met while "
            "recursing, chains, next to the real directory, a file named through the link) x policies x 4 configurations; "
            "failing-file runs with --verbose or PYFLYBY_LOG_LEVEL=DEBUG (15% of the random cases too); os.listdir of a "
            "directory argument / sub-directory failing (EACCES, EIO); sys.exit(0) inside the rewriter; answers like "
            "'yikes no'.  The oracle snapshots the WHOLE scratch tree (contents, link "
            "targets, modes, created/removed entries) and, when a failure occurred, re-runs the command without the failing "
            "file(s) on a fresh tree and demands the same result for every other file.  Non-trivial: at least one file is processed or the exit "
            "status is non-zero; distinct by the whole case")
    trusted_base = ["the rewriter is a parameter of the model; for K its graph on the texts of a case is taken from the real tool "
                    "(`<tool> file`, default PRINT) and closed under re-application",
                    "modelled, not verified: the kernel's path resolution (symlinks followed up to 40 links, realpath), "
                    "atomic_write_file as 'target becomes a new regular file with the output, or OSError and nothing written' "
                    "(Env.writable; what a failed rename leaves behind is C08), "
                    "optparse's dispatch of callbacks in command-line order",
                    "which set_actions variant the model uses (pinned tree / tree with fixes/C09-D4.diff) is chosen by one probe "
                    "invocation at setup (or VERIF_C09_KEEP); everything else is compared",
                    "likewise two probe invocations choose mainV's bits: --verbose is fail-fast (tree before fixes/C09-2.diff) "
                    "and an unsafe argument name refuses the run (tree before fixes/C09-1a.diff)",
                    "oracle only (no model request): trees holding a symlink to a directory (two names for one inode), "
                    "os.listdir faults, BaseException out of the rewriter hook"]
    assumptions = ["DIFF / EXECUTE commands do not touch the argument files (the harness uses pyflyby-diff, true, echo); that the "
                   "*file names* cannot make them do so is not assumed: names outside Filename's whitelist are refused "
                   "(C09_unsafe_refused, safeName_shell_inert) and the oracle watches the whole tree",
                   "/bin/sh does not brace-expand ('{', '}', ',' are in the whitelist; dash here)",
                   "stdin/stdout are not ttys (default action PRINT); --debug (documented fail-fast) is not used; --verbose and "
                   "PYFLYBY_LOG_LEVEL=DEBUG (documented as noise only) are",
                   "text-mode reading: CRLF files and hard links are outside the modelled tree shapes; symlinked directories "
                   "are generated and judged by the oracle, not by the model",
                   "KeyboardInterrupt at a QUERY prompt (SystemExit(1)) is not modelled"]

    _scratch = None
    _keep = False     # which variant of the model corresponds to the tree: False = pinned (D4 present)
    _ff = True        # --verbose / PYFLYBY_LOG_LEVEL=DEBUG are fail-fast (C09-2 present)
    _iso = False      # an unsafe argument name is reported per file (C09-1a repaired)

    # -- lifecycle -----------------------------------------------------------
    def setup(self, tier, rng):
        self._scratch = tempfile.mkdtemp(prefix="pfbC09.")
        self._keep = self._probe_keep()
        self._ff, self._iso = self._probe_variants()

    def _probe_keep(self):
        """One bit decides which `set_actions` the model uses (Model.lean `setActions keep`): does an action
        option keep the symlink policy action (tree with fixes/C09-D4.diff) or drop it (pinned tree)?
        Everything else about the tree is then checked against that variant by K."""
        v = os.environ.get("VERIF_C09_KEEP")
        if v in ("0", "1"):
            return v == "1"
        d = tempfile.mkdtemp(prefix="probe.", dir=self._scratch)
        try:
            build_tree(d, {"t.py": ["file", content("C", 1)], "l.py": ["link", "t.py"]})
            invoke("reformat-imports", ["--symlinks=skip", "--replace", os.path.join(d, "l.py")], "", d)
            return os.path.islink(os.path.join(d, "l.py"))
        finally:
            shutil.rmtree(d, ignore_errors=True)

    def _probe_variants(self):
        """Two more bits choose the model variant (Model.lean `mainV`): is `--verbose` fail-fast on this tree (before
        fixes/C09-2.diff), and is an argument name that `Filename` refuses reported per file (fixes/C09-1a.diff) or
        does it refuse the whole run?  Everything else is compared."""
        d = tempfile.mkdtemp(prefix="probe.", dir=self._scratch)
        try:
            build_tree(d, {"x.py": ["file", content("X", 1)], "a b.py": ["file", content("C", 2)]})
            r1 = invoke("reformat-imports", ["--verbose", os.path.join(d, "x.py")], "", d)
            r2 = invoke("reformat-imports", [os.path.join(d, "a b.py")], "", d)
            ff = bool(r1["crash"])
            iso = not (r2["crash"] or "").startswith("UnsafeFilenameError")
            v = os.environ.get("VERIF_C09_VARIANTS")      # "<ff><iso>", e.g. "10"
            if v and len(v) == 2 and set(v) <= {"0", "1"}:
                ff, iso = v[0] == "1", v[1] == "1"
            return ff, iso
        finally:
            shutil.rmtree(d, ignore_errors=True)

    def teardown(self):
        if self._scratch:
            shutil.rmtree(self._scratch, ignore_errors=True)
            self._scratch = None

    def _scratch_dir(self):
        if self._scratch and os.path.isdir(self._scratch):
            return self._scratch, False
        return tempfile.mkdtemp(prefix="pfbC09."), True

    # -- cases ---------------------------------------------------------------
    def gen_case(self, rng, i, tier):
        return gen_c09.gen_case(rng)

    SEQS = [["LC", "C", "X", "U"], ["X", "M", "C", "LU"], ["D", "G", "C"], ["C", "LC", "C"]]
    CONFIGS = [["replace"], ["interactive"], ["diff-replace"], ["print"], ["actions", ["REPLACE"]],
               ["actions", ["QUERY", "REPLACE"]], ["actions", ["REPLACE", "EXIT1"]], ["actions", ["EXIT1", "REPLACE"]],
               ["actions", ["PRINT", "IFCHANGED", "REPLACE"]], ["actions", ["IFCHANGED", "QUERY", "REPLACE", "PRINT"]],
               ["actions", ["EXECUTE:echo", "REPLACE"]], None]

    def exhaustive_cases(self, tier, rng):
        """Small scope, exhaustively (thorough) or sampled (quick):
        (A) every action list of length <= 3 over {PRINT, REPLACE, IFCHANGED, QUERY, DIFF|EXECUTE, EXIT1}
            x {no --symlinks, --symlinks=p before, --symlinks=p after the action option} x 4 fixed file sequences
            x 2 answer patterns (one sequence / pattern per configuration, rotating; all of them in thorough);
        (B) every file sequence of length <= 3 over {changed, unchanged, unparsable, symlink, dangling, missing,
            directory} x 12 configurations x {policy after the action option} (one policy per case, rotating)."""
        base = ["PRINT", "REPLACE", "IFCHANGED", "QUERY", "X", "EXIT1"]
        lists = []
        for n in (1, 2, 3):
            lists.extend(itertools.product(base, repeat=n))
        ext = ["DIFF", "EXECUTE:true", "EXECUTE:echo"]
        placements = [None] + [(p, w) for p in POLICIES for w in ("before", "after")]
        answer_pats = [["y"] * 8, ["n", "y", "", "yes", "y", "y"]]
        A = []
        idx = 0
        for al in lists:
            for pl in placements:
                idx += 1
                acts = [ext[(idx + j) % 3] if a == "X" else a for j, a in enumerate(al)]
                opts = [["actions", acts]]
                if pl:
                    opts = ([["symlinks", pl[0]]] + opts) if pl[1] == "before" else (opts + [["symlinks", pl[0]]])
                combos = [(s, a) for s in range(len(self.SEQS)) for a in range(2)] if tier == "thorough" \
                    else [(idx % len(self.SEQS), (idx // 4) % 2)]
                for si, ai in combos:
                    tool, extra = gen_c09.TOOLS[idx % 3] if si == 0 else gen_c09.TOOLS[0]
                    tree, args = gen_c09.tree_of_kinds(self.SEQS[si], tool)
                    A.append(dict(tool=tool, extra=list(extra), opts=opts, tree=tree, args=args,
                                  answers=answer_pats[ai], after=0))
        B = []
        kinds = ["C", "U", "X", "LC", "G", "M", "D"]
        idx = 0
        for n in (1, 2, 3):
            for seq in itertools.product(kinds, repeat=n):
                for cfg in self.CONFIGS:
                    idx += 1
                    pols = POLICIES + [None] if tier == "thorough" else [(POLICIES + [None])[idx % 5]]
                    for pol in pols:
                        opts = [cfg] if cfg else []
                        if pol:
                            opts = opts + [["symlinks", pol]]
                        tree, args = gen_c09.tree_of_kinds(list(seq), "tidy-imports")
                        B.append(dict(tool="tidy-imports", extra=[], opts=opts, tree=tree, args=args,
                                      answers=["y", "n", "y", "y"], after=idx % 2))
        # (C) a symlink whose resolved path Filename refuses: five shapes (direct, chain, refused name only on the way,
        #     directory child, named three times) x policies x 4 configurations, plus the D4 placement
        H = gen_c09.hostile_exhaustive(tier, rng)
        Fc = gen_c09.fault_exhaustive(tier, rng)
        P = [gen_c09.safename_probe()]
        Ut = gen_c09.unsafe_target_exhaustive(tier, rng) if gen_c09.UNSAFE_TARGETS else []
        # defect round: symlinked directories (C09-3), failing-file runs with --verbose / PYFLYBY_LOG_LEVEL=DEBUG (C09-2)
        Dl = gen_c09.dirlink_exhaustive(tier, rng) if gen_c09.DIRLINKS else []
        Nz = gen_c09.noisy_exhaustive(tier, rng)
        if tier == "thorough":
            return P + H + Fc + Ut + Dl + Nz + A + B
        return P + H + Fc + Ut + Dl + Nz + rng.sample(A, 90) + rng.sample(B, 90)

    # -- implementation ------------------------------------------------------
    def run_impl(self, case):
        if case.get("probe") == "safename":
            from pyflyby._file import Filename, UnsafeFilenameError
            res = []
            for n in case["names"]:
                try:
                    # what the tools do with an (already absolute) argument
                    Filename(n)
                    res.append(True)
                except UnsafeFilenameError:
                    res.append(False)
                except Exception as e:
                    res.append("exc:" + type(e).__name__)
            return dict(probe=res)
        scratch, own = self._scratch_dir()
        base = tempfile.mkdtemp(prefix="case.", dir=scratch)
        try:
            root = os.path.realpath(os.path.join(base, "w"))
            os.mkdir(root)
            tree, args = case["tree"], case["args"]
            build_tree(root, tree)
            faults = case.get("faults") or {}
            list_faults = {os.path.realpath(os.path.join(root, n)): k for n, k in (faults.get("list") or {}).items()}
            expanded = expand_real(root, args, set(list_faults))
            # (files reached through a symlinked directory have names os.walk does not produce)
            names = set(tree) | set(args) | set(walk_names(root)) | set(expanded)
            facts = {}
            for n in sorted(names):
                p = os.path.join(root, n)
                dn = os.path.dirname(os.path.normpath(p))
                facts[n] = dict(islink=os.path.islink(p), isfile=os.path.isfile(p), isdir=os.path.isdir(p),
                                real=rel(root, os.path.realpath(p)) if os.path.exists(p) else None,
                                # some directory component of the name is a symlink (the last component aside)
                                dirlink=os.path.realpath(dn) != dn)
            for n in list(facts):
                r = facts[n]["real"]
                if r and r not in names:
                    names.add(r)
            names = sorted(names)
            before = {n: snap(root, n) for n in names}
            # the rewriter's graph on every content that can occur (closed under re-application)
            ref = {}
            todo = [v[1] for v in before.values() if v[0] == "file"]
            depth = 0
            while todo and depth < 9:
                nxt = []
                for t in todo:
                    if t in ref:
                        continue
                    o = ref_rewrite(case["tool"], case.get("extra", []), t, scratch)
                    ref[t] = o
                    if o is not None and o not in ref:
                        nxt.append(o)
                todo, depth = nxt, depth + 1
            # cross-check of the reference itself (it is what the tool PRINTs, i.e. it passes through the tool's own
            # output path): for a text whose last line is unterminated and is not an import, the rewriter's output
            # is its output on the terminated text minus that terminator (C01: a final newline is neither added nor
            # removed).  A reference that disagrees is itself evidence of the failure.
            refnl = {}
            for t in list(ref):
                if t and not t.endswith("\n") and not t.rsplit("\n", 1)[-1].lstrip().startswith(("import ", "from ")) \
                        and t.isascii():
                    o2 = ref_rewrite(case["tool"], case.get("extra", []), t + "\n", scratch)
                    refnl[t] = o2
            argv = argv_of(case, root)
            write_faults = {os.path.join(root, n): k for n, k in (faults.get("write") or {}).items()}
            rw_faults = {}
            for n, k in (faults.get("rw") or {}).items():
                if tree.get(n, [""])[0] == "file":
                    rw_faults[tree[n][1]] = k
                    if k not in BASE_EXC_FAULTS:
                        ref[tree[n][1]] = None      # on this text the rewriter (with the hook) raises an Exception
            stdin_text = "".join(a + "\n" for a in case.get("answers", []))
            # keep every original inode allocated during the run, so that a re-created file can never get the
            # number of the inode it replaced (observed with two REPLACEs of one file)
            pins = []
            for n in names:
                if before[n][0] == "file":
                    pins.append(os.open(os.path.join(root, n), os.O_RDONLY))
            try:
                r = invoke(case["tool"], argv, stdin_text, root, write_faults, rw_faults, list_faults,
                           case.get("noisy"))
                # the directories whose listing failed, under the names the tool met them (maybe through a link)
                unlisted_dirs = sorted(set(rel(root, x) for x in r["listed_fail"]))
                listing = walk_names(root)
                for n in listing:
                    if n not in before:
                        before[n] = ["absent"]
                names = sorted(set(names) | set(listing))
                after = {n: snap(root, n) for n in names}
            finally:
                for fd in pins:
                    os.close(fd)
            stray = sorted(n for n in listing if before[n][0] == "absent")
            obs = dict(root=root, names=names, facts=facts, expanded=expanded, before=before, after=after,
                       ref=[[k, v] for k, v in sorted(ref.items(), key=lambda kv: kv[0])], stray=stray,
                       refnl=[[k, v] for k, v in sorted(refnl.items(), key=lambda kv: kv[0])],
                       rc=r["rc"], msg=r["msg"], crash=r["crash"], out=r["out"], err=r["err"],
                       rewrites=r["rewrites"], fdout_len=r["fdout_len"], fdout=r["fdout"][:2000],
                       writes=[[rel(root, w[0]), w[1]] for w in r["writes"]], pid=os.getpid(),
                       listed_fail=[rel(root, x) for x in r["listed_fail"]], unlisted_dirs=unlisted_dirs)
            return obs
        finally:
            shutil.rmtree(base, ignore_errors=True)
            if own:
                shutil.rmtree(scratch, ignore_errors=True)

    # -- oracle --------------------------------------------------------------
    def _run_plain(self, case, more_names=()):
        """The same command on a fresh copy of the tree, no fault hooks: whole-tree snapshot afterwards + stdout."""
        scratch, own = self._scratch_dir()
        base = tempfile.mkdtemp(prefix="base.", dir=scratch)
        try:
            root = os.path.realpath(os.path.join(base, "w"))
            os.mkdir(root)
            build_tree(root, case["tree"])
            stdin_text = "".join(a + "\n" for a in case.get("answers", []))
            r = invoke(case["tool"], argv_of(case, root), stdin_text, root, noisy=case.get("noisy"))
            names = sorted(set(case["tree"]) | set(walk_names(root)) | set(more_names))
            return dict(after={n: snap(root, n) for n in names}, out=r["out"], rc=r["rc"])
        finally:
            shutil.rmtree(base, ignore_errors=True)
            if own:
                shutil.rmtree(scratch, ignore_errors=True)

    def oracle(self, case, obs):
        if "probe" in obs:
            return []
        fails = []
        acts, policy, rejected = configured(case)
        before, after, facts, E = obs["before"], obs["after"], obs["facts"], obs["expanded"]
        ref = dict((k, v) for k, v in obs["ref"])
        root = obs["root"]
        # everything the user is told: stderr, the final message, and the exception that left the tool (if any)
        errtext = (obs["err"] or "") + (obs["msg"] or "") + (obs.get("crash") or "")
        ctx = dict(tool=case["tool"], argv=argv_of(case), answers=case.get("answers", []), policy=policy, actions=acts)
        if case.get("noisy"):
            ctx["noisy"] = case["noisy"]

        def content_of(n):
            b = before.get(n)
            if b and b[0] == "file":
                return b[1]
            r = facts.get(n, {}).get("real")
            if r and before.get(r, [""])[0] == "file":
                return before[r][1]
            return None

        def F(what, **kw):
            d = dict(what=what)
            d.update(ctx)
            d.update(kw)
            fails.append(d)

        # names outside Filename's whitelist are never handed to the rewriter or the shell: such an argument cannot
        # be processed, which is a failure on THAT file (reported, exit status non-zero, the other files are
        # processed).  The tree before fixes/C09-1a.diff refuses the whole run instead (listed finding C09-1a).
        unsafe_args = [a for a in case["args"] if not documented_safe(os.path.join(root, a))]
        faults = case.get("faults") or {}
        bx_fired = {}       # BaseException faults of the rewriter hook that fired: name -> kind
        for n, k in (faults.get("rw") or {}).items():
            if k in BASE_EXC_FAULTS and case["tree"].get(n, [""])[0] == "file" \
                    and case["tree"][n][1] in obs["rewrites"]:
                bx_fired[n] = k
        kbd = "KeyboardInterrupt" in bx_fired.values()
        refused = False
        if obs.get("crash"):
            if obs["crash"].startswith("UnsafeFilenameError") and unsafe_args:
                refused = True
                F("an exception escaped the tool", crash=obs["crash"], cause="unsafe-name-refusal")
            elif obs["crash"].startswith("KeyboardInterrupt") and kbd:
                pass        # Ctrl-C ends the run: only the safety clauses apply
            else:
                # an exception other than SystemExit left the tool: a failure that is not collected and reported
                F("an exception escaped the tool", crash=obs["crash"])
        if refused and obs["rc"] == 0:
            F("run refused (unsafe file name) but exit status 0")

        for t, o2 in obs.get("refnl", []):
            o = ref.get(t)
            if o is not None and o2 is not None and o2.endswith("\n") and o != o2[:-1]:
                F("the tool's output for a file without final newline is not its output for the terminated file minus the "
                  "terminator (IFCHANGED / REPLACE then act on a changed text)", text=t[:200], out=o[:200], out_terminated=o2[:200])
        # ---- who may be written ---------------------------------------------
        auth = collections.defaultdict(list)
        link_args = [a for a in E if facts[a]["islink"]]
        # files reached through a symlinked DIRECTORY (argument or met while recursing): under error/skip a symlink
        # gives no go-ahead, whichever component of the name it is; under follow/replace the file behind it (its
        # real path) is the target
        via_dirlink = [a for a in E if facts[a].get("dirlink")]
        for a in E:
            if facts[a]["islink"]:
                t = facts[a]["real"] if policy == "follow" else (a if policy == "replace" else None)
                if t and facts[a].get("dirlink"):
                    t = None if policy in ("error", "skip") else facts[a]["real"]
            elif facts[a].get("dirlink"):
                t = facts[a]["real"] if policy in ("follow", "replace") else None
            else:
                t = a
            if t:
                auth[t].append(a)

        def changed(n):
            b, a = before[n], after[n]
            return b[:2] != a[:2]

        def alias(n):
            # a second name of a path that is snapshotted under its real name as well
            f = facts.get(n) or {}
            return bool(f.get("dirlink")) and f.get("real") in before and f.get("real") != n

        ch = [n for n in obs["names"] if changed(n) and not alias(n)]
        k0 = acts.index("REPLACE") if "REPLACE" in acts else None
        pre = acts[:k0] if k0 is not None else []
        for n in ch:
            if rejected:
                F("file modified although the command line was rejected", name=n)
                continue
            if k0 is None:
                F("file modified although the configured action list has no REPLACE", name=n)
                continue
            if n not in auth:
                if facts.get(n, {}).get("islink") and n in E and policy in ("error", "skip"):
                    F("symlink argument replaced under the error/skip policy", name=n)
                elif any(facts[l]["real"] == n for l in link_args) and policy in ("error", "skip"):
                    F("target of a symlink argument modified under the error/skip policy", name=n)
                elif facts.get(n, {}).get("islink") and policy == "follow":
                    F("symlink itself modified under the follow policy", name=n)
                elif any(facts[a]["real"] == n for a in via_dirlink) and policy in ("error", "skip"):
                    F("file reached only through a symlinked directory modified under the error/skip policy", name=n,
                      through=[a for a in via_dirlink if facts[a]["real"] == n][:3])
                else:
                    F("a file that no argument designates was modified", name=n)
                continue
            old = content_of(n)
            if after[n][0] != "file":
                F("write target is not a regular file afterwards", name=n, after=after[n][:2])
                continue
            new = after[n][1]
            outs, cur = [], old
            real_n = facts.get(n, {}).get("real")
            depth = len(auth[n]) + (len(auth.get(real_n, [])) if real_n and real_n != n else 0)
            for _ in range(depth):
                cur = ref.get(cur) if cur is not None else None
                if cur is None:
                    break
                outs.append(cur)
            if new not in outs:
                if old is not None and ref.get(old) is None:
                    F("file modified although the rewriter fails on it", name=n)
                else:
                    F("written bytes are not the rewriter's output", name=n, new=new[:200], want=outs[:2])
            if "EXIT1" in pre:
                F("file modified although EXIT1 is configured ahead of REPLACE", name=n)
            if "IFCHANGED" in pre and old is not None and ref.get(old) == old:
                F("file replaced although its output is unchanged and IFCHANGED is configured ahead of REPLACE", name=n)
        nq = pre.count("QUERY")
        if nq and ch and not rejected:
            yes = sum(1 for a in case.get("answers", []) if maybe_yes(a))
            if len(ch) * nq > yes:
                F("more files modified than QUERY prompts were answered yes", modified=ch, yes=yes, queries_per_file=nq)
        if "REPLACE" not in acts or rejected:
            for n in obs["names"]:
                if before[n][0] == "file" and after[n][0] == "file" and before[n][2] != after[n][2]:
                    F("file re-created (inode changed) although the configured action list has no REPLACE", name=n)

        for n in obs["names"]:
            b, a = before[n], after[n]
            if b[:2] == a[:2] and len(b) > 3 and len(a) > 3 and b[3] != a[3] and n not in auth:
                F("permission bits of a path that no argument designates changed", name=n, before=oct(b[3]), after=oct(a[3]))

        # ---- failures are reported and do not stop the other files ------------
        if kbd:
            return fails[:6]
        failures = []
        for a in case["args"]:
            if a in unsafe_args:
                failures.append((a, "the name is refused by Filename"))
            elif not facts[a]["isfile"] and not facts[a]["isdir"]:
                failures.append((a, "bad filename"))
        # a directory whose listing fails (fault): a failure on that directory -- observed (the tool tried to list it)
        unl = set()
        for n in obs.get("unlisted_dirs", []):
            unl.add(n)
            failures.append((n, "the directory cannot be listed"))
        rew = set(t for t in obs["rewrites"] if t is not None)
        # a rewriter failure is *observed* (the rewriter was called on a text it fails on); the files holding that
        # text (a symlink and its target share it) are the candidates, one of which must be named
        shared = []
        bx_texts = set(case["tree"][n][1] for n in bx_fired)
        for c in sorted(rew):
            if ref.get(c, "") is None and c not in bx_texts:
                cands = [a for a in E if content_of(a) == c]
                if len(cands) == 1:
                    failures.append((cands[0], "rewriter failure"))
                elif cands:
                    shared.append(cands)
        # a write failure is observed (atomic_write_file raised); it concerns the argument(s) written through
        for w, errname in obs.get("writes", []):
            if errname is not None:
                cands = [a for a in E if a == w or facts[a]["real"] == w]
                if len(cands) == 1:
                    failures.append((cands[0], "write failure"))
                elif cands:
                    shared.append(cands)
        sym_exit = bool(obs["msg"]) and "appears to be a symlink" in obs["msg"]
        if sym_exit:
            for a in link_args:
                if os.path.join(root, a) in obs["msg"]:
                    failures.append((a, "symlink under the error policy"))
        # ... and, however the tool words or raises it, the FIRST symlink argument met under the error policy is a
        # failure on that file (later ones are not reached on this tree: listed finding D12)
        if policy == "error" and not bx_fired and not rejected:
            live_links = [a for a in link_args if facts[a].get("isfile")]
            if live_links and not any(f[0] == live_links[0] for f in failures):
                failures.append((live_links[0], "symlink under the error policy"))
        # --symlinks=follow in force and the link's resolved path is one `Filename` refuses (a blank, a parenthesis ...):
        # the file cannot be processed, which is a failure on that file (not when a later action option dropped the
        # policy action: listed finding D4, the link is then not followed at all)
        if policy == "follow" and not policy_dropped(case) and not rejected:
            for a in link_args:
                r_ = facts[a].get("real")
                if facts[a].get("isfile") and r_ and not documented_safe(os.path.join(root, r_)) \
                        and not any(f[0] == a for f in failures):
                    failures.append((a, "the symlink's real path is refused by Filename"))
        generic = ("EOFError" in errtext) or ("UnicodeDecodeError" in errtext)
        # why the run ended early, when it did (used by the narrow known-finding families)
        cause = ("symlink-error-exit" if sym_exit else
                 "systemexit-fault" if set(bx_fired.values()) & {"SystemExit", "SystemExit0"} else
                 "unsafe-name-refusal" if refused else
                 "listdir-fault" if unl and obs.get("crash") else
                 "noisy-failfast" if case.get("noisy") and obs.get("crash") else "other")
        for fl in fails:
            if fl.get("what") == "an exception escaped the tool" and "cause" not in fl:
                fl["cause"] = cause
        if rejected:
            if obs["rc"] == 0:
                F("rejected command line but exit status 0")
        else:
            for a, why in failures:
                if obs["rc"] == 0:
                    F("failure on a file but exit status 0", name=a, why=why, cause=cause)
                p = os.path.join(root, a)
                if p not in errtext:
                    F("failure on a file is not reported by name", name=a, why=why, cause=cause, stderr=errtext[-300:])
            for cands in shared:
                if obs["rc"] == 0:
                    F("failure on a file but exit status 0", name=cands, why="rewriter failure", cause=cause)
                if not any(os.path.join(root, a) in errtext for a in cands):
                    F("failure on a file is not reported by name", name=cands, why="rewriter failure", cause=cause,
                      stderr=errtext[-300:])
            if generic and obs["rc"] == 0:
                F("an error was printed but exit status 0", cause=cause, stderr=errtext[-300:])
            if bx_fired and obs["rc"] == 0:
                F("failure on a file but exit status 0", name=sorted(bx_fired), why="SystemExit inside an action", cause=cause)
            if (failures or shared or generic or bx_fired) and (k0 is not None or "PRINT" in acts):
                passive = {"PRINT", "IFCHANGED", "DIFF", "EXECUTE:true", "EXECUTE:echo"}
                simple = k0 is not None and set(pre) <= passive
                kp = acts.index("PRINT") if "PRINT" in acts else None
                printable = kp is not None and set(acts[:kp]) <= (passive | {"REPLACE"})
                cnt = collections.Counter(E)
                ccnt = collections.Counter(content_of(a) for a in E)
                targets = set(facts[l]["real"] for l in link_args)
                failing = set(f[0] for f in failures) | set(a for c in shared for a in c) | set(bx_fired)
                for j in E:
                    if facts[j]["islink"] or cnt[j] != 1 or j in targets or j in failing:
                        continue
                    c = content_of(j)
                    if c is None or ccnt[c] != 1:
                        continue
                    o = ref.get(c)
                    if o is None:
                        continue
                    if simple and o != c and after[j][:2] != ["file", o]:
                        F("file not processed after a failure on another file", name=j, cause=cause,
                          failed=[f[0] for f in failures], expected="replaced by the rewriter's output")
                    elif printable and (o != c or "IFCHANGED" not in acts[:kp]) and o and o not in obs["out"]:
                        F("file not processed after a failure on another file", name=j, cause=cause,
                          failed=[f[0] for f in failures], expected="printed")
            # differential form of the same sentence: every other file ends up exactly as in a run of the same
            # command line without the failing file(s)
            FA = set(f[0] for f in failures) | set(a for c in shared for a in c) | set(bx_fired)
            if "UnicodeDecodeError" in errtext:
                FA |= set(a for a in E if (content_of(a) or "").encode("utf-8", "surrogateescape") !=
                          (content_of(a) or "").encode("utf-8", "replace"))
            if "EOFError" in errtext:
                FA = set()
            others = [j for j in E if j not in FA]
            reals = set(facts[a]["real"] for a in FA if facts.get(a, {}).get("real"))
            if (FA and others and "QUERY" not in acts and FA <= set(case["args"])
                    and not any((facts[j]["real"] in reals) or (j in reals) for j in others)):
                bcase = copy.deepcopy({k: v for k, v in case.items() if k not in ("faults", "_src")})
                bcase["args"] = [a for a in case["args"] if a not in FA]
                if bcase["args"]:
                    bobs = self._run_plain(bcase, obs["names"])
                    owned = FA | reals
                    for n in sorted(set(obs["names"]) | set(bobs["after"])):
                        if n in owned:
                            continue
                        x = after.get(n, ["absent"])[:2]
                        y = bobs["after"].get(n, ["absent"])[:2]
                        if x != y:
                            F("file not processed after a failure on another file", name=n, cause=cause,
                              failed=sorted(FA), expected="the same result as in a run without the failing file",
                              got=[str(t)[:80] for t in x], want=[str(t)[:80] for t in y])
                    ccnt = collections.Counter(content_of(a) for a in E)
                    for j in others:
                        c = content_of(j)
                        o = ref.get(c) if c is not None else None
                        if o and ccnt[c] == 1 and obs["out"].count(o) != bobs["out"].count(o):
                            F("file not processed after a failure on another file", name=j, cause=cause,
                              failed=sorted(FA), expected="printed as often as in a run without the failing file")
        return fails[:6]

    # -- model -----------------------------------------------------------------
    def _numbering(self, case, obs):
        tree = case["tree"]
        names = set(obs["names"])
        ltarget = {}
        for n, node in tree.items():
            if node[0] == "link":
                t = os.path.normpath(os.path.join(os.path.dirname(n), node[1]))
                ltarget[n] = t
                names.add(t)
        names = sorted(names)
        pid = {n: i + 1 for i, n in enumerate(names)}
        texts = set()
        for k, v in obs["ref"]:
            texts.add(k)
            if v is not None:
                texts.add(v)
        for n, node in tree.items():
            if node[0] == "file":
                texts.add(node[1])
        cid = {t: i + 1 for i, t in enumerate(sorted(texts))}
        return names, pid, cid, ltarget

    def model_requests(self, case, obs):
        if "probe" in obs:
            return [dict(op="safeName", name=n) for n in case["names"]]
        for k in ((case.get("faults") or {}).get("rw") or {}).values():
            if k in BASE_EXC_FAULTS:
                return []       # BaseException out of the rewriter hook: oracle only (not modelled)
        if (case.get("faults") or {}).get("list"):
            return []           # os.listdir failing: oracle only (not modelled)
        if any(f["islink"] and f["isdir"] for f in obs["facts"].values()):
            # a symlink to a directory: the files below it have two names for one inode, which the model's
            # file system (Path -> Node) cannot express: oracle only
            return []
        tree = case["tree"]
        names, pid, cid, ltarget = self._numbering(case, obs)
        fs = []
        for n in names:
            node = tree.get(n)
            if node is None:
                continue
            if node[0] == "file":
                fs.append([pid[n], ["file", cid[node[1]]]])
            elif node[0] == "link":
                fs.append([pid[n], ["link", pid[ltarget[n]]]])
            else:
                kids = sorted(k for k in tree if os.path.dirname(k) == n)
                kids.sort(key=lambda k: os.path.basename(k))
                ents = []
                for k in kids:
                    b = os.path.basename(k)
                    ents.append([pid[k], not (b.startswith(".") or b == "__pycache__"), os.path.splitext(b)[1] == ".py"])
                fs.append([pid[n], ["dir", ents]])
        opts = []
        for o in case["opts"]:
            if o[0] == "symlinks":
                opts.append(["symlinks", o[1] if o[1] in POLICIES else None])
            elif o[0] == "actions":
                if all(a in gen_c09.ACTION_NAMES for a in o[1]):
                    opts.append(["actions", list(o[1])])
                else:
                    opts.append(["actionsBad"])
            else:
                opts.append([o[0]])
        rw = [[cid[k], (cid[v] if v is not None else None)] for k, v in obs["ref"]]
        unreadable = []
        for t, i in cid.items():
            try:
                t.encode("utf-8")
            except UnicodeEncodeError:
                unreadable.append(i)
        root = obs["root"]
        unwritable = set()
        for n in names:
            if len(os.path.basename(n).encode("utf-8", "surrogateescape")) + len(".tmp.%d" % obs["pid"]) > 255:
                unwritable.add(pid[n])
        for n in ((case.get("faults") or {}).get("write") or {}):
            unwritable.add(pid[n])
        # what os.path.realpath gives for every path that exists (symlink_follow builds a Filename from it); a link
        # and the file it resolves to have the same one.  The model decides with its own safeName.
        realnames = []
        for n in names:
            r = (obs["facts"].get(n) or {}).get("real")
            if r is not None:
                realnames.append([pid[n], os.path.normpath(os.path.join(root, r)) if not r.startswith("//") else r[2:]])
        return [dict(op="main", tty=False, keep=bool(self._keep), isoUnsafe=bool(self._iso),
                     failFast=bool(case.get("noisy")) and bool(self._ff), opts=opts, fs=fs, rw=rw, unreadable=unreadable,
                     realnames=realnames,
                     names=[[pid[n], os.path.join(root, n)] for n in names], unwritable=sorted(unwritable), args=[pid[a] for a in case["args"]],
                     answers=list(case.get("answers", [])), paths=[pid[n] for n in names])]

    ERRCLASS = {"bad filename": "bad", "EOFError": "eof", "UnsafeFilenameError": "unsafe", "FileNotFoundError": "io", "IsADirectoryError": "io",
                "OSError": "io", "PermissionError": "io", "NotADirectoryError": "io", "UnicodeDecodeError": "io"}

    def compare(self, case, obs, resps):
        if "probe" in obs:
            bad = [(n, o, r.get("ok")) for n, o, r in zip(case["names"], obs["probe"], resps) if o != r.get("ok")]
            return ("safeName: model and Filename disagree on %r" % (bad[:5],)) if bad else None
        r = resps[0]
        names, pid, cid, ltarget = self._numbering(case, obs)
        name_of = {v: k for k, v in pid.items()}
        text_of = {v: k for k, v in cid.items()}
        root = obs["root"]
        before, after = obs["before"], obs["after"]
        diffs = []
        if "err" in r["parse"]:
            if r["parse"]["err"] == "optionValueError":
                if obs["rc"] != 2:
                    diffs.append("model: option value error (exit 2); impl rc=%r" % obs["rc"])
            else:
                if not obs["crash"]:
                    diffs.append("model: exception while parsing options; impl rc=%r msg=%r" % (obs["rc"], obs["msg"]))
        elif r.get("refused"):
            if not (obs["crash"] or "").startswith("UnsafeFilenameError"):
                diffs.append("model: run refused (unsafe argument name); impl rc=%r crash=%r" % (obs["rc"], obs["crash"]))
        elif r.get("crash"):
            # fail-fast: the model says this file's exception leaves the tool
            kind = self.ERRCLASS.get((obs["crash"] or "").split(":")[0], "rewriter") if obs["crash"] else None
            if kind != r["crash"][1]:
                diffs.append("model: exception %r of %s leaves the tool (fail-fast); impl crash=%r msg=%r"
                             % (r["crash"][1], name_of[r["crash"][0]], obs["crash"], (obs["msg"] or "")[:100]))
        elif obs["crash"]:
            diffs.append("impl crashed: %s" % obs["crash"])
        # file system
        for p, node in r["fs"]:
            n = name_of[p]
            a = after.get(n, ["absent"])
            if node[0] == "file":
                ok = (a[0] == "file" and a[1] == text_of[node[1]]
                      and ((before.get(n, [""])[0] == "file" and before[n][2] == a[2]) == node[2]))
            elif node[0] == "link":
                ok = a[0] == "link" and os.path.normpath(os.path.join(os.path.dirname(n), a[1])) == name_of[node[1]]
            else:
                ok = a[0] == node[0]
            if not ok:
                diffs.append("node %s: model=%r impl=%r" % (n, node, [x if not isinstance(x, str) else x[:60] for x in a]))
        if obs["stray"]:
            diffs.append("files left behind: %r" % (obs["stray"],))
        if r["status"] != obs["rc"]:
            diffs.append("exit status: model=%r impl=%r" % (r["status"], obs["rc"]))
        # final message
        msg = obs["msg"] or ""
        if r["sysexit"] is not None:
            want = "Error: %s appears to be a symlink" % os.path.join(root, name_of[r["sysexit"]])
            if want not in msg:
                diffs.append("model: SystemExit from symlink_error naming %s; impl msg=%r" % (name_of[r["sysexit"]], msg[:200]))
        else:
            got = []
            want = [[name_of[p], k] for p, k in r["summary"]]
            if "encountered the following problems" in msg:
                body = msg.split("encountered the following problems:\n", 1)[-1]
                # refused argument names come first, verbatim (they may hold any character: matched literally)
                for w in want:
                    # (process_actions lays an entry out as its first line + its further lines, indented, glued)
                    ls_ = ("%s: bad filename" % os.path.join(root, w[0])).splitlines() or [""]
                    lit = "    " + ls_[0] + "\n".join("            %s" % l for l in ls_[1:])
                    if w[1] == "bad" and not documented_safe(os.path.join(root, w[0])) and body.startswith(lit):
                        body = body[len(lit):]
                        got.append(list(w))
                    else:
                        break
                for m in re.finditer(r"    (%s/[^:\s]+): (bad filename|[A-Za-z_][A-Za-z_0-9.]*)" % re.escape(root), body):
                    got.append([rel(root, m.group(1)), self.ERRCLASS.get(m.group(2), "rewriter")])
            elif msg:
                diffs.append("unexpected final message %r" % msg[:200])
            if got != want:
                diffs.append("final message names: model=%r impl=%r" % (want, got))
        # events: stdout, rewriter calls, echo lines
        exp_out, exp_rw, exp_echo = [], [], []
        for e in r["ev"]:
            if e[0] == "print":
                exp_out.append(text_of[e[1]])
            elif e[0] == "ask":
                pth = os.path.join(root, name_of[e[2]])
                exp_out.append("\n%s [y/N] " % (("Replace %s?" % pth) if e[1] else "Proceed?"))
            elif e[0] == "aborted":
                exp_out.append("Aborted\n")
            elif e[0] == "rewrite":
                exp_rw.append(text_of[e[1]])
            elif e[0] == "exec" and not e[1]:
                exp_echo.append(name_of[e[2]])
        if "".join(exp_out) != obs["out"]:
            diffs.append("stdout: model=%r impl=%r" % ("".join(exp_out)[:300], obs["out"][:300]))
        if exp_rw != obs["rewrites"]:
            diffs.append("rewriter calls: model=%r impl=%r" % ([t[-12:] for t in exp_rw], [str(t)[-12:] for t in obs["rewrites"]]))
        acts, pol, rej = configured(case)
        if "EXECUTE:echo" in acts and "EXECUTE:true" not in acts and not rej:
            got = [rel(root, m.group(1)) for m in re.finditer(r"^(%s/\S+) /\S+$" % re.escape(root), obs.get("fdout_full", obs["fdout"]), re.M)]
            if got != exp_echo and obs["fdout_len"] < 1900:
                diffs.append("external command runs: model=%r impl=%r" % (exp_echo, got))
        return "; ".join(diffs[:4]) if diffs else None

    # -- bookkeeping -----------------------------------------------------------
    def nontrivial_key(self, case, obs):
        if "probe" in obs:
            return "safename-probe"
        if obs["expanded"] or obs["rc"] != 0:
            c = dict(case)
            c.pop("_src", None)
            return repr(sorted(c.items(), key=lambda kv: kv[0]))
        return None

    def sample_repr(self, case, obs):
        if "probe" in obs:
            return dict(probe="safename", names=len(case["names"]), accepted=sum(1 for x in obs["probe"] if x is True))
        return dict(tool=case["tool"], argv=argv_of(case), answers=case.get("answers"),
                    tree={k: (v[0] if v[0] != "link" else v) for k, v in case["tree"].items()},
                    rc=obs["rc"], changed=[n for n in obs["names"] if obs["before"][n][:2] != obs["after"][n][:2]])

    def stats(self, case, obs, acc):
        def inc(k):
            acc[k] = acc.get(k, 0) + 1
        inc("src_" + case.get("_src", "?"))
        if "probe" in obs:
            inc("safename_probe_names_%d" % len(case["names"]))
            return
        inc("tool_" + case["tool"])
        root = obs["root"]
        if any(not documented_safe(os.path.join(root, a)) for a in case["args"]):
            inc("unsafe_argument_name")
        if any(not documented_safe(os.path.join(root, n)) for n in case["tree"] if n not in case["args"]):
            inc("unsafe_name_in_tree")
        if (obs.get("crash") or "").startswith("UnsafeFilenameError"):
            inc("refused_UnsafeFilenameError")
        for w in obs.get("writes", []):
            if w[1]:
                inc("write_failure_" + w[1].split(":")[-1])
        for k in ((case.get("faults") or {}).get("rw") or {}).values():
            inc("rewriter_fault_" + k)
        if case.get("noisy"):
            inc("noisy_" + case["noisy"])
            if obs.get("crash"):
                inc("noisy_and_exception_left_the_tool")
        if (case.get("faults") or {}).get("list"):
            inc("listdir_fault" + ("_fired" if obs.get("listed_fail") else "_not_reached"))
        if any(f["islink"] and f["isdir"] for f in obs["facts"].values()):
            inc("tree_with_symlinked_directory")
        if any(obs["facts"].get(a, {}).get("dirlink") for a in obs["expanded"]):
            inc("file_reached_through_symlinked_directory")
        acts, pol, rej = configured(case)
        inc("policy_" + pol)
        inc("rc_%s" % (obs["rc"] if obs["rc"] in (0, 1, 2) else "other"))
        for a in set(acts):
            inc("act_" + a.split(":")[0])
        inc("n_args_%d" % len(case["args"]))
        inc("n_symlink_opts_%d" % sum(1 for o in case["opts"] if o[0] == "symlinks"))
        if policy_dropped(case):
            inc("policy_dropped_by_later_action_option")
        if any(f["islink"] and f["isfile"] and f.get("real") and not documented_safe(os.path.join(root, f["real"]))
               for n, f in obs["facts"].items() if n in obs["expanded"]):
            inc("symlink_argument_with_refused_real_path")
            inc("symlink_argument_with_refused_real_path_policy_" + pol)
        if obs["msg"] and "UnsafeFilenameError" in obs["msg"]:
            inc("collected_UnsafeFilenameError")
        if any(obs["before"][n][:2] != obs["after"][n][:2] for n in obs["names"]):
            inc("some_file_modified")
        if obs["msg"] and "appears to be a symlink" in obs["msg"]:
            inc("symlink_error_exit")
        if obs["msg"] and "encountered the following problems" in obs["msg"]:
            inc("error_summary")
        for n, f in obs["facts"].items():
            if n in case["args"]:
                inc("arg_" + ("link" if f["islink"] and f["isfile"] else "dangling" if f["islink"] else
                              "file" if f["isfile"] else "dir" if f["isdir"] else "missing"))

    # -- known-finding families --------------------------------------------------
    @staticmethod
    def _fam_d4(case, fl):
        return (fl.get("what") in ("symlink argument replaced under the error/skip policy",
                                   "target of a symlink argument modified under the error/skip policy",
                                   "symlink itself modified under the follow policy")
                and policy_dropped(case))

    @staticmethod
    def _fam_d12(case, fl):
        acts, pol, rej = configured(case)
        if fl.get("what") != "file not processed after a failure on another file":
            return False
        if fl.get("cause") == "symlink-error-exit":
            return pol == "error" and any(v[0] == "link" for v in case["tree"].values())
        if fl.get("cause") == "systemexit-fault":
            # the same root cause (process_actions isolates `Exception` only), reached by the fault hook
            return bool({"SystemExit", "SystemExit0"} & set(((case.get("faults") or {}).get("rw") or {}).values()))
        return False

    EARLY_END = ("an exception escaped the tool", "file not processed after a failure on another file",
                 "failure on a file is not reported by name")

    @staticmethod
    def _fam_c09_2(case, fl):
        # --verbose / PYFLYBY_LOG_LEVEL=DEBUG: the first per-file exception is re-raised out of process_actions
        return bool(case.get("noisy")) and fl.get("cause") == "noisy-failfast" and fl.get("what") in C09.EARLY_END

    @staticmethod
    def _fam_c09_3(case, fl):
        acts, pol, rej = configured(case)
        return (fl.get("what") == "file reached only through a symlinked directory modified under the error/skip policy"
                and pol in ("error", "skip") and any(v[0] == "link" for v in case["tree"].values()))

    @staticmethod
    def _fam_c09_1a(case, fl):
        # an argument name outside Filename's whitelist: UnsafeFilenameError leaves filename_args, the run ends
        return (fl.get("cause") == "unsafe-name-refusal" and fl.get("what") in C09.EARLY_END
                and any(not documented_safe("/w/" + a) for a in case["args"]))

    @staticmethod
    def _fam_c09_1b(case, fl):
        # os.listdir of a directory fails while the argument list is expanded: the OSError ends the run
        return (fl.get("cause") == "listdir-fault" and fl.get("what") in C09.EARLY_END
                and bool((case.get("faults") or {}).get("list")))

    @staticmethod
    def _fam_c09_4(case, fl):
        # sys.exit(0) inside the rewriter: the run ends silently with status 0 (root cause shared with D12c)
        # (errors collected for other files are dropped with it, so their status is 0 too)
        return (fl.get("what") in ("failure on a file but exit status 0", "an error was printed but exit status 0")
                and fl.get("cause") == "systemexit-fault"
                and "SystemExit0" in ((case.get("faults") or {}).get("rw") or {}).values())

    families = {}


C09.families = {"D4": C09._fam_d4, "D12": C09._fam_d12, "C09-2": C09._fam_c09_2, "C09-3": C09._fam_c09_3,
                "C09-1a": C09._fam_c09_1a, "C09-1b": C09._fam_c09_1b, "C09-4": C09._fam_c09_4}

PROP = C09()
