"""C09 — No file is modified without the configured go-ahead."""
from __future__ import annotations

import collections
import io
import itertools
import os
import re
import runpy
import shutil
import stat
import sys
import tempfile

import vcommon
from vcommon import Prop
import gen_c09
from gen_c09 import SHORTCUTS, POLICIES, argv_of, build_tree, content

TOP_FN = {"tidy-imports": "fix_unused_and_missing_imports",
          "reformat-imports": "reformat_import_statements",
          "transform-imports": "transform_imports"}


# ----------------------------------------------------------------------------
# running the real tools in-process
# ----------------------------------------------------------------------------

def _text_of(x):
    for attr in ("joined",):
        if hasattr(x, attr):
            return getattr(x, attr)
    t = getattr(x, "text", None)
    if t is not None and hasattr(t, "joined"):
        return t.joined
    return str(x)


def invoke(tool, argv, stdin_text, cwd):
    """Run $VERIF_REPO/bin/<tool> as __main__ inside this process.

    fd 0 is /dev/null (so os.isatty(0) is False, like a pipe), fd 1/2 go to a temp file (external
    commands write there), Python-level stdin/stdout/stderr are StringIO objects.
    Returns dict(rc, msg, out, err, crash, rewrites, fdout_len).
    """
    script = os.path.join(vcommon.REPO, "bin", tool)
    import pyflyby._imports2s as I
    fn_name = TOP_FN[tool]
    orig_fn = getattr(I, fn_name)
    calls, depth = [], [0]

    def wrapper(*a, **k):
        if depth[0] == 0:
            calls.append(_text_of(a[0]) if a else None)
        depth[0] += 1
        try:
            return orig_fn(*a, **k)
        finally:
            depth[0] -= 1

    saved = (sys.argv, sys.stdin, sys.stdout, sys.stderr, os.getcwd(), dict(os.environ))
    fds = [os.dup(0), os.dup(1), os.dup(2)]
    tmp = tempfile.TemporaryFile()
    devnull = os.open(os.devnull, os.O_RDONLY)
    out, err = io.StringIO(), io.StringIO()
    res = dict(rc=0, msg=None, crash=None)
    try:
        saved[2].flush()
        saved[3].flush()
    except Exception:
        pass
    try:
        setattr(I, fn_name, wrapper)
        os.dup2(devnull, 0)
        os.dup2(tmp.fileno(), 1)
        os.dup2(tmp.fileno(), 2)
        sys.argv = [script] + list(argv)
        sys.stdin = io.StringIO(stdin_text)
        sys.stdout, sys.stderr = out, err
        os.chdir(cwd)
        try:
            runpy.run_path(script, run_name="__main__")
        except SystemExit as e:
            c = e.code
            if c is None:
                res["rc"] = 0
            elif isinstance(c, int):
                res["rc"] = c
            else:
                res["rc"] = 1
                res["msg"] = str(c)
        except BaseException as e:  # an exception other than SystemExit escaped the tool
            res["rc"] = 1
            res["crash"] = type(e).__name__ + ": " + str(e)[:200]
    finally:
        setattr(I, fn_name, orig_fn)
        sys.argv, sys.stdin, sys.stdout, sys.stderr = saved[:4]
        os.dup2(fds[0], 0)
        os.dup2(fds[1], 1)
        os.dup2(fds[2], 2)
        for fd in fds + [devnull]:
            os.close(fd)
        try:
            os.chdir(saved[4])
        except OSError:
            os.chdir("/")
        os.environ.clear()
        os.environ.update(saved[5])
        try:
            from pyflyby._log import logger
            logger.set_level("ERROR")
        except Exception:
            pass
    tmp.seek(0)
    fdout = tmp.read().decode("utf-8", "replace")
    tmp.close()
    res.update(out=out.getvalue(), err=err.getvalue(), rewrites=calls, fdout_len=len(fdout), fdout=fdout[:2000])
    return res


_REF = {}


def ref_rewrite(tool, extra, text, scratch):
    """The tool's rewriter on `text`: what `<tool> file` prints with the default (non-tty) action PRINT;
    None when the tool fails on it.  Memoised per process."""
    key = (tool, tuple(extra), text)
    if key not in _REF:
        d = tempfile.mkdtemp(prefix="ref.", dir=scratch)
        try:
            p = os.path.join(d, "r.py")
            with open(p, "wb") as f:
                f.write(text.encode("utf-8", "surrogateescape"))
            r = invoke(tool, list(extra) + [p], "", d)
            _REF[key] = r["out"] if (r["rc"] == 0 and not r["crash"]) else None
        finally:
            shutil.rmtree(d, ignore_errors=True)
    return _REF[key]


def snap(root, n):
    p = os.path.join(root, n)
    try:
        st = os.lstat(p)
    except (FileNotFoundError, NotADirectoryError):
        return ["absent"]
    if stat.S_ISLNK(st.st_mode):
        return ["link", os.readlink(p)]
    if stat.S_ISDIR(st.st_mode):
        return ["dir"]
    with open(p, "rb") as f:
        data = f.read().decode("utf-8", "surrogateescape")
    return ["file", data, st.st_ino]


def rel(root, p):
    p = os.path.normpath(p)
    if p == root:
        return "."
    if p.startswith(root + "/"):
        return p[len(root) + 1:]
    return "//" + p


def expand_real(root, args):
    """The harness's own reading of 'arguments that are files are always included, directories are
    recursively searched for *.py files' (os.* calls on the real tree, before the tool runs)."""
    out = []

    def walk(d):
        for e in sorted(os.listdir(os.path.join(root, d))):
            if e.startswith(".") or e == "__pycache__":
                continue
            n = d + "/" + e
            p = os.path.join(root, n)
            if os.path.isfile(p):
                if e.endswith(".py"):
                    out.append(n)
            elif os.path.isdir(p):
                walk(n)

    for a in args:
        p = os.path.join(root, a)
        if os.path.isfile(p):
            out.append(a)
        elif os.path.isdir(p):
            walk(a)
    return out


def configured(case):
    """(action names, symlink policy, rejected?) as the command line *documents* them: the last action option
    wins (shortcuts expand to their documented --actions list), the last --symlinks wins, default error;
    without an action option and without ttys the default is PRINT."""
    acts, pol, bad = ["PRINT"], "error", False
    for o in case["opts"]:
        if o[0] == "actions":
            acts = list(o[1])
        elif o[0] == "symlinks":
            if o[1] in POLICIES:
                pol = o[1]
            else:
                bad = True
        else:
            acts = list(SHORTCUTS[o[0]])
    for a in acts:
        if a not in gen_c09.ACTION_NAMES:
            bad = True
    return acts, pol, bad


def policy_dropped(case):
    """D4: an action option follows the last --symlinks option (counting the implicit leading --symlinks=error)."""
    last_sym, last_act = -1, -2
    for i, o in enumerate(case["opts"]):
        if o[0] == "symlinks":
            last_sym = i
        else:
            last_act = i
    return last_act > last_sym


def is_yes(a):
    return a.strip().lower() in ("y", "yes")


def maybe_yes(a):
    return a.strip().lower().startswith("y")


class C09(Prop):
    id = "C09"
    driver = "C09"
    lean_modules = ["Pfb.C09.Props"]
    theorems = [
        "Pfb.C09.C09_safety",
        "Pfb.C09.C09_print_diff_only",
        "Pfb.C09.C09_ifchanged",
        "Pfb.C09.C09_query_no",
        "Pfb.C09.C09_rewriter_failure",
        "Pfb.C09.C09_follow_only_target",
        "Pfb.C09.C09_links_preserved",
        "Pfb.C09.C09_skip_error_untouched_acts",
        "Pfb.C09.C09_skip_error_untouched_partial",
        "Pfb.C09.C09_follow_links_kept_partial",
        "Pfb.C09.C09_isolation_partial",
        "Pfb.C09.C09_rewriter_once",
        "Pfb.C09.parse_fixed_policy",
        "Pfb.C09.C09_skip_error_untouched_fixed",
        "Pfb.C09.C09_links_kept_fixed",
        "Pfb.C09.D4_fixed_witness",
        "Pfb.C09.parse_policy_present",
        "Pfb.C09.policyActionPresent_configured",
        "Pfb.C09.runActions_change",
        "Pfb.C09.D4_witness",
        "Pfb.C09.D4_witness_default",
        "Pfb.C09.D4_witness_follow",
        "Pfb.C09.C09_skip_error_untouched_full_false",
        "Pfb.C09.D12_witness",
        "Pfb.C09.D12_witness_summary",
        "Pfb.C09.C09_isolation_full_false",
    ]
    anchors = [
        ("lib/python/pyflyby/_cmdline.py", "parse_args"),
        ("lib/python/pyflyby/_cmdline.py", "process_actions"),
        ("lib/python/pyflyby/_cmdline.py", "Modifier"),
        ("lib/python/pyflyby/_cmdline.py", "filename_args"),
        ("lib/python/pyflyby/_cmdline.py", "action_print"),
        ("lib/python/pyflyby/_cmdline.py", "action_ifchanged"),
        ("lib/python/pyflyby/_cmdline.py", "action_replace"),
        ("lib/python/pyflyby/_cmdline.py", "action_exit1"),
        ("lib/python/pyflyby/_cmdline.py", "action_external_command"),
        ("lib/python/pyflyby/_cmdline.py", "action_query"),
        ("lib/python/pyflyby/_cmdline.py", "symlink_callback"),
        ("lib/python/pyflyby/_cmdline.py", "symlink_error"),
        ("lib/python/pyflyby/_cmdline.py", "symlink_follow"),
        ("lib/python/pyflyby/_cmdline.py", "symlink_skip"),
        ("lib/python/pyflyby/_cmdline.py", "symlink_replace"),
        ("lib/python/pyflyby/_file.py", "expand_py_files_from_args"),
        ("lib/python/pyflyby/_file.py", "atomic_write_file"),
        ("bin/tidy-imports", None),
        ("bin/reformat-imports", None),
        ("bin/transform-imports", None),
    ]
    quick_cases = 1000
    thorough_cases = 9000
    quick_deadline_s = 70
    thorough_deadline_s = 700
    rule = ("real invocations of bin/tidy-imports | reformat-imports | transform-imports (in-process, __main__) on fresh temp "
            "trees: option lists = shuffles of 0-2 action options (--actions=<1-4 of PRINT/REPLACE/IFCHANGED/QUERY/DIFF/EXIT1/"
            "EXECUTE:true/EXECUTE:echo> or -p/-d/-r/-R/-i) and 0-2 --symlinks options (rarely an invalid value), placed before "
            "or after the files; 1-5 arguments over regular files (changed / unchanged / unparsable / re-rewritable / undecodable / "
            "empty), symlinks (target listed or not, chains), dangling symlinks, missing names, directories (with .py, non-.py, "
            "hidden, __pycache__, nested, symlink children), repeated arguments; 0-6 answers; plus a sampled (quick) / full "
            "(thorough) small scope: every action list of length <= 3 x policy placement x 4 file sequences, every file sequence "
            "of length <= 3 over 7 kinds x 12 configurations x policies.  Non-trivial: at least one file is processed or the exit "
            "status is non-zero; distinct by the whole case")
    trusted_base = ["the rewriter is a parameter of the model; for K its graph on the texts of a case is taken from the real tool "
                    "(`<tool> file`, default PRINT) and closed under re-application",
                    "modelled, not verified: the kernel's path resolution (symlinks followed up to 40 links, realpath), "
                    "atomic_write_file as 'target becomes a new regular file with the output' (its own failure modes are C08), "
                    "optparse's dispatch of callbacks in command-line order",
                    "which set_actions variant the model uses (pinned tree / tree with fixes/C09-D4.diff) is chosen by one probe "
                    "invocation at setup (or VERIF_C09_KEEP); everything else is compared"]
    assumptions = ["DIFF / EXECUTE commands do not touch the argument files (the harness uses pyflyby-diff, true, echo)",
                   "stdin/stdout are not ttys (default action PRINT); --debug/--verbose (documented fail-fast) are not used",
                   "text-mode reading: CRLF files, hard links and symlinked directories are outside the modelled tree shapes",
                   "KeyboardInterrupt at a QUERY prompt (SystemExit(1)) is not modelled"]

    _scratch = None
    _keep = False     # which variant of the model corresponds to the tree: False = pinned (D4 present)

    # -- lifecycle -----------------------------------------------------------
    def setup(self, tier, rng):
        self._scratch = tempfile.mkdtemp(prefix="pfbC09.")
        self._keep = self._probe_keep()

    def _probe_keep(self):
        """One bit decides which `set_actions` the model uses (Model.lean `setActions keep`): does an action
        option keep the symlink policy action (tree with fixes/C09-D4.diff) or drop it (pinned tree)?
        Everything else about the tree is then checked against that variant by K."""
        v = os.environ.get("VERIF_C09_KEEP")
        if v in ("0", "1"):
            return v == "1"
        d = tempfile.mkdtemp(prefix="probe.", dir=self._scratch)
        try:
            build_tree(d, {"t.py": ["file", content("C", 1)], "l.py": ["link", "t.py"]})
            invoke("reformat-imports", ["--symlinks=skip", "--replace", os.path.join(d, "l.py")], "", d)
            return os.path.islink(os.path.join(d, "l.py"))
        finally:
            shutil.rmtree(d, ignore_errors=True)

    def teardown(self):
        if self._scratch:
            shutil.rmtree(self._scratch, ignore_errors=True)
            self._scratch = None

    def _scratch_dir(self):
        if self._scratch and os.path.isdir(self._scratch):
            return self._scratch, False
        return tempfile.mkdtemp(prefix="pfbC09."), True

    # -- cases ---------------------------------------------------------------
    def gen_case(self, rng, i, tier):
        return gen_c09.gen_case(rng)

    SEQS = [["LC", "C", "X", "U"], ["X", "M", "C", "LU"], ["D", "G", "C"], ["C", "LC", "C"]]
    CONFIGS = [["replace"], ["interactive"], ["diff-replace"], ["print"], ["actions", ["REPLACE"]],
               ["actions", ["QUERY", "REPLACE"]], ["actions", ["REPLACE", "EXIT1"]], ["actions", ["EXIT1", "REPLACE"]],
               ["actions", ["PRINT", "IFCHANGED", "REPLACE"]], ["actions", ["IFCHANGED", "QUERY", "REPLACE", "PRINT"]],
               ["actions", ["EXECUTE:echo", "REPLACE"]], None]

    def exhaustive_cases(self, tier, rng):
        """Small scope, exhaustively (thorough) or sampled (quick):
        (A) every action list of length <= 3 over {PRINT, REPLACE, IFCHANGED, QUERY, DIFF|EXECUTE, EXIT1}
            x {no --symlinks, --symlinks=p before, --symlinks=p after the action option} x 4 fixed file sequences
            x 2 answer patterns (one sequence / pattern per configuration, rotating; all of them in thorough);
        (B) every file sequence of length <= 3 over {changed, unchanged, unparsable, symlink, dangling, missing,
            directory} x 12 configurations x {policy after the action option} (one policy per case, rotating)."""
        base = ["PRINT", "REPLACE", "IFCHANGED", "QUERY", "X", "EXIT1"]
        lists = []
        for n in (1, 2, 3):
            lists.extend(itertools.product(base, repeat=n))
        ext = ["DIFF", "EXECUTE:true", "EXECUTE:echo"]
        placements = [None] + [(p, w) for p in POLICIES for w in ("before", "after")]
        answer_pats = [["y"] * 8, ["n", "y", "", "yes", "y", "y"]]
        A = []
        idx = 0
        for al in lists:
            for pl in placements:
                idx += 1
                acts = [ext[(idx + j) % 3] if a == "X" else a for j, a in enumerate(al)]
                opts = [["actions", acts]]
                if pl:
                    opts = ([["symlinks", pl[0]]] + opts) if pl[1] == "before" else (opts + [["symlinks", pl[0]]])
                combos = [(s, a) for s in range(len(self.SEQS)) for a in range(2)] if tier == "thorough" \
                    else [(idx % len(self.SEQS), (idx // 4) % 2)]
                for si, ai in combos:
                    tool, extra = gen_c09.TOOLS[idx % 3] if si == 0 else gen_c09.TOOLS[0]
                    tree, args = gen_c09.tree_of_kinds(self.SEQS[si], tool)
                    A.append(dict(tool=tool, extra=list(extra), opts=opts, tree=tree, args=args,
                                  answers=answer_pats[ai], after=0))
        B = []
        kinds = ["C", "U", "X", "LC", "G", "M", "D"]
        idx = 0
        for n in (1, 2, 3):
            for seq in itertools.product(kinds, repeat=n):
                for cfg in self.CONFIGS:
                    idx += 1
                    pols = POLICIES + [None] if tier == "thorough" else [(POLICIES + [None])[idx % 5]]
                    for pol in pols:
                        opts = [cfg] if cfg else []
                        if pol:
                            opts = opts + [["symlinks", pol]]
                        tree, args = gen_c09.tree_of_kinds(list(seq), "tidy-imports")
                        B.append(dict(tool="tidy-imports", extra=[], opts=opts, tree=tree, args=args,
                                      answers=["y", "n", "y", "y"], after=idx % 2))
        if tier == "thorough":
            return A + B
        return rng.sample(A, 90) + rng.sample(B, 90)

    # -- implementation ------------------------------------------------------
    def run_impl(self, case):
        scratch, own = self._scratch_dir()
        base = tempfile.mkdtemp(prefix="case.", dir=scratch)
        try:
            root = os.path.realpath(os.path.join(base, "w"))
            os.mkdir(root)
            tree, args = case["tree"], case["args"]
            build_tree(root, tree)
            names = set(tree) | set(args)
            facts = {}
            for n in sorted(names):
                p = os.path.join(root, n)
                facts[n] = dict(islink=os.path.islink(p), isfile=os.path.isfile(p), isdir=os.path.isdir(p),
                                real=rel(root, os.path.realpath(p)) if os.path.exists(p) else None)
            for n in list(facts):
                r = facts[n]["real"]
                if r and r not in names:
                    names.add(r)
            names = sorted(names)
            expanded = expand_real(root, args)
            before = {n: snap(root, n) for n in names}
            # the rewriter's graph on every content that can occur (closed under re-application)
            ref = {}
            todo = [v[1] for v in before.values() if v[0] == "file"]
            depth = 0
            while todo and depth < 9:
                nxt = []
                for t in todo:
                    if t in ref:
                        continue
                    o = ref_rewrite(case["tool"], case.get("extra", []), t, scratch)
                    ref[t] = o
                    if o is not None and o not in ref:
                        nxt.append(o)
                todo, depth = nxt, depth + 1
            argv = [a if a.startswith("-") else os.path.join(root, a) for a in argv_of(case)]
            stdin_text = "".join(a + "\n" for a in case.get("answers", []))
            # keep every original inode allocated during the run, so that a re-created file can never get the
            # number of the inode it replaced (observed with two REPLACEs of one file)
            pins = []
            for n in names:
                if before[n][0] == "file":
                    pins.append(os.open(os.path.join(root, n), os.O_RDONLY))
            try:
                r = invoke(case["tool"], argv, stdin_text, root)
                after = {n: snap(root, n) for n in names}
            finally:
                for fd in pins:
                    os.close(fd)
            listing = []
            for dp, dns, fns in os.walk(root):
                for f in fns + dns:
                    listing.append(rel(root, os.path.join(dp, f)))
            stray = sorted(set(listing) - set(names))
            obs = dict(root=root, names=names, facts=facts, expanded=expanded, before=before, after=after,
                       ref=[[k, v] for k, v in sorted(ref.items(), key=lambda kv: kv[0])], stray=stray,
                       rc=r["rc"], msg=r["msg"], crash=r["crash"], out=r["out"], err=r["err"],
                       rewrites=r["rewrites"], fdout_len=r["fdout_len"], fdout=r["fdout"][:2000])
            return obs
        finally:
            shutil.rmtree(base, ignore_errors=True)
            if own:
                shutil.rmtree(scratch, ignore_errors=True)

    # -- oracle --------------------------------------------------------------
    def oracle(self, case, obs):
        fails = []
        acts, policy, rejected = configured(case)
        before, after, facts, E = obs["before"], obs["after"], obs["facts"], obs["expanded"]
        ref = dict((k, v) for k, v in obs["ref"])
        root = obs["root"]
        errtext = (obs["err"] or "") + (obs["msg"] or "")
        ctx = dict(tool=case["tool"], argv=argv_of(case), answers=case.get("answers", []), policy=policy, actions=acts)

        def content_of(n):
            b = before.get(n)
            if b and b[0] == "file":
                return b[1]
            r = facts.get(n, {}).get("real")
            if r and before.get(r, [""])[0] == "file":
                return before[r][1]
            return None

        def F(what, **kw):
            d = dict(what=what)
            d.update(ctx)
            d.update(kw)
            fails.append(d)

        if obs.get("crash"):
            # an exception other than SystemExit left the tool: a failure that is not collected and reported
            F("an exception escaped the tool", crash=obs["crash"])

        # ---- who may be written ---------------------------------------------
        auth = collections.defaultdict(list)
        link_args = [a for a in E if facts[a]["islink"]]
        for a in E:
            if facts[a]["islink"]:
                t = facts[a]["real"] if policy == "follow" else (a if policy == "replace" else None)
            else:
                t = a
            if t:
                auth[t].append(a)

        def changed(n):
            b, a = before[n], after[n]
            return b[:2] != a[:2]

        ch = [n for n in obs["names"] if changed(n)]
        k0 = acts.index("REPLACE") if "REPLACE" in acts else None
        pre = acts[:k0] if k0 is not None else []
        for n in ch:
            if rejected:
                F("file modified although the command line was rejected", name=n)
                continue
            if k0 is None:
                F("file modified although the configured action list has no REPLACE", name=n)
                continue
            if n not in auth:
                if facts.get(n, {}).get("islink") and n in E and policy in ("error", "skip"):
                    F("symlink argument replaced under the error/skip policy", name=n)
                elif any(facts[l]["real"] == n for l in link_args) and policy in ("error", "skip"):
                    F("target of a symlink argument modified under the error/skip policy", name=n)
                elif facts.get(n, {}).get("islink") and policy == "follow":
                    F("symlink itself modified under the follow policy", name=n)
                else:
                    F("a file that no argument designates was modified", name=n)
                continue
            old = content_of(n)
            if after[n][0] != "file":
                F("write target is not a regular file afterwards", name=n, after=after[n][:2])
                continue
            new = after[n][1]
            outs, cur = [], old
            real_n = facts.get(n, {}).get("real")
            depth = len(auth[n]) + (len(auth.get(real_n, [])) if real_n and real_n != n else 0)
            for _ in range(depth):
                cur = ref.get(cur) if cur is not None else None
                if cur is None:
                    break
                outs.append(cur)
            if new not in outs:
                if old is not None and ref.get(old) is None:
                    F("file modified although the rewriter fails on it", name=n)
                else:
                    F("written bytes are not the rewriter's output", name=n, new=new[:200], want=outs[:2])
            if "EXIT1" in pre:
                F("file modified although EXIT1 is configured ahead of REPLACE", name=n)
            if "IFCHANGED" in pre and old is not None and ref.get(old) == old:
                F("file replaced although its output is unchanged and IFCHANGED is configured ahead of REPLACE", name=n)
        nq = pre.count("QUERY")
        if nq and ch and not rejected:
            yes = sum(1 for a in case.get("answers", []) if maybe_yes(a))
            if len(ch) * nq > yes:
                F("more files modified than QUERY prompts were answered yes", modified=ch, yes=yes, queries_per_file=nq)
        if "REPLACE" not in acts or rejected:
            for n in obs["names"]:
                if before[n][0] == "file" and after[n][0] == "file" and before[n][2] != after[n][2]:
                    F("file re-created (inode changed) although the configured action list has no REPLACE", name=n)

        # ---- failures are reported and do not stop the other files ------------
        failures = []
        for a in case["args"]:
            if not facts[a]["isfile"] and not facts[a]["isdir"]:
                failures.append((a, "bad filename"))
        rew = set(t for t in obs["rewrites"] if t is not None)
        # a rewriter failure is *observed* (the rewriter was called on a text it fails on); the files holding that
        # text (a symlink and its target share it) are the candidates, one of which must be named
        shared = []
        for c in sorted(rew):
            if ref.get(c, "") is None:
                cands = [a for a in E if content_of(a) == c]
                if len(cands) == 1:
                    failures.append((cands[0], "rewriter failure"))
                elif cands:
                    shared.append(cands)
        sym_exit = bool(obs["msg"]) and "appears to be a symlink" in obs["msg"]
        if sym_exit:
            for a in link_args:
                if os.path.join(root, a) in obs["msg"]:
                    failures.append((a, "symlink under the error policy"))
        generic = ("EOFError" in errtext) or ("UnicodeDecodeError" in errtext)
        if rejected:
            if obs["rc"] == 0:
                F("rejected command line but exit status 0")
        else:
            for a, why in failures:
                if obs["rc"] == 0:
                    F("failure on a file but exit status 0", name=a, why=why)
                p = os.path.join(root, a)
                if p not in errtext:
                    F("failure on a file is not reported by name", name=a, why=why, stderr=errtext[-300:])
            for cands in shared:
                if obs["rc"] == 0:
                    F("failure on a file but exit status 0", name=cands, why="rewriter failure")
                if not any(os.path.join(root, a) in errtext for a in cands):
                    F("failure on a file is not reported by name", name=cands, why="rewriter failure", stderr=errtext[-300:])
            if generic and obs["rc"] == 0:
                F("an error was printed but exit status 0", stderr=errtext[-300:])
            if (failures or shared or generic) and (k0 is not None or "PRINT" in acts):
                passive = {"PRINT", "IFCHANGED", "DIFF", "EXECUTE:true", "EXECUTE:echo"}
                simple = k0 is not None and set(pre) <= passive
                kp = acts.index("PRINT") if "PRINT" in acts else None
                printable = kp is not None and set(acts[:kp]) <= (passive | {"REPLACE"})
                cnt = collections.Counter(E)
                ccnt = collections.Counter(content_of(a) for a in E)
                targets = set(facts[l]["real"] for l in link_args)
                for j in E:
                    if facts[j]["islink"] or cnt[j] != 1 or j in targets:
                        continue
                    c = content_of(j)
                    if c is None or ccnt[c] != 1:
                        continue
                    o = ref.get(c)
                    if o is None:
                        continue
                    cause = "symlink-error-exit" if sym_exit else "other"
                    if simple and o != c and after[j][:2] != ["file", o]:
                        F("file not processed after a failure on another file", name=j, cause=cause,
                          failed=[f[0] for f in failures], expected="replaced by the rewriter's output")
                    elif printable and (o != c or "IFCHANGED" not in acts[:kp]) and o and o not in obs["out"]:
                        F("file not processed after a failure on another file", name=j, cause=cause,
                          failed=[f[0] for f in failures], expected="printed")
        return fails[:6]

    # -- model -----------------------------------------------------------------
    def _numbering(self, case, obs):
        tree = case["tree"]
        names = set(obs["names"])
        ltarget = {}
        for n, node in tree.items():
            if node[0] == "link":
                t = os.path.normpath(os.path.join(os.path.dirname(n), node[1]))
                ltarget[n] = t
                names.add(t)
        names = sorted(names)
        pid = {n: i + 1 for i, n in enumerate(names)}
        texts = set()
        for k, v in obs["ref"]:
            texts.add(k)
            if v is not None:
                texts.add(v)
        for n, node in tree.items():
            if node[0] == "file":
                texts.add(node[1])
        cid = {t: i + 1 for i, t in enumerate(sorted(texts))}
        return names, pid, cid, ltarget

    def model_requests(self, case, obs):
        tree = case["tree"]
        names, pid, cid, ltarget = self._numbering(case, obs)
        fs = []
        for n in names:
            node = tree.get(n)
            if node is None:
                continue
            if node[0] == "file":
                fs.append([pid[n], ["file", cid[node[1]]]])
            elif node[0] == "link":
                fs.append([pid[n], ["link", pid[ltarget[n]]]])
            else:
                kids = sorted(k for k in tree if os.path.dirname(k) == n)
                kids.sort(key=lambda k: os.path.basename(k))
                ents = []
                for k in kids:
                    b = os.path.basename(k)
                    ents.append([pid[k], not (b.startswith(".") or b == "__pycache__"), os.path.splitext(b)[1] == ".py"])
                fs.append([pid[n], ["dir", ents]])
        opts = []
        for o in case["opts"]:
            if o[0] == "symlinks":
                opts.append(["symlinks", o[1] if o[1] in POLICIES else None])
            elif o[0] == "actions":
                if all(a in gen_c09.ACTION_NAMES for a in o[1]):
                    opts.append(["actions", list(o[1])])
                else:
                    opts.append(["actionsBad"])
            else:
                opts.append([o[0]])
        rw = [[cid[k], (cid[v] if v is not None else None)] for k, v in obs["ref"]]
        unreadable = []
        for t, i in cid.items():
            try:
                t.encode("utf-8")
            except UnicodeEncodeError:
                unreadable.append(i)
        return [dict(op="main", tty=False, keep=bool(self._keep), opts=opts, fs=fs, rw=rw, unreadable=unreadable, args=[pid[a] for a in case["args"]],
                     answers=list(case.get("answers", [])), paths=[pid[n] for n in names])]

    ERRCLASS = {"bad filename": "bad", "EOFError": "eof", "FileNotFoundError": "io", "IsADirectoryError": "io",
                "OSError": "io", "PermissionError": "io", "NotADirectoryError": "io", "UnicodeDecodeError": "io"}

    def compare(self, case, obs, resps):
        r = resps[0]
        names, pid, cid, ltarget = self._numbering(case, obs)
        name_of = {v: k for k, v in pid.items()}
        text_of = {v: k for k, v in cid.items()}
        root = obs["root"]
        before, after = obs["before"], obs["after"]
        diffs = []
        if "err" in r["parse"]:
            if r["parse"]["err"] == "optionValueError":
                if obs["rc"] != 2:
                    diffs.append("model: option value error (exit 2); impl rc=%r" % obs["rc"])
            else:
                if not obs["crash"]:
                    diffs.append("model: exception while parsing options; impl rc=%r msg=%r" % (obs["rc"], obs["msg"]))
        elif obs["crash"]:
            diffs.append("impl crashed: %s" % obs["crash"])
        # file system
        for p, node in r["fs"]:
            n = name_of[p]
            a = after.get(n, ["absent"])
            if node[0] == "file":
                ok = (a[0] == "file" and a[1] == text_of[node[1]]
                      and ((before.get(n, [""])[0] == "file" and before[n][2] == a[2]) == node[2]))
            elif node[0] == "link":
                ok = a[0] == "link" and os.path.normpath(os.path.join(os.path.dirname(n), a[1])) == name_of[node[1]]
            else:
                ok = a[0] == node[0]
            if not ok:
                diffs.append("node %s: model=%r impl=%r" % (n, node, [x if not isinstance(x, str) else x[:60] for x in a]))
        if obs["stray"]:
            diffs.append("files left behind: %r" % (obs["stray"],))
        if r["status"] != obs["rc"]:
            diffs.append("exit status: model=%r impl=%r" % (r["status"], obs["rc"]))
        # final message
        msg = obs["msg"] or ""
        if r["sysexit"] is not None:
            want = "Error: %s appears to be a symlink" % os.path.join(root, name_of[r["sysexit"]])
            if want not in msg:
                diffs.append("model: SystemExit from symlink_error naming %s; impl msg=%r" % (name_of[r["sysexit"]], msg[:200]))
        else:
            got = []
            if "encountered the following problems" in msg:
                for m in re.finditer(r"    (%s/[^:\s]+): (bad filename|[A-Za-z_][A-Za-z_0-9.]*)" % re.escape(root), msg):
                    got.append([rel(root, m.group(1)), self.ERRCLASS.get(m.group(2), "rewriter")])
            elif msg:
                diffs.append("unexpected final message %r" % msg[:200])
            want = [[name_of[p], k] for p, k in r["summary"]]
            if got != want:
                diffs.append("final message names: model=%r impl=%r" % (want, got))
        # events: stdout, rewriter calls, echo lines
        exp_out, exp_rw, exp_echo = [], [], []
        for e in r["ev"]:
            if e[0] == "print":
                exp_out.append(text_of[e[1]])
            elif e[0] == "ask":
                pth = os.path.join(root, name_of[e[2]])
                exp_out.append("\n%s [y/N] " % (("Replace %s?" % pth) if e[1] else "Proceed?"))
            elif e[0] == "aborted":
                exp_out.append("Aborted\n")
            elif e[0] == "rewrite":
                exp_rw.append(text_of[e[1]])
            elif e[0] == "exec" and not e[1]:
                exp_echo.append(name_of[e[2]])
        if "".join(exp_out) != obs["out"]:
            diffs.append("stdout: model=%r impl=%r" % ("".join(exp_out)[:300], obs["out"][:300]))
        if exp_rw != obs["rewrites"]:
            diffs.append("rewriter calls: model=%r impl=%r" % ([t[-12:] for t in exp_rw], [str(t)[-12:] for t in obs["rewrites"]]))
        acts, pol, rej = configured(case)
        if "EXECUTE:echo" in acts and "EXECUTE:true" not in acts and not rej:
            got = [rel(root, m.group(1)) for m in re.finditer(r"^(%s/\S+) /\S+$" % re.escape(root), obs.get("fdout_full", obs["fdout"]), re.M)]
            if got != exp_echo and obs["fdout_len"] < 1900:
                diffs.append("external command runs: model=%r impl=%r" % (exp_echo, got))
        return "; ".join(diffs[:4]) if diffs else None

    # -- bookkeeping -----------------------------------------------------------
    def nontrivial_key(self, case, obs):
        if obs["expanded"] or obs["rc"] != 0:
            c = dict(case)
            c.pop("_src", None)
            return repr(sorted(c.items(), key=lambda kv: kv[0]))
        return None

    def sample_repr(self, case, obs):
        return dict(tool=case["tool"], argv=argv_of(case), answers=case.get("answers"),
                    tree={k: (v[0] if v[0] != "link" else v) for k, v in case["tree"].items()},
                    rc=obs["rc"], changed=[n for n in obs["names"] if obs["before"][n][:2] != obs["after"][n][:2]])

    def stats(self, case, obs, acc):
        def inc(k):
            acc[k] = acc.get(k, 0) + 1
        inc("src_" + case.get("_src", "?"))
        inc("tool_" + case["tool"])
        acts, pol, rej = configured(case)
        inc("policy_" + pol)
        inc("rc_%s" % (obs["rc"] if obs["rc"] in (0, 1, 2) else "other"))
        for a in set(acts):
            inc("act_" + a.split(":")[0])
        inc("n_args_%d" % len(case["args"]))
        inc("n_symlink_opts_%d" % sum(1 for o in case["opts"] if o[0] == "symlinks"))
        if policy_dropped(case):
            inc("policy_dropped_by_later_action_option")
        if any(obs["before"][n][:2] != obs["after"][n][:2] for n in obs["names"]):
            inc("some_file_modified")
        if obs["msg"] and "appears to be a symlink" in obs["msg"]:
            inc("symlink_error_exit")
        if obs["msg"] and "encountered the following problems" in obs["msg"]:
            inc("error_summary")
        for n, f in obs["facts"].items():
            if n in case["args"]:
                inc("arg_" + ("link" if f["islink"] and f["isfile"] else "dangling" if f["islink"] else
                              "file" if f["isfile"] else "dir" if f["isdir"] else "missing"))

    # -- known-finding families --------------------------------------------------
    @staticmethod
    def _fam_d4(case, fl):
        return (fl.get("what") in ("symlink argument replaced under the error/skip policy",
                                   "target of a symlink argument modified under the error/skip policy",
                                   "symlink itself modified under the follow policy")
                and policy_dropped(case))

    @staticmethod
    def _fam_d12(case, fl):
        acts, pol, rej = configured(case)
        return (fl.get("what") == "file not processed after a failure on another file"
                and fl.get("cause") == "symlink-error-exit" and pol == "error"
                and any(v[0] == "link" for v in case["tree"].values()))

    families = {}


C09.families = {"D4": C09._fam_d4, "D12": C09._fam_d12}

PROP = C09()
