"""
Development aid (not a registered command):
  /venv/bin/python harness/covgap.py Cxx [n_cases] [--files f1,f2] [--all]
Runs the property's corpus + exhaustive + generated quick-tier cases through run_impl/oracle (the real pyflyby) with
line monitoring (sys.monitoring, CPython 3.12) on /repo/lib/python/pyflyby and prints, per function of the anchored
files, the executable lines that NO case reached.  Lines the correspondence never executes are where a change of the
code cannot be seen by K or O: the output is used to aim the generators (DESIGN.md section 11).
"""
import importlib, json, multiprocessing, os, random, sys, types
HERE = os.path.dirname(os.path.abspath(__file__))
sys.path.insert(0, HERE)
import vcommon

HITS = set()
_PROP = None
_ON = False


def _enable(prefix):
    global _ON
    if _ON:
        return
    _ON = True
    mon = sys.monitoring
    tool = mon.COVERAGE_ID
    try:
        mon.use_tool_id(tool, "covgap")
    except ValueError:
        pass

    def line_cb(code, line):
        fn = code.co_filename
        if fn.startswith(prefix):
            HITS.add((fn, line))
        return mon.DISABLE
    mon.register_callback(tool, mon.events.LINE, line_cb)
    mon.set_events(tool, mon.events.LINE)


def _chunk(cases):
    _enable(_PREFIX)
    before = set(HITS)
    errs = 0
    for c in cases:
        try:
            obs = _PROP.run_impl(c)
            _PROP.oracle(c, obs)
        except Exception:
            errs += 1
    return list(HITS - before), errs


def code_objects(co):
    yield co
    for k in co.co_consts:
        if isinstance(k, types.CodeType):
            yield from code_objects(k)


def main():
    global _PROP, _PREFIX
    pid = sys.argv[1]
    n = int(sys.argv[2]) if len(sys.argv) > 2 and sys.argv[2].isdigit() else None
    show_all = "--all" in sys.argv
    files = None
    for a in sys.argv:
        if a.startswith("--files="):
            files = a.split("=", 1)[1].split(",")
    vcommon.setup_repo_path()
    prop = importlib.import_module(pid.lower()).PROP
    _PROP = prop
    _PREFIX = os.path.join(os.path.realpath(vcommon.REPO), "lib", "python", "pyflyby")
    rng = random.Random("0:" + pid)
    prop.setup("quick", rng)
    try:
        cases = [dict(c, _src="corpus") for c in vcommon.load_corpus(pid)]
        cases += [dict(c, _src="exhaustive") for c in prop.exhaustive_cases("quick", rng)]
        for i in range(n or prop.quick_cases):
            c = prop.gen_case(rng, i, "quick")
            if c is not None:
                cases.append(dict(c, _src="gen"))
        errs = 0
        if prop.parallel:
            ctx = multiprocessing.get_context("fork")
            chunks = [cases[i:i + 40] for i in range(0, len(cases), 40)]
            with ctx.Pool(16) as pool:
                for h, e in pool.imap_unordered(_chunk, chunks):
                    HITS.update(map(tuple, h))
                    errs += e
        else:
            h, errs = _chunk(cases)
    finally:
        prop.teardown()
    print("cases:", len(cases), "harness exceptions:", errs, "lines hit:", len(HITS))
    anchored = {}
    for f, q in prop.anchors:
        anchored.setdefault(f, set())
        if q is None:
            anchored[f] = None
        elif anchored[f] is not None:
            anchored[f].add(q)
    target_files = files or sorted(anchored)
    for rel in target_files:
        path = os.path.join(os.path.realpath(vcommon.REPO), rel) if not os.path.isabs(rel) else rel
        if not os.path.exists(path):
            path = os.path.join(_PREFIX, os.path.basename(rel))
        src = open(path).read()
        co = compile(src, path, "exec")
        srclines = src.splitlines()
        tot = miss = 0
        rows = []
        for c in code_objects(co):
            if c.co_name == "<module>" or not (c.co_flags & 0x2):   # module and class bodies run at import time
                continue
            q = c.co_qualname
            if not show_all and files is None and anchored.get(rel) is not None and not any(
                    q == a or q.startswith(a + ".") or a.startswith(q + ".") for a in anchored[rel]):
                continue
            lines = sorted({l for (_, _, l) in c.co_lines() if l is not None and l != c.co_firstlineno})
            # nested code objects are reported on their own
            inner = set()
            for k in c.co_consts:
                if isinstance(k, types.CodeType):
                    inner |= {l for cc in code_objects(k) for (_, _, l) in cc.co_lines() if l}
            lines = [l for l in lines if l not in inner]
            un = [l for l in lines if (path, l) not in HITS]
            tot += len(lines)
            miss += len(un)
            if un:
                rows.append((q, len(lines), un))
        print(f"== {rel}: {tot - miss}/{tot} executable lines of the reported functions reached")
        for q, nl, un in rows:
            print(f"  {q}: {len(un)}/{nl} not reached")
            for l in un:
                print(f"      {l}: {srclines[l - 1].strip()[:110]}")


if __name__ == "__main__":
    main()
