"""python harness/run_all.py [quick|thorough] [seed] — run every registered check, print one line each."""
import json, os, subprocess, sys, time
VERIF = os.path.dirname(os.path.dirname(os.path.abspath(__file__)))
tier = sys.argv[1] if len(sys.argv) > 1 else "quick"
seed = sys.argv[2] if len(sys.argv) > 2 else "1"
man = json.load(open(os.path.join(VERIF, "MANIFEST.json")))
bad = 0
for c in man["checks"]:
    cmd = c["quick_cmd"] if tier == "quick" else c["thorough_cmd"]
    t0 = time.time()
    p = subprocess.run(cmd, shell=True, cwd=VERIF, env=dict(os.environ, VERIF_SEED=seed), stdout=subprocess.PIPE,
                       stderr=subprocess.STDOUT, text=True)
    last = [l for l in p.stdout.splitlines() if l.startswith(c["property_id"] + " tier=")]
    vio = [l for l in p.stdout.splitlines() if l.startswith("VIOLATION")]
    print(c["property_id"], "rc=%d" % p.returncode, "%.0fs" % (time.time() - t0), (last[-1] if last else p.stdout[-200:]), *vio[:1], flush=True)
    bad += p.returncode != 0
print("checks with non-zero exit:", bad)
