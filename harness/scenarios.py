"""
Scenario snippets: the layouts on which past defects of the rewriters manifested (DESIGN.md section 6).
A generated case embeds one with some probability, so that a regression of such a family is met by every run
and not only by luck.  Each returns (snippet, known-import statements to add to the database, mandatory imports).
"""


def two_dotted_uses(rng):
    n, m = rng.choice([("np", "import numpy as np"), ("os", "import os"), ("foo", "import foo"), ("Zq", "from Zmod import Zq")])
    a, b = rng.sample(["zeros", "array", "aa", "path", "sep", "Beta"], 2)
    if a < b:
        a, b = b, a          # the alphabetically later attribute comes first in the file
    return ("x1 = 1\nprint(%s.%s)\nimport sys\nprint(%s.%s, sys)\n" % (n, a, n, b), [m], [])


def import_after_use_same_line(rng):
    n, m = rng.choice([("foo", "import foo"), ("np", "import numpy as np")])
    return ("y1 = %s() ; from typing import %s\n# c\n" % (n, rng.choice(["*", "Any"])), [m], [])


def midline_unused(rng):
    return (rng.choice(["x2 = 1; import os\nif x2:\n    pass\n", "x2 = 1; import os\n@dec\ndef f(): pass\n",
                        "import os\nx2 = 1; import sys\n",
                        "z2 = 1; from sys import f, g as foo\nfrom json import path ; b2 = 2\n"]), [], [])


def future_and_caps(rng):
    mods = rng.sample(["PIL", "Crypto", "IPython", "Zmod", "A", "os", "_private"], 2)
    return ("from __future__ import %s\nimport %s\nfrom %s import Thing\nprint(%s, Thing)\n"
            % (rng.choice(["annotations", "division"]), mods[0], mods[1], mods[0].split(".")[0]), [], [])


def late_rebinding(rng):
    return ("def fdef():\n    return sys\nprint(sys)\nimport sys\n", ["import sys"], [])


def dotted_prefix_use(rng):
    return (rng.choice(["import os.path\nprint(os.sep)\n", "import a9\nimport a9.b\nprint(a9.c)\n"]), [], [])


def del_then_use(rng):
    return ("import x9\ndel x9\nx9\n", ["import x9"], [])


def header_doc(rng):
    head = rng.choice(["#!/usr/bin/env python\n", "# licence\n# text\n\n", ""])
    doc = rng.choice(['"""Doc."""\n', "'''Multi\nline.\n'''\n", '"""D1"""\n"""second string"""\n', "b'bytes first'\n"])
    return (head + doc + "print(missing_mod.x)\n", ["import missing_mod"],
            rng.choice([[], ["from __future__ import annotations"]]))


def doctest_import(rng):
    return ('from m1 import twice\n\n\ndef quadruple(x):\n    """\n    >>> from m1 import twice\n    >>> twice(2)\n    4\n    """\n'
            '    return twice(twice(x))\n', [], [])


def shadowing_param(rng):
    return ("from pa import f\ndef label(f):\n    return f\ndef call():\n    return f()\nfrom pb import f\nprint(call())\n", [], [])


def lambda_then_late_import(rng):
    inner = rng.choice(["    key = lambda v: v\n", "    def key(v):\n        return v\n"])
    return ("import os\ndef compute(vs):\n" + inner + "    return [late9.scale(key(v), os.sep) for v in vs]\nimport late9\n",
            ["import late9"], [])


def bad_doctest(rng):
    return ('def fdoc():\n    """\n    >>> print "py2"\n    >>> g(<data>)\n    >>> import os\n    >>> os.sep\n    """\n    return 1\n',
            [], [])


def del_then_use_other_import(rng):
    # the deleted name is known to the database under another import: adding it next to the file's own import of
    # the same name is refused (ConflictingImportsError) — a deliberate refusal
    return (rng.choice(["from foo9 import y9; del y9; print(y9)\n", "from foo9 import y9\ndel y9\nprint(y9)\n"]), ["import y9"], [])


def type_comment_lookalikes(rng):
    return (rng.choice(["import os\nprint(os.sep)  # type: int\n", "import os\nx = os.sep # type: str\nprint(1)  # type: (int) -> str\n",
                        "import os\ns = \'\'\'\n# type: x\n\'\'\'\nx = [os]  # type: List[int]\n", "x = (  # type: int\n 1)\nimport sys\n",
                        "def f(a,  # type: int\n      b):\n    # type: (...) -> None\n    pass\nimport os\n"]), [], [])


def multiline_decorator(rng):
    return (rng.choice(["import os\n@(\n  deco9\n)\ndef f(): pass\n", "import os\n@dec9\n@(\n  # c @x\n  deco9\n)\nclass A: pass\n",
                        "import os\nif 1:\n    @(\n      deco9)\n    def f(): pass\nimport sys\n@ (\n\n deco9 @ 1)\nasync def g(): pass\n"]), [], [])


def typecomment_first_use(rng):
    # a name used only in a type comment is reported with a comment-relative line number (1): no existing block may
    # take its import, and the new block must still not land in front of a `__future__` import
    head = rng.choice(["", '"""doc"""\n', "# c\n\n"])
    return (head + "from __future__ import annotations\n" + rng.choice(["", "import os\nprint(os)\n"])
            + rng.choice(["def ftc(a):\n    # type: (tcname9) -> None\n    pass\n", "for xtc in []:  # type: tcname9\n    pass\n",
                          "for xtc in []:  # type: not valid here\n    pass\nprint(tcname9)\n"]),
            ["from tcpkg import tcname9"], [])


def import_future_module(rng):
    # `import __future__` is an ordinary import that may follow code: a mandatory `from __future__` import must not
    # join its block
    return (rng.choice(["x9 = 1\nimport __future__\nprint(__future__)\n", "x9 = 1\nimport __future__ as F9\nprint(F9)\n",
                        "from __future__ import division\nx9 = 1\nimport __future__\nprint(__future__)\n"]),
            [], ["from __future__ import annotations"])


SCENARIOS = [two_dotted_uses, import_after_use_same_line, midline_unused, future_and_caps, late_rebinding,
             dotted_prefix_use, del_then_use, header_doc, doctest_import, shadowing_param,
             lambda_then_late_import, bad_doctest, del_then_use_other_import, type_comment_lookalikes,
             multiline_decorator, typecomment_first_use, import_future_module]
