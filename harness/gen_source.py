"""
gen_source — generator of compilable Python module texts with hostile layout
(comments in every position, blank runs, form feeds, semicolons, backslash
continuations, decorators, multi-line strings and f-strings, missing final
newline, non-ASCII).  Every random choice comes from the `rng` passed in.

`gen_module(rng, ...)` returns (text, info); texts that do not compile are
re-drawn (bounded), so callers can rely on `compile(text)` succeeding.
"""
from __future__ import annotations

import os
import ast

NAMES = ["x", "y", "z", "foo", "bar", "os", "sys", "a", "b", "é", "data", "_p"]
MODS = ["os", "sys", "os.path", "json", "re", "collections", "a.b.c", "m1", "pkg.sub", "typing"]
MEMBERS = ["path", "join", "dumps", "OrderedDict", "f", "g", "Any", "sep"]


def _name(rng):
    return rng.choice(NAMES)


def _expr(rng, depth=0):
    r = rng.random()
    if depth > 2 or r < 0.25:
        return rng.choice(["1", "x", "y", "None", "'s'", '"t # not comment"', "foo.bar", "os.sep",
                           "'é'", "b'by'", "2.5", "[]", "{}", "'#'", '"\\\\"',
                           "'\U0001f389'", '"\U0001d4b3 # astral"', "'a\x0cb'", "'a\x0bb'", "'a\x1cb'", "'a\x85b'",
                           "'a\u2028b'", "'a\u2029b \x1d'", "'\U0001f389' + x"])
    if r < 0.40:
        return "%s(%s)" % (rng.choice(["f", "foo", "os.getcwd", "len", "print"]),
                           ", ".join(_expr(rng, depth + 1) for _ in range(rng.randint(0, 2))))
    if r < 0.50:
        return "[%s]" % ", ".join(_expr(rng, depth + 1) for _ in range(rng.randint(1, 3)))
    if r < 0.58:
        return "[%s,\n %s]" % (_expr(rng, depth + 1), _expr(rng, depth + 1))
    if r < 0.64:
        return "(%s +\n    %s)" % (_expr(rng, depth + 1), _expr(rng, depth + 1))
    if r < 0.70:
        return "%s + \\\n    %s" % (_expr(rng, 3), _expr(rng, 3))
    if r < 0.76:
        q = rng.choice(["'''", '"""'])
        body = rng.choice(["multi\nline", "a\n# not a comment\nb", "\n\n", "x\n    indented\n", "é\nü", "tail\\\nmore",
                           "a\n   \nb", "a\n\t\nb", "\U0001f389\n \n", "p\x0cq\nr\u2028s"])
        return q + body + q
    if r < 0.82:
        return rng.choice(['f"a{x}b"', "f'{x!r:>{y}}'", 'f"""m\n{x}\nn"""', "f'{x}' 'lit'", "'a' 'b'", "'a' \\\n    'b'",
                           "('p'\n 'q')", "rf'\\d{x}'", 'f"{x}" f"{y}"', 'f"{x=}"', 'f"{x = !r:>5} z {y=}"'])
    if r < 0.845:
        # newer / rarer expression syntax
        return rng.choice(["(w := %s)" % _expr(rng, depth + 1), "[*x, *y]", "{**x, 'k': y}", "f(*x, **y)",
                           "[i for i in x if (j := i)]", "{k: v for k, v in x}", "(i async for i in x)" if False else "(i for i in x)",
                           "f'{x!r:{y}} {f\"{y}\"}'", "f'{\"nested\" + f\"{x}\"}'", "x[1:2, ...]", "x @ y", "not x is None",
                           "é_name", "変数", "x if y else (yield)" if False else "-x ** 2",
                           "(%s,\n %s,\n)" % (_expr(rng, 3), _expr(rng, 3)), "'" + "long " * 40 + "'"])
    if r < 0.88:
        return "{%s: %s}" % (_expr(rng, depth + 1), _expr(rng, depth + 1))
    if r < 0.93:
        return "lambda %s: %s" % (_name(rng), _expr(rng, depth + 1))
    return "%s if %s else %s" % (_expr(rng, depth + 1), _expr(rng, depth + 1), _expr(rng, depth + 1))


def gen_import(rng):
    r = rng.random()
    if r < 0.3:
        m = rng.choice(MODS)
        if rng.random() < 0.3:
            return "import %s as %s" % (m, _name(rng))
        if rng.random() < 0.3:
            return "import %s, %s" % (m, rng.choice(MODS))
        return "import %s" % m
    m = rng.choice(MODS)
    k = rng.randint(1, 3)
    mem = rng.sample(MEMBERS, k)
    items = [x if rng.random() < 0.7 else "%s as %s" % (x, _name(rng)) for x in mem]
    if r < 0.75:
        return "from %s import %s" % (m, ", ".join(items))
    if r < 0.9:
        return "from %s import (%s)" % (m, ",\n    ".join(items) + rng.choice(["", ","]))
    if r < 0.95:
        return "from %s import \\\n    %s" % (m, ", ".join(items))
    # star imports also from modules that cannot be inspected through a source file: built into the interpreter
    # (no __file__), extension modules, missing modules
    return "from %s import *" % rng.choice([m, m, "time", "itertools", "sys", "math", "_thread", "nosuchmod9", "zlib"])


def gen_simple(rng, allow_import=True):
    """Return (text, is_import).  Text has no trailing newline and may span lines."""
    r = rng.random()
    if allow_import and r < 0.22:
        return gen_import(rng), True
    if r < 0.55:
        return "%s = %s" % (_name(rng), _expr(rng)), False
    if r < 0.65:
        return _expr(rng), False
    if r < 0.70:
        return "%s: int = %s" % (_name(rng), _expr(rng, 2)), False
    if r < 0.75:
        return "%s += %s" % (_name(rng), _expr(rng, 2)), False
    if r < 0.80:
        return rng.choice(["pass", "del x", "assert x, 'm'", "global gg", "x = y = 0", "a, b = 1, 2",
                           "type Alias = int", "type Gen[T] = list[T]", "a, *rest = x", "x.attr: int", "x[0]: 'T' = 1",
                           "é = 1", "del x.a, y[0]", "(x) = 1", "x: int", "raise E from None" if False else "x = yield_ = 1"]), False
    if r < 0.88:
        q = rng.choice(["'''", '"""', "'", '"'])
        if len(q) == 3:
            return q + rng.choice(["doc\nstring", "one", "\n  >>> foo()\n  1\n", "# hash\n#"]) + q, False
        return q + rng.choice(["doc", "# hash", ""]) + q, False
    return "print(%s)" % _expr(rng), False


def _indent(text, ind):
    # indent each *physical* line of a statement; lines inside triple-quoted strings get indented too,
    # which only changes the string's value, not compilability.
    return "\n".join((ind + l if l.strip() else l) for l in text.split("\n"))


def gen_body(rng, depth, ind):
    n = rng.randint(1, 3)
    out = []
    for _ in range(n):
        if depth < 2 and rng.random() < 0.25:
            out.append(gen_compound(rng, depth + 1, ind))
        else:
            s, _imp = gen_simple(rng)
            if "'''" in s or '"""' in s or "\\\n" in s:
                # keep continuation / multi-line string lines unindented-safe: indent only first line
                out.append(ind + s)
            else:
                out.append(_indent(s, ind))
            if rng.random() < 0.2:
                out[-1] += "  # c"
        if rng.random() < 0.2:
            out.append(rng.choice(["", ind + "# body comment", "# col0 comment in body", "   "]))
    return "\n".join(out)


def gen_compound(rng, depth=0, ind=""):
    ind2 = ind + rng.choice(["    ", "  ", "\t"])
    r = rng.random()
    deco = ""
    if r < 0.5 and rng.random() < 0.4:
        k = rng.randint(1, 2)
        decos = [rng.choice(["@dec", "@dec(1)", "@a.b", "@dec(x,\n     y)", "@ dec", "@decs[0]", "@(lambda f: f)", "@a.b(c)(d)", "@(\n  dec\n)", "@ (  # c @ q\n dec @ x\n )"]) for _ in range(k)]
        deco = "".join(ind + d + rng.choice(["\n", "\n", "  # dc\n", "\n" + ind + "# between decorators\n"]) for d in decos)
    if r < 0.25:
        args = rng.choice(["", "a", "a, b=1", "*args, **kw", "a, /, b, *, c=2", "self", "a: int = 3"])
        ret = rng.choice(["", "", " -> int"])
        head = "%sdef %s(%s)%s:" % (rng.choice(["", "", "async "]), rng.choice(["f", "g", "h"]), args, ret)
        return deco + ind + head + rng.choice(["", "  # hc"]) + "\n" + gen_body(rng, depth, ind2)
    if r < 0.40:
        head = "class %s%s:" % (rng.choice(["C", "D"]), rng.choice(["", "(B)", "(B, metaclass=M)", "()", "(metaclass=M, *Bs)", "(B, *Bs, k=1, **kw)", "(k=1, *Bs)"]))
        return deco + ind + head + "\n" + gen_body(rng, depth, ind2)
    if r < 0.55:
        s = ind + "if %s:\n%s" % (_expr(rng, 2), gen_body(rng, depth, ind2))
        if rng.random() < 0.4:
            s += "\n" + ind + "elif y:\n" + gen_body(rng, depth, ind2)
        if rng.random() < 0.5:
            s += "\n" + ind + "else:\n" + gen_body(rng, depth, ind2)
        return s
    if r < 0.65:
        return ind + "for %s in %s:\n%s" % (_name(rng), _expr(rng, 2), gen_body(rng, depth, ind2))
    if r < 0.72:
        return ind + "while %s:\n%s" % (_expr(rng, 2), gen_body(rng, depth, ind2))
    if r < 0.84:
        s = ind + "try:\n%s\n%sexcept %s:\n%s" % (gen_body(rng, depth, ind2), ind,
                                                 rng.choice(["E", "(A, B) as e", "Exception"]), gen_body(rng, depth, ind2))
        if rng.random() < 0.3:
            s += "\n" + ind + "finally:\n" + gen_body(rng, depth, ind2)
        return s
    if r < 0.92:
        return ind + "with %s as %s:\n%s" % (_expr(rng, 3), _name(rng), gen_body(rng, depth, ind2))
    if r < 0.96:
        k = rng.random()
        if k < 0.3:
            return (ind + "match %s:\n" % _expr(rng, 3) + ind2 + "case [a, *b] if a:\n" + gen_body(rng, depth, ind2 + "    ") + "\n"
                    + ind2 + "case {'k': v, **kw} | C(x=1):\n" + gen_body(rng, depth, ind2 + "    ") + "\n"
                    + ind2 + "case _:\n" + gen_body(rng, depth, ind2 + "    "))
        if k < 0.45:
            return (ind + "try:\n" + gen_body(rng, depth, ind2) + "\n" + ind + "except* (A, B) as eg:\n" + gen_body(rng, depth, ind2))
        if k < 0.6:
            return ind + "def gen[T: int, *Ts, **P](a: T, /, b, *, c=2) -> T:\n" + gen_body(rng, depth, ind2)
        if k < 0.7:
            return ind + "class Box[T](Base[T], metaclass=M):\n" + gen_body(rng, depth, ind2)
        if k < 0.8:
            return (ind + "async def co():\n" + ind2 + "async with a as b, c as d:\n" + gen_body(rng, depth, ind2 + "    ") + "\n"
                    + ind2 + "async for i in x:\n" + gen_body(rng, depth, ind2 + "    ") + "\n" + ind2 + "return [j async for j in x if await j]")
        if k < 0.9:
            return (ind + "def outer():\n" + ind2 + "v = 1\n" + ind2 + "def inner():\n" + ind2 + "    nonlocal v\n" + ind2 + "    global gg\n"
                    + gen_body(rng, depth, ind2 + "    ") + "\n" + ind2 + "return inner")
        return (ind + "with (\n" + ind2 + "open(x) as f1,\n" + ind2 + "open(y) as f2,\n" + ind + "):\n" + gen_body(rng, depth, ind2))
    # one-line compound statements
    return ind + rng.choice(["if x: pass", "for i in y: pass", "while 0: x = 1; y = 2", "class E: pass",
                             "def k(): return 1", "with a: pass", "if x: import os", "try: pass\n" + ind + "except: pass"])


def gen_filler(rng):
    """comment / blank lines between statements (each ends with newline)"""
    k = rng.choice([0, 0, 0, 1, 1, 2, 3])
    out = []
    for _ in range(k):
        out.append(rng.choice(["", "", "# comment", "#", "   # indented comment", "   ", "\t", "\f", "# é ünï",
                               "# trailing backslash \\", "#!shebang-like", "# x = '''", "\f# ff comment",
                               "# \U0001f389 astral", "# vt \x0b fs \x1c nel \x85 ls \u2028 end", "\f\f# two ff", " \f # sp ff"]) + "\n")
    return "".join(out)


FF_BEFORE_IMPORT = True    # repair D68 (8ec4444) is in /repo


def gen_module(rng, max_items=6, want_imports=True, final_newline=None, prologue=None):
    """
    Returns (text, info) with info = dict(n_items, has_import, ...).
    """
    for _attempt in range(20):
        parts = []
        info = dict(imports=0, compounds=0, semis=0, multiline_str=0)
        if prologue is None:
            pro = rng.random()
        else:
            pro = 0.0 if prologue else 1.0
        if pro < 0.35:
            parts.append(rng.choice(["#!/usr/bin/env python\n", "# -*- coding: utf-8 -*-\n", "# license\n# text\n", ""]))
            if rng.random() < 0.6:
                parts.append(rng.choice(['"""Module doc."""\n', '"""Multi\nline doc.\n"""\n', "'doc'\n", 'r"""raw\n"""  # dc\n',
                                         '"""Doc.\n\n    >>> print "py2 example"\n    >>> f(<your data>)\n    >>> os.getcwd(\n"""\n',
                                         '"""Doc.\n\n    >>> import os\n    >>> os.sep\n    \'/\'\n"""\n']))
            if rng.random() < 0.3:
                parts.append("from __future__ import annotations\n")
            parts.append(gen_filler(rng))
        n = rng.randint(0, max_items)
        i = 0
        while i < n:
            parts.append(gen_filler(rng))
            if rng.random() < 0.3:
                parts.append(gen_compound(rng))
                info["compounds"] += 1
                parts.append(rng.choice(["\n", "\n", "\n\n", "\n\n\n"]))
                i += 1
                continue
            # a logical line of 1..3 simple statements joined by ';'
            k = rng.choice([1, 1, 1, 2, 2, 3])
            stmts = []
            for _ in range(k):
                s, imp = gen_simple(rng, allow_import=want_imports)
                if imp:
                    info["imports"] += 1
                if "'''" in s or '"""' in s:
                    info["multiline_str"] += 1
                stmts.append(s)
            sep = rng.choice(["; ", ";", " ; ", ";  "])
            line = sep.join(stmts)
            if k > 1:
                info["semis"] += 1
            if rng.random() < 0.08:
                line += rng.choice([";", " ;"])
            if rng.random() < 0.25:
                line += rng.choice(["  # trailing", " #c", "  # é", "  # type: int", "  # type: ignore", " # type: (int) -> str",
                                    "  # \U0001f389", "  # a\x0cb\u2028c"])
            if rng.random() < 0.06 and not stmts[0].startswith(("import ", "from ")):
                line = rng.choice(["\f", "\f\f", " \f", "\f "]) .rstrip(" ") + line if False else rng.choice(["\f", "\f\f"]) + line
            elif stmts[0].startswith(("import ", "from ")) and rng.random() < 0.08 and FF_BEFORE_IMPORT:
                # a form feed in front of an import is outside the import statement: it stays (it belongs to the text in
                # front); directly after another import statement it would be the listed finding D68: filtered below
                line = rng.choice(["\f", "\f\f"]) + line
                info["ff_before_import"] = 1
            parts.append(line + "\n")
            i += k
        parts.append(gen_filler(rng))
        text = "".join(parts)
        fn = rng.random() < 0.8 if final_newline is None else final_newline
        if not fn:
            while text.endswith("\n"):
                text = text[:-1]
            if rng.random() < 0.15 and text and "\n" in text:
                text += "\n# last comment no newline"
        r_layout = rng.random()
        if r_layout < 0.012 and "\n" in text:
            # a lone CR as a line break (the compiler accepts CR, CRLF and LF)
            idx = [i for i, ch in enumerate(text) if ch == "\n" and text[i + 1:i + 2] != "\n"]   # (no CRLF: that is D62's subject)
            if idx:
                k0 = rng.choice(idx)
                text = text[:k0] + "\r" + text[k0 + 1:] if rng.random() < 0.6 else text.replace("\n", "\r")
        elif r_layout < 0.024 and "\n" in text:
            # a backslash-newline directly in front of a statement
            lines0 = text.split("\n")
            cand0 = [i for i, l in enumerate(lines0) if l and not l[0].isspace() and not l.startswith(("#", "@", "'", '"'))]
            if cand0:
                k0 = rng.choice(cand0)
                lines0.insert(k0, "\\")
                text = "\n".join(lines0)
        try:
            compile(text + ("\n" if not text.endswith("\n") else ""), "<gen>", "exec", dont_inherit=True)
        except (SyntaxError, ValueError):
            continue
        if not text.strip():
            continue
        info["n_lines"] = text.count("\n") + 1
        info["final_newline"] = text.endswith("\n")
        return text, info
    return "x = 1\n", dict(imports=0, compounds=0, semis=0, multiline_str=0, n_lines=2, final_newline=True)


def ff_between_imports(text):
    """line numbers (1-based) of top-level import statements that have a form feed in front of their first token on
    their own line and directly follow (on the previous line) another top-level import statement: pyflyby attributes
    that whitespace to the import in front and drops it when the block is re-rendered (listed finding D68)"""
    try:
        tree = ast.parse(text if text.endswith("\n") else text + "\n")
    except (SyntaxError, ValueError):
        return []
    import re as _re
    lines = _re.split("\r\n|\r|\n", text)      # the compiler's line table (a lone CR is a line break)
    out = []
    prev = None
    for n in tree.body:
        if isinstance(n, (ast.Import, ast.ImportFrom)) and prev is not None and isinstance(prev, (ast.Import, ast.ImportFrom)) \
                and n.lineno - 1 < len(lines):
            pre = lines[n.lineno - 1][:char_col(lines[n.lineno - 1], n.col_offset)]
            if "\f" in pre and not pre.strip(" \t\f") and prev.end_lineno == n.lineno - 1:
                out.append(n.lineno)
        prev = n
    return out


def _strip_ff_between_imports(text):
    lines = text.split("\n")
    for ln in ff_between_imports(text):
        lines[ln - 1] = lines[ln - 1].lstrip(" \t\f")
    return "\n".join(lines)


# --- positions independent of pyflyby -----------------------------------------

def char_col(line: str, byte_off: int) -> int:
    """UTF-8 byte offset within `line` -> character index."""
    return len(line.encode("utf-8")[:byte_off].decode("utf-8", errors="replace"))


def decorator_at(lines, d, ws_to_stmt=True):
    """(1-based line, 0-based char col) of the '@' that introduces decorator expression node `d`: the first token of
    its line; a parenthesised expression may start on a later line than its '@'."""
    ln = d.lineno
    cc = char_col(lines[ln - 1], d.col_offset)
    j = lines[ln - 1].rfind("@", 0, cc)
    if j >= 0 and not lines[ln - 1][:j].strip(" \t\f"):
        return ln, 0 if ws_to_stmt else j
    while ln > 1:
        ln -= 1
        st = lines[ln - 1].lstrip(" \t\f")
        if st.startswith("@"):
            return ln, 0 if ws_to_stmt else len(lines[ln - 1]) - len(st)
    raise AssertionError((lines[d.lineno - 1], cc))


def toplevel_starts(text: str):
    """
    [(line, charcol0)] (1-based line, 0-based char col) of every top-level
    statement, computed with stdlib `ast` only; decorated defs start at '@'.
    """
    src = text if text.endswith("\n") else text + "\n"
    tree = ast.parse(src)
    lines = src.split("\n")
    out = []
    for n in tree.body:
        ln, co = n.lineno, n.col_offset
        decos = getattr(n, "decorator_list", None)
        if decos:
            out.append(decorator_at(lines, decos[0]))
        else:
            cc = char_col(lines[ln - 1], co)
            if not isinstance(n, (ast.Import, ast.ImportFrom)) and cc and not lines[ln - 1][:cc].strip(" \t\f"):
                cc = 0      # whitespace (a form feed) in front of the first token belongs to the statement
            out.append((ln, cc))
    return out, tree
