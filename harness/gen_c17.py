"""
gen_c17 — generators and run-time support for the C17 check (saveframe).

Two things live here:

* support classes imported by the *generated programs* (they must be importable by
  name so that their instances pickle by reference): `Tog`, `P`, `BadReduce`, and the
  registry `REG` through which one generated frame calls the next;
* `gen_program(rng)` — a call-stack description rendered to concrete module sources
  (depth 1..8, recursion, repeated files / functions, methods, closures, lambdas,
  generator expressions, class bodies, `raise … from`, implicit `__context__`,
  `raise … from None`, `finally`, bare re-raise), `build_and_raise` which writes the
  sources below a scratch directory, executes them as registered modules and returns
  the real exception, and the selector / variable-filter generators.
"""
from __future__ import annotations

import os
import sys
import types

# --------------------------------------------------------------------------------------
# run-time support for generated programs
# --------------------------------------------------------------------------------------

REG = {}          # 's<i>' -> callable of step i (filled when the generated modules execute)
UNPICK = set()    # ids of Tog values that currently refuse to pickle


class Tog:
    """A value whose picklability is switched from outside (UNPICK)."""

    def __init__(self, tid, payload):
        self.tid = tid
        self.payload = payload

    def __reduce__(self):
        if self.tid in UNPICK:
            raise RuntimeError("Tog %d refuses to pickle" % self.tid)
        return (Tog, (self.tid, self.payload))

    def __eq__(self, other):
        return isinstance(other, Tog) and (self.tid, self.payload) == (other.tid, other.payload)

    def __hash__(self):
        return hash((self.tid, repr(self.payload)))

    def __repr__(self):
        return "Tog(%d, %r)" % (self.tid, self.payload)


class P:
    """A plain picklable object with value equality."""

    def __init__(self, v):
        self.v = v

    def __eq__(self, other):
        return isinstance(other, P) and self.v == other.v

    def __hash__(self):
        return hash(repr(self.v))

    def __repr__(self):
        return "P(%r)" % (self.v,)


class BadReduce:
    """Never picklable: __reduce__ raises."""

    def __reduce__(self):
        raise TypeError("BadReduce cannot be pickled")

    def __repr__(self):
        return "BadReduce()"


class Ctx:
    """A context manager that lets exceptions through."""

    def __enter__(self):
        return self

    def __exit__(self, *a):
        return False

    def __eq__(self, other):
        return isinstance(other, Ctx)

    def __hash__(self):
        return 7

    def __repr__(self):
        return "Ctx()"


class AppError(Exception):
    """A picklable application exception."""


class TwoArgError(Exception):
    """Pickles (by reference, args = (a,)) but cannot be loaded again: __init__ wants two arguments."""

    def __init__(self, a, b):
        super().__init__(a)
        self.b = b


class BadStrError(Exception):
    """str() of the exception raises."""

    def __str__(self):
        return self.no_such_attribute


# --------------------------------------------------------------------------------------
# program generator
# --------------------------------------------------------------------------------------

# file names and function names are related to one another by suffix / prefix / substring on purpose: a selector
# aimed at exactly one of them must not reach the others (mod.py / submod.py / mod.py2; run / dry_run / rerun / run2 /
# runner; load / reload / preload; Job.run / SubJob.rerun)
FILES = ["pkg/alpha.py", "pkg/alpha2.py", "lib/alpha.py", "lib/beta.py", "gamma.py",
         "pkg/mod.py", "pkg/submod.py", "lib/mod.py2", "lib/mod.py"]
FUNC_NAMES = ["run", "dry_run", "rerun", "run2", "runner", "load", "reload", "preload", "helper", "step"]
CLASS_NAMES = ["K", "Job", "SubJob"]
# ordinary names, private / dunder names, and names that are legal variables although they look special:
# the soft keywords (`_`, `match`, `case`, `type`), `__`, names with digits, non-ASCII identifiers
VAR_NAMES = ["a", "b", "x", "y", "data", "secret", "cfg", "n", "_priv", "__dd", "__dunder__", "tmp", "total",
             "_", "match", "case", "type", "__", "x1", "v2_3", "\u00e9", "\u5909\u6570", "soft"]
SOFT_NAMES = ["_", "match", "case", "type", "\u00e9", "\u5909\u6570", "x1"]

import pickle as _pickle
# bytes-valued locals, among them bytes that are themselves valid pickles of other objects
BYTES_VALUES = [repr(b"\x89PNG\r\n"), repr(b""), repr(b"IHDR...."), repr(_pickle.dumps([1, 2], protocol=5)),
                repr(_pickle.dumps({"answer": 42}, protocol=2)), repr(b"I7\n."), repr(_pickle.dumps("s", protocol=5)),
                "bytearray(b'ab')", "bytearray(%r)" % _pickle.dumps((1, 2), protocol=4),
                "memoryview(b'mv').tobytes()"]

KINDS = ["func", "func", "func", "method", "nested", "lambda", "genexpr", "classbody", "relay", "relay", "recurse"]
HOWS = ["call", "call", "call", "call", "ctx", "cause", "from_none", "finally", "reraise", "with", "cause_other"]
BOTTOMS = ["raise", "raise", "zerodiv", "keyerror", "apperror", "ctx_bottom", "cause_bottom", "assert"]
# candidate C17-2: the exception OBJECT (not a local) does not survive a pickle round trip, or has no str()
EXC_BOTTOMS = ["exc_lambda_arg", "exc_local_class", "exc_lock_attr", "exc_twoarg", "exc_badstr"]
# candidate C17-4: a cyclic chain (`raise e from e`; a.__cause__ = b, b.__cause__ = a)
CYCLE_HOWS = ["cycle", "cycle2"]
# candidate C17-1: a frame whose current line (f_lineno) is not the line of its traceback entry, or is None
STAR_HOWS = ["star", "star_reraise"]


def _gen_value(rng, tog_ids):
    """-> python expression text for a local's value"""
    r = rng.random()
    if r < 0.13:
        return rng.choice(BYTES_VALUES)
    if r < 0.26:
        return str(rng.randint(-5, 999))
    if r < 0.36:
        return repr(rng.choice(["s", "hello", "", "p@ss", "x,y", "é"]))
    if r < 0.46:
        return repr([rng.randint(0, 9) for _ in range(rng.randint(0, 3))])
    if r < 0.53:
        return repr({"k": rng.randint(0, 9), "t": (1, 2.5, None)})
    if r < 0.60:
        return "P(%d)" % rng.randint(0, 99)
    if r < 0.80:
        tid = len(tog_ids)
        tog_ids.append(tid)
        return "Tog(%d, %r)" % (tid, rng.choice([0, "v", [1, 2]]))
    if r < 0.86:
        return "(lambda: 0)"
    if r < 0.91:
        return "BadReduce()"
    if r < 0.94:
        return "(q for q in ())"
    if r < 0.97:
        return "_os"
    return "[Tog, len]"


def _gen_locals(rng, tog_ids, lo=0, hi=4):
    names = rng.sample(VAR_NAMES, rng.randint(lo, hi))
    out = [(n, _gen_value(rng, tog_ids)) for n in names]
    if len(names) >= 3 and rng.random() < 0.35:
        # locals that SHARE sub-objects, one of them unpicklable: a variable that cannot be pickled is skipped "without
        # affecting the others" — also when the next variable refers to an object the failed one had already reached,
        # or holds the same object twice (the locals are assigned in this order, so later ones may name earlier ones)
        a, b, c = names[0], names[1], names[2]
        out[0] = (a, rng.choice(["[1, 2, 3]", "{'k': (1, 2)}", "P(7)"]))
        out[1] = (b, rng.choice(["[%s, (lambda: 0)]", "{'x': %s, 'f': (q for q in ())}", "(%s, BadReduce())"]) % a)
        out[2] = (c, rng.choice(["[%s, %s]", "{'u': %s, 'v': %s}", "(%s, [%s])"]) % (a, a))
    return out


def gen_program(rng, max_steps=8):
    """
    -> dict(files={relpath: source}, entry='direct'|'module', main=<relpath or None>, n_tog=<int>)
    Steps are numbered from the top (0 = first called) to the bottom (the one that raises).
    """
    nsteps = rng.choice([1, 1, 2, 2, 3, 3, 4, 5, 6, 7, 8])
    nsteps = min(nsteps, max_steps)
    nfiles = rng.choice([1, 2, 2, 3, 4])
    files = rng.sample(FILES, nfiles)
    tog_ids = []
    blocks = {f: [] for f in files}
    relay_defined = set()
    chained = 0
    cyclic = False
    for i in range(nsteps):
        f = rng.choice(files)
        bottom = i == nsteps - 1
        kind = rng.choice(KINDS)
        if bottom and kind in ("genexpr",):
            kind = "func"
        if bottom:
            how = rng.choice(BOTTOMS)
            r = rng.random()
            if r < 0.09:
                how = rng.choice(EXC_BOTTOMS)
            elif r < 0.105:
                how = "cycle_bottom"
                cyclic = True
        else:
            how = rng.choice(HOWS)
            r = rng.random()
            if r < 0.012 and chained < 3:
                how = rng.choice(CYCLE_HOWS)
                cyclic = True
                chained += 1
            elif r < 0.04:
                how = rng.choice(STAR_HOWS)
            elif r < 0.05 and chained < 3:
                how = "ctx_unpicklable_exc"
                chained += 1
            if how in ("ctx", "cause", "from_none", "cause_other"):
                if chained >= 3:
                    how = "call"
                else:
                    chained += 1
        blocks[f].append(_render_step(rng, i, kind, how, bottom, tog_ids, f, relay_defined))
    out = {}
    for f in files:
        src = ["import os as _os", "from gen_c17 import Tog, P, BadReduce, Ctx, AppError, TwoArgError, BadStrError, REG as _REG", ""]
        for b in blocks[f]:
            src.extend(b)
            src.append("")
        out[f] = "\n".join(src) + "\n"
    entry = "direct"
    main = None
    if rng.random() < 0.015:
        # an exception object that was never raised: no traceback, no frames
        return dict(files=out, entry="unraised", main=None, n_tog=len(tog_ids), cyclic=cyclic)
    if rng.random() < 0.2:
        entry = "module"
        main = "main_script.py"
        ls = _gen_locals(rng, tog_ids, 0, 2)
        out[main] = ("from gen_c17 import Tog, P, BadReduce, REG as _REG\nimport os as _os\n"
                     + "".join("%s = %s\n" % (n, v) for n, v in ls if not n.startswith("__"))
                     + "_REG['s0'](0)\n")
    return dict(files=out, entry=entry, main=main, n_tog=len(tog_ids), cyclic=cyclic)


def _action_lines(rng, i, how, bottom, var="_i"):
    """statements (relative indentation 0) performing the call to the next step / the raise"""
    nxt = "_REG['s%%d' %% (%s + 1)](%s + 1)" % (var, var)
    if bottom:
        if how == "raise":
            return ["raise ValueError('boom %d' % " + var + ")"]
        if how == "zerodiv":
            return ["q = 1 // (%s - %s)" % (var, var)]
        if how == "keyerror":
            return ["q = {}['missing']"]
        if how == "apperror":
            return ["raise AppError('app', %s)" % var]
        if how == "assert":
            return ["assert %s < 0, 'neg'" % var]
        if how == "ctx_bottom":
            return ["try:", "    q = 1 // (%s - %s)" % (var, var), "except ZeroDivisionError:",
                    "    h = 'handling'", "    raise ValueError('while handling')"]
        if how == "cause_bottom":
            return ["try:", "    q = {}['missing']", "except KeyError as err:",
                    "    raise RuntimeError('wrapped') from err"]
        if how == "cycle_bottom":
            return ["try:", "    q = {}['missing']", "except KeyError as err:", "    raise err from err"]
        if how == "exc_lambda_arg":
            return ["raise AppError('app', (lambda: %s))" % var]
        if how == "exc_local_class":
            return ["class LocalError(Exception):", "    pass", "raise LocalError('local %d' % " + var + ")"]
        if how == "exc_lock_attr":
            return ["err = AppError('locked')", "err.lock = __import__('threading').Lock()", "raise err"]
        if how == "exc_twoarg":
            return ["raise TwoArgError('two', %s)" % var]
        if how == "exc_badstr":
            return ["raise BadStrError('nostr')"]
        raise AssertionError(how)
    if how == "call":
        return [rng.choice(["return " + nxt, "r = " + nxt, nxt])]
    if how == "ctx":
        return ["try:", "    " + nxt, "except Exception:", "    h = 'ctx'", "    raise KeyError('ctx %d' % " + var + ")"]
    if how == "cause":
        return ["try:", "    " + nxt, "except Exception as err:", "    raise RuntimeError('cause') from err"]
    if how == "cause_other":
        # __cause__ is an exception that was never raised (no traceback); __context__ is the caught one
        return ["try:", "    " + nxt, "except Exception:", "    raise RuntimeError('other') from LookupError('never raised')"]
    if how == "from_none":
        return ["try:", "    " + nxt, "except Exception:", "    raise RuntimeError('hidden') from None"]
    if how == "finally":
        return ["try:", "    " + nxt, "finally:", "    fin = 1"]
    if how == "reraise":
        return ["try:", "    " + nxt, "except Exception:", "    seen = True", "    raise"]
    if how == "with":
        return ["with Ctx() as cm:", "    " + nxt]
    if how == "cycle":
        return ["try:", "    " + nxt, "except Exception as err:", "    raise err from err"]
    if how == "cycle2":
        return ["try:", "    " + nxt, "except Exception as err:", "    new = RuntimeError('cyc')", "    err.__cause__ = new",
                "    raise new from err"]
    if how == "star":
        # a non-matching except*: the exception leaves the frame from an instruction without a line
        return ["try:", "    " + nxt, "except* OSError:", "    pass"]
    if how == "star_reraise":
        return ["try:", "    " + nxt, "except* OSError:", "    seen = True", "    raise"]
    if how == "ctx_unpicklable_exc":
        return ["try:", "    " + nxt, "except Exception:", "    raise AppError('ctx', (lambda: 0))"]
    raise AssertionError(how)


def _ind(lines, n):
    return [(" " * n + l) if l else l for l in lines]


def _render_step(rng, i, kind, how, bottom, tog_ids, f, relay_defined):
    ls = [(n, v) for n, v in _gen_locals(rng, tog_ids)]
    after = [(n, v) for n, v in _gen_locals(rng, tog_ids, 0, 1) if n not in dict(ls)]
    assigns = ["%s = %s" % (n, v) for n, v in ls]
    afters = ["%s = %s" % (n, v) for n, v in after]
    act = _action_lines(rng, i, how, bottom)
    if kind == "func":
        name = rng.choice(FUNC_NAMES) + rng.choice(["", "", str(i)])
        # a function name may repeat inside one module: later definitions shadow earlier ones at module level
        body = assigns + act + afters
        return ["def %s(_i):" % name] + _ind(body or ["pass"], 4) + ["_REG['s%d'] = %s" % (i, name)]
    if kind == "method":
        cls = rng.choice(CLASS_NAMES) + str(i)
        meth = rng.choice(FUNC_NAMES)
        selfattr = rng.choice(["1", "'s'", "(lambda: 0)", "[1, 2]"])
        body = assigns + act + afters
        return (["class %s:" % cls,
                 "    def __init__(self):", "        self.attr = %s" % selfattr,
                 "    def __eq__(self, o):", "        return type(o) is type(self)",
                 "    def __hash__(self):", "        return 1",
                 "    def __repr__(self):", "        return '%s()'" % cls,
                 "    def %s(self, _i):" % meth] + _ind(body, 8) +
                ["_REG['s%d'] = %s().%s" % (i, cls, meth)])
    if kind == "nested":
        name = "outer%d" % i
        inner = rng.choice(["inner", "helper", "run", "rerun", "dry_run"])
        act2 = _action_lines(rng, i, how, bottom, var="_j")
        body_in = ["z = cap"] + assigns + act2 + afters
        return (["def %s(_i):" % name, "    cap = %s" % _gen_value(rng, tog_ids),
                 "    def %s(_j):" % inner] + _ind(body_in, 8) +
                ["    return %s(_i)" % inner, "_REG['s%d'] = %s" % (i, name)])
    if kind == "lambda":
        if bottom:
            return ["_REG['s%d'] = lambda _i: 1 // (_i - _i)" % i]
        return ["_REG['s%d'] = lambda _i: _REG['s%%d' %% (_i + 1)](_i + 1)" % i]
    if kind == "genexpr":
        name = "gen%d" % i
        return (["def %s(_i):" % name] + _ind(assigns, 4) +
                ["    items = [10, 20]",
                 "    return list(_REG['s%d' % (_i + 1)](_i + 1) for _q in items)",
                 "_REG['s%d'] = %s" % (i, name)])
    if kind == "classbody":
        name = "cb%d" % i
        body = ["attr = %s" % _gen_value(rng, tog_ids)] + [a for a in assigns if not a.startswith("_")] + act
        body = [l.replace("return ", "res = ") for l in body]
        return (["def %s(_i):" % name, "    class Body:"] + _ind(body, 8) + ["_REG['s%d'] = %s" % (i, name)])
    if kind == "relay":
        # one shared function per module used by several steps: same file, same function, same line
        out = []
        if f not in relay_defined:
            relay_defined.add(f)
            if bottom:
                # a relay that is last raises itself
                out += ["def relay(_i, last=%d):" % i, "    tag = _i * 2",
                        "    if _i >= last:", "        raise ValueError('relay bottom')",
                        "    return _REG['s%d' % (_i + 1)](_i + 1)"]
            else:
                out += ["def relay(_i, last=10 ** 6):", "    tag = _i * 2",
                        "    if _i >= last:", "        raise ValueError('relay bottom')",
                        "    return _REG['s%d' % (_i + 1)](_i + 1)"]
            out += ["_REG['s%d'] = relay" % i]
        else:
            if bottom:
                out += ["_REG['s%d'] = lambda _i: relay(_i, last=%d)" % (i, i)]
            else:
                out += ["_REG['s%d'] = relay" % i]
        return out
    if kind == "recurse":
        name = "rec%d" % i
        depth = rng.choice([1, 2, 3])
        body = ["level = n"] + assigns + ["if n > 0:", "    return %s(_i, n - 1)" % name] + act + afters
        return ["def %s(_i, n=%d):" % (name, depth)] + _ind(body, 4) + ["_REG['s%d'] = %s" % (i, name)]
    raise AssertionError(kind)


# --------------------------------------------------------------------------------------
# building and running a program
# --------------------------------------------------------------------------------------

def modname_for(rel):
    return "c17m_" + rel.replace("/", "_").replace(".", "_")


def load_program(prog, root, write=True):
    """Write the sources below `root`, execute the modules (registered in sys.modules). -> list of module names"""
    REG.clear()
    UNPICK.clear()
    names = []
    for rel, src in prog["files"].items():
        if not write:
            break
        path = os.path.join(root, rel)
        os.makedirs(os.path.dirname(path), exist_ok=True)
        with open(path, "w", encoding="utf-8") as fh:
            fh.write(src)
    for rel, src in prog["files"].items():
        if rel == prog.get("main"):
            continue
        path = os.path.join(root, rel)
        name = modname_for(rel)
        mod = types.ModuleType(name)
        mod.__file__ = path
        sys.modules[name] = mod
        names.append(name)
        exec(compile(src, path, "exec"), mod.__dict__)
    return names


def unload_program(names):
    for n in names:
        sys.modules.pop(n, None)
    REG.clear()
    UNPICK.clear()


def raise_program(prog, root, names):
    """Run the loaded program; -> the exception with the harness' own frames trimmed off the traceback."""
    if prog["entry"] == "unraised":
        return ValueError("never raised")
    try:
        if prog["entry"] == "module":
            rel = prog["main"]
            path = os.path.join(root, rel)
            name = "c17m_main_script"
            mod = types.ModuleType(name)
            mod.__file__ = path
            sys.modules[name] = mod
            names.append(name)
            exec(compile(prog["files"][rel], path, "exec"), mod.__dict__)
        else:
            REG["s0"](0)
    except BaseException as e:  # noqa
        exc = e
    else:
        raise RuntimeError("generated program did not raise")
    tb = exc.__traceback__
    while tb is not None and not tb.tb_frame.f_code.co_filename.startswith(root):
        tb = tb.tb_next
    exc.__traceback__ = tb
    return exc


class FrameList(list):
    """The list `dry_frames` returns; `tblines[i]` is the line of the traceback entry of item i (the line the stack
    trace displays), which differs from the live `f_lineno` in item i when the frame ran on after the failure."""

    def __init__(self, *a):
        super().__init__(*a)
        self.tblines = []


def dry_frames(prog):
    """Frames (bottom-first, following __cause__ or __context__) of the program, for choosing selectors.
    -> list of (relfile, lineno, name, qualname).  Uses a throw-away directory-less compile."""
    root = "/pfbc17_dry_nonexistent"       # nothing is written: the sources are compiled from memory
    names = []
    try:
        names = load_program(prog, root, write=False)
        exc = raise_program(prog, root, names)
        out = FrameList()
        e = exc
        guard = 0
        seen = set()
        while e is not None and guard < 50 and id(e) not in seen:
            guard += 1
            seen.add(id(e))
            tb = e.__traceback__
            cur = []
            while tb is not None:
                fr = tb.tb_frame
                # f_lineno is None when the frame was left from an instruction without a line (except*)
                cur.append(((os.path.relpath(fr.f_code.co_filename, root), fr.f_lineno or 0, fr.f_code.co_name,
                             fr.f_code.co_qualname, sorted(fr.f_locals)), tb.tb_lineno))
                tb = tb.tb_next
            for item, tbl in reversed(cur):
                out.append(item)
                out.tblines.append(tbl)
            e = e.__cause__ or e.__context__
        return out
    finally:
        unload_program(names)


# --------------------------------------------------------------------------------------
# selectors and variable filters
# --------------------------------------------------------------------------------------

def _gen_pattern(rng, frames):
    """One 'file:line:func' pattern aimed at (or near) a frame of the program."""
    if frames and rng.random() < 0.93:
        ix = rng.randrange(len(frames))
        rel, line, name, qual, _ = frames[ix]
        tbl = getattr(frames, "tblines", None)
        if tbl and len(tbl) == len(frames) and tbl[ix] and tbl[ix] != line and rng.random() < 0.5:
            line = tbl[ix]                       # the line the stack trace displays for this entry
    else:
        rel, line, name, qual = "nowhere.py", 3, "nofunc", "nofunc"
    base = os.path.basename(rel)
    r = rng.random()
    if r < 0.25:
        rx = base
    elif r < 0.40:
        rx = rel
    elif r < 0.50:
        rx = "/" + base[:-3]                     # '/alpha' also matches '/alpha2.py'
    elif r < 0.58:
        rx = base.replace(".", r"\.") + "$"
    elif r < 0.66:
        rx = os.path.dirname(rel) + "/" if "/" in rel else "/" + base
    elif r < 0.74:
        rx = "."
    elif r < 0.80:
        rx = r"(pkg|lib)/.*\.py"
    elif r < 0.83:
        rx = "alpha2?\\.py"
    elif r < 0.87:
        rx = rng.choice(["/" + base.replace(".", r"\.") + "$", "^.*/" + base.replace(".", r"\.") + "$", base[1:], base[:-1]])
    elif r < 0.90:
        rx = "zzz_nomatch"
    elif r < 0.94:
        rx = "/[a-z]+\\.py$"
    else:
        rx = rng.choice(["(unclosed", "[a-", "*star", "a{2}{3}", "\\"])      # invalid regular expressions
    r = rng.random()
    if r < 0.55:
        ln = ""
    elif r < 0.85:
        ln = str(line)
    elif r < 0.90:
        ln = str(line + rng.choice([-1, 1, 100]))
    elif r < 0.93:
        ln = "0"
    elif r < 0.95:
        ln = " %d " % line
    elif r < 0.97:
        ln = rng.choice(["-3", "+%d" % line, "1_0", "0%d" % line, str(line)[:-1], str(line) + "0", "1" + str(line)])
    else:
        ln = rng.choice(["x", "1.5", "1e2", "--1", "_1", "1__0"])
    r = rng.random()
    if r < 0.40:
        fn = ""
    elif r < 0.62:
        fn = name
    elif r < 0.78:
        fn = qual
    elif r < 0.81:
        fn = "nomatch"
    elif r < 0.93:
        # a name that is a proper suffix / prefix / inner part of the frame's name or qualified name, or the name of
        # a suffix-related function: denotes this frame only if some frame is called exactly that
        fn = rng.choice([name[1:], name[2:], name[:-1], qual[1:], qual.split(".")[-1][-3:], "run", "load",
                         "re" + name, "dry_" + name, name + "2", "." + name, "<locals>." + name,
                         qual.split(".", 1)[-1], "Job." + name])
    else:
        fn = rng.choice([name.upper(), "<lambda>", "<module>", "Body", "<genexpr>"])
    return "%s:%s:%s" % (rx, ln, fn)


def _ws(rng, s):
    r = rng.random()
    if r < 0.8:
        return s
    if r < 0.9:
        return " " + s + " "
    return s + "\t"


def gen_selector(rng, frames, utility):
    """-> JSON value for the `frames` argument (None | int | str | list[str])"""
    n = len(frames)
    r = rng.random()
    if r < 0.08:
        return None
    if r < 0.22:
        k = rng.choice([-2, -1, 0, 1, 1, 2, 2, 3, n - 1, n, n, n + 1, n + 5])
        if utility != "function" or rng.random() < 0.3:
            return rng.choice([str(k), " %d " % k, "+%d" % k if k >= 0 else str(k), "0%d" % k if k >= 0 else str(k)])
        return k
    if r < 0.45:
        p = _ws(rng, _gen_pattern(rng, frames))
        if utility == "function" and rng.random() < 0.4:
            return [p]
        return p
    if r < 0.65:
        ps = [_ws(rng, _gen_pattern(rng, frames)) for _ in range(rng.randint(2, 3))]
        if utility == "function":
            return ps
        return ",".join(ps)
    if r < 0.84:
        a, b = _gen_pattern(rng, frames), _gen_pattern(rng, frames)
        s = _ws(rng, a) + ".." + _ws(rng, b)
        if utility == "function" and rng.random() < 0.15:
            return [s]
        return s
    if r < 0.92:
        s = _ws(rng, _gen_pattern(rng, frames)) + ".." + rng.choice(["", "", " "])
        return s
    # malformed
    p = _gen_pattern(rng, frames)
    bad = rng.choice([
        "a:b", "a:b:c:d", ":1:f", "x::..y::..z::", "f.py:xx:", p + "," + p, "..", "", "..x::", "...", p + "...",
        p + ".." + p + "..", "::", ":::", "file.py", p.replace(":", ";"), " ", ",",
    ])
    if utility == "function" and rng.random() < 0.4:
        return rng.choice([[bad], [p, bad], [p + "," + p], [], [p + ".." + p, p], ["3"], [""]])
    return bad


def gen_varfilter(rng, frames, utility):
    """-> (variables, exclude_variables) JSON values"""
    names = sorted({v for fr in frames for v in fr[4]})
    pool = names + ["nosuch", "other"]
    special = [n for n in names if n in SOFT_NAMES]
    if special and rng.random() < 0.5:
        pool = pool + special * 3            # bias towards soft keywords / non-ASCII names that really are locals
    elif rng.random() < 0.15:
        pool = pool + SOFT_NAMES
    invalid = ["1bad", "a-b", "class", "", "x y", "a.b", ".0", "for", " x", "é-"]

    def one():
        r = rng.random()
        if r < 0.15:
            k = rng.choice(pool)
            return k if rng.random() < 0.8 else " %s " % k
        if r < 0.70:
            k = rng.randint(1, 3)
            items = [rng.choice(pool) for _ in range(k)]
            if rng.random() < 0.3:
                items.insert(rng.randint(0, len(items)), rng.choice(invalid))
            if utility != "function":
                return ",".join(items) if rng.random() < 0.8 else " , ".join(items)
            return items
        if r < 0.82:
            items = [rng.choice(invalid) for _ in range(rng.randint(1, 2))]      # all invalid (D7)
            if utility != "function":
                return ",".join(items)
            return items if rng.random() < 0.7 else items[0]
        if r < 0.88:
            return rng.choice([[], ""]) if utility == "function" else ""
        if r < 0.93:
            return "a,b" if utility == "function" else "a,,b"
        if r < 0.97 and utility == "function":
            return rng.choice([5, 0, {"a": 1}, 2.5, True])
        if utility == "function":
            return [rng.choice(pool), 7]
        return rng.choice(pool)

    r = rng.random()
    if r < 0.30:
        return None, None
    if r < 0.62:
        return one(), None
    if r < 0.92:
        return None, one()
    if r < 0.96:
        return one(), rng.choice([[], "", None]) if utility == "function" else one()
    return one(), one()
