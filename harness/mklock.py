"""Record fingerprints of the anchored functions of every built property (anchors.lock.json)."""
import importlib, json, os, sys
sys.path.insert(0, os.path.dirname(os.path.abspath(__file__)))
import vcommon
lock = {}
for i in range(1, 21):
    try:
        m = importlib.import_module("c%02d" % i)
    except ModuleNotFoundError:
        continue
    lock[m.PROP.id] = vcommon.fingerprint(m.PROP.anchors)
json.dump(lock, open(os.path.join(vcommon.VERIF, "anchors.lock.json"), "w"), indent=1, sort_keys=True)
print({k: len(v) for k, v in lock.items()})
