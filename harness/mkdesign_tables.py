"""
Refresh the generated tables of DESIGN.md (between <!-- AUTOGEN:name --> ... <!-- /AUTOGEN:name --> markers):
  inventory  — per property: Lean modules, audited theorems (from harness/cNN.py)
  findings   — known_findings/*.json (fixed with commit / listed findings)
  seeds      — seeded/*/meta.json + seeded/RESULTS.json (written by selftest runs recorded with --record)
"""
import glob, importlib, json, os, re, subprocess, sys
HERE = os.path.dirname(os.path.abspath(__file__))
VERIF = os.path.dirname(HERE)
sys.path.insert(0, HERE)


def inventory():
    rows = ["| property | Lean modules | driver | audited theorems |", "|---|---|---|---|"]
    for i in range(1, 21):
        pid = "C%02d" % i
        try:
            P = importlib.import_module(pid.lower()).PROP
        except Exception as e:
            rows.append(f"| {pid} | (harness not importable: {e}) | | |")
            continue
        ths = [t.split(".")[-1] if t.split(".")[-2:-1] != ["Witness"] else "Witness." + t.split(".")[-1] for t in P.theorems]
        rows.append(f"| {pid} | {', '.join('`'+m+'`' for m in P.lean_modules)} | `Driver/{P.driver}.lean` | {len(ths)}: "
                    + ", ".join("`" + t + "`" for t in ths) + " |")
    return "\n".join(rows)


def findings():
    log = subprocess.run(["git", "-C", "/repo", "log", "--format=%h %s"], capture_output=True, text=True).stdout.splitlines()
    subj = {l.split(" ", 1)[0]: l.split(" ", 1)[1] for l in log if " " in l}
    fixed, listed = {}, []
    for p in sorted(glob.glob(os.path.join(VERIF, "known_findings", "*.json"))):
        for e in json.load(open(p)):
            what = re.sub(r"\s+", " ", e["what"]).replace("|", "\\|")
            if e.get("status") == "fixed":
                k = e.get("commit", "?")
                fixed.setdefault(k, dict(ids=[], props=[], what=what))
                fixed[k]["ids"].append(e["id"])
                fixed[k]["props"].append(e["property"])
            else:
                listed.append((e["property"], e["id"], what, e.get("family", "")))
    out = ["**Repaired in /repo (one `fix:` commit each; every witness is replayed on every run and must pass):**", "",
           "| commit | subject | ids (properties) | what failed |", "|---|---|---|---|"]
    order = [l.split(" ", 1)[0] for l in reversed(log)]
    for k in sorted(fixed, key=lambda c: order.index(c) if c in order else 999):
        v = fixed[k]
        ids = ", ".join(sorted(set(f"{i} ({p})" for i, p in zip(v["ids"], v["props"]))))
        out.append(f"| {k} | {subj.get(k, '?')} | {ids} | {v['what'][:220]} |")
    unref = [c for c in order if c in subj and subj[c].startswith("fix:") and c not in fixed]
    for c in unref:
        out.append(f"| {c} | {subj[c]} | (follow-up / shared repair, see the entry of the same family) | |")
    out += ["", "**Listed findings (printed as `KNOWN-FINDING`, matched by a narrow family predicate; anything else is a VIOLATION):**", "",
            "| property | id | what fails | family predicate |", "|---|---|---|---|"]
    for pr, i, w, f in listed:
        out.append(f"| {pr} | {i} | {w[:260]} | `{f}` |")
    return "\n".join(out)


def seeds():
    res = {}
    rp = os.path.join(VERIF, "seeded", "RESULTS.json")
    if os.path.exists(rp):
        res = json.load(open(rp))
    out = ["| seed | property | mechanism (from the author's meta.json) | needs to manifest | result of `./check` on the mutated tree |",
           "|---|---|---|---|---|"]
    for d in sorted(glob.glob(os.path.join(VERIF, "seeded", "C*"))):
        sid = os.path.basename(d)
        try:
            m = json.load(open(os.path.join(d, "meta.json")))
        except Exception:
            continue
        mech = re.sub(r"\s+", " ", str(m.get("mechanism") or m.get("summary") or ""))[:200].replace("|", "\\|")
        need = re.sub(r"\s+", " ", str(m.get("needs_to_manifest", "")))[:200].replace("|", "\\|")
        r = res.get(sid, {})
        rtxt = "; ".join(f"{k}: {v}" for k, v in r.items()) or "(not recorded)"
        out.append(f"| {sid} | {m.get('property')} | {mech} | {need} | {rtxt} |")
    return "\n".join(out)


def main():
    p = os.path.join(VERIF, "DESIGN.md")
    s = open(p).read()
    for name, fn in (("inventory", inventory), ("findings", findings), ("seeds", seeds)):
        a, b = f"<!-- AUTOGEN:{name} -->", f"<!-- /AUTOGEN:{name} -->"
        if a in s and b in s:
            s = s[:s.index(a) + len(a)] + "\n" + fn() + "\n" + s[s.index(b):]
    open(p, "w").write(s)
    print("DESIGN.md tables refreshed")


if __name__ == "__main__":
    main()
