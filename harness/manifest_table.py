CHECKS = {
 "C10": dict(
  text=("Lean 4 theorems over the model of FilePos/FileText slicing, _split_code_lines and the .statements "
        "normalisation: for every text and every well-placed list of node positions the pieces concatenate to the "
        "text (C10_lossless, C10_statements_lossless), no assertion/IndexError branch is reachable (C10_total), node "
        "pieces start at their node (C10_positions), every node owns exactly one piece in order (C10_one_node), "
        "non-leading nodeless pieces are whole comment/blank lines (C10_noncode), startpos+delta is the true "
        "position (Pos.add_true).  The model is tied to the code by a differential run (thousands of generated "
        "texts, an exhaustive small scope of line templates, stdlib/site-packages files) and a direct oracle "
        "(concatenation, ast.parse of every piece equals the statement, true positions, literal positions)."),
  note=("Trusted: Lean kernel + propext/Classical.choice/Quot.sound; hand-written model (lean/Pfb/Text.lean, "
        "lean/Pfb/C10/Model.lean) validated by correspondence only; CPython's parser for node positions, "
        "'parses to the same tree' and literal positions (oracle, not theorem); _annotate_ast_startpos is not "
        "modelled (its output is a model input recomputed independently from stdlib ast)."),
  technique="Lean 4 proof (induction over the node list, offset/extract algebra) + model/implementation differential check + CPython oracle",
 ),
}
NOT_APPLICABLE = {}
