"""C14 — Enabling and disabling the auto-importer is reversible and idempotent."""
from __future__ import annotations

import itertools
import json
import os

from vcommon import Prop, REPO, load_corpus
import gen_c14
from gen_c14 import OPS, F_OPS, fill_args, OBS_OPS, CELL_OPS, CELL_FORMS, INTERRUPT_OPS, INIT_OPS, PRE_OPS, LOAD_NOFD

# keys of the shell snapshot that are the importer's own handle, not a patched IPython attribute
HANDLES = {"app.auto_importer", "ip._auto_importer", "ip._pyflyby_dummy_app"}     # (the last: fixes/C14-H3.diff)
# keys IPython itself changes while running cells / completing / managing extensions
IPY_NOISE = {"Completer.matches", "extension_manager.loaded",
             "displayhook._", "displayhook.__", "displayhook.___"}      # the last results, when they are tuples / lists
# app traits that only say HOW the application was started (`--ext pyflyby`)
START_NOISE = {"app.traits.extra_extensions", "app.traits.extensions", "app.traits.argv", "app.traits.extra_args",
               # the order in which IPython registered its lazily created Magics objects for %config (no hook list;
               # looking up a magic's instance, as pyflyby's enable does, moves it forward)
               "ip.configurables"}
# the installed hook an observation op reaches (model side), and whether it needs pyflyby's AST transformer
OBS_HOOK = {"run_cell": "astVisit", "run_kbint": "astVisit", "run_sysexit": "astVisit", "pinfo": "ofind", "autocall": "ofind",
            "prun": "prun", "run_script": "safeExecfile", "complete": "globalMatches", "complete_attr": "attrMatches"}
VIA_AST = {"run_cell", "run_kbint", "run_sysexit"}
INTERRUPT_CLASS = {"run_kbint": "KeyboardInterrupt", "run_sysexit": "SystemExit"}
# Tree-dependent facts found by probes in C14._ensure_ref (the reference machine and the model ops depend on them):
#  sysexit_interrupts  _try_import lets SystemExit through (before 84ecc12 "an import that calls sys.exit() is a failed
#                      import"); after it such a cell is an ordinary failed import: NameError as in plain IPython, nothing demanded
#  embedded_fresh      embedded shells get a new importer per call (finding D3-embedded; repaired by fixes/C14-H3.diff)
#  load_atomic         load_ext with a sys.stderr without fileno() still records the extension (fixes/C14-H2.diff); on a tree
#                      where it does not (finding C14-H2) the model, which describes the atomic load, is not compared on
#                      histories that contain such a load: the oracle judges them
TREE = {"sysexit_interrupts": True, "embedded_fresh": True, "load_atomic": False}

JP_ORDER = [n for n, _ in gen_c14.JOINPOINTS]
# snapshot keys of the hook lists a third party may rebind / extend
LIST_KEYS = {"ip.traits.ast_transformers", "itm.cleanup_transforms", "ip.traits.input_transformers_post",
             "Completer.traits.custom_matchers"}


def has_foreign(ops):
    return any(o.startswith("f_") for o in ops)


class ForeignIds:
    """model ops of third-party steps; keeps track of which foreign entries are present (oldest first)"""

    def __init__(self):
        self.fast, self.fcl = [], []
        self.na, self.nc = 100, 200

    def map(self, op):
        if op == "f_rebind_ast":
            return [["foreign", "rebindAst"]]
        if op == "f_rebind_cleanup":
            return [["foreign", "rebindCleanup"]]
        if op == "f_add_ast":
            self.na += 1
            self.fast.append(self.na)
            return [["foreign", "addAst", self.na]]
        if op == "f_rm_ast":
            return [["foreign", "rmAst", self.fast.pop(0)] if self.fast else ["foreign", "other"]]
        if op == "f_filter_ast":
            out = [["foreign", "rmAst", n] for n in self.fast] + [["foreign", "rebindAst"]]
            self.fast = []
            return out
        if op == "f_add_cleanup":
            self.nc += 1
            self.fcl.append(self.nc)
            return [["foreign", "addCleanup", self.nc]]
        if op == "f_rm_cleanup":
            return [["foreign", "rmCleanup", self.fcl.pop(0)] if self.fcl else ["foreign", "other"]]
        if op == "f_clear_ast":
            self.fast = []
            return [["foreign", "clearAst"]]
        if op == "f_drop_pf_ast":
            return [["foreign", "dropPfAst"]]
        if op == "f_drop_pf_cleanup":
            return [["foreign", "dropPfCleanup"]]
        if op.startswith("f_"):
            return [["foreign", "other"]]
        raise ValueError(op)


def model_ops(cfg, ops):
    """(model ops, index of the last model op of each real op).  Config "preinit": ops of the application-level model
    (Pfb.Hooks.PreInit): enable/disable before `initialize` act on the application without a shell."""
    fail = 4 if cfg == "jedi" else None
    mops, marks = [], []
    fids = ForeignIds()
    db_ok = True
    inited = cfg != "preinit"
    for op in ops:
        if cfg == "embedded" and TREE["embedded_fresh"]:
            mops.append(["fresh"])
        if op in INIT_OPS:
            mops.append(["initialize", fail])
            inited = True
            if op == "initialize_ext":
                mops.append(["loadExt", fail])
        elif not inited and op in ("enable", "enable_again"):
            mops.append(["preEnable", op == "enable_again"])
        elif not inited and op == "disable":
            mops.append(["preDisable"])
        elif op == "enable":
            mops.append(["enable", False, fail])
        elif op == "enable_again":
            mops.append(["enable", True, fail])
        elif op == "disable":
            mops.append(["disable"])
        elif op in ("load_ext", LOAD_NOFD):
            mops.append(["loadExt", fail])
        elif op == "unload_ext":
            mops.append(["unloadExt"])
        elif op == "reload_ext":
            mops.append(["reloadExt", fail])
        elif op in OBS_OPS:
            # an interrupted import (KeyboardInterrupt / SystemExit is no `Exception`) is not an outcome of the model: the
            # hook's pyflyby part ends without an internal error, the state is that of `ok`
            mops.append(["invoke", OBS_HOOK[op], "ok" if db_ok else "dbLoad"])
        elif op in ("f_break_db", "f_fix_db"):
            db_ok = op == "f_fix_db"
            mops.append(["foreign", "other"])
        else:
            mops.extend(fids.map(op))
        marks.append(len(mops) - 1)
    return mops, marks


def case_key(case):
    return json.dumps({k: v for k, v in case.items() if not k.startswith("_")}, sort_keys=True)


# ----------------------------------------------------------------------------
# the property's two-state reference machine (plus IPython's "is the extension loaded" flag)
# ----------------------------------------------------------------------------

def ref_run(config, ops):
    """The property's reference machine: after each op (enabled, extension loaded, errored, pyflyby's AST
    transformer still in place, database readable, <auto-import expected for this cell/completion or None>,
    pending, initialised, <exception class an interrupted auto-import leaves as the cell's error, or None>).
    `jedi`: enable cannot succeed under that configuration.  An internal error (a cell or completion meeting a
    broken database while enabled) withdraws the importer and marks it errored; plain enable() then refuses,
    enable(even_if_previously_errored=True) / load_ext / reload_ext re-enable.
    `preinit`: the application is not initialised at first; an enable issued then is *pending* (nothing of a shell can
    be hooked yet) and takes effect when app.initialize() creates the shell, unless a disable came in between.
    A cell whose auto-import is interrupted by KeyboardInterrupt / SystemExit changes nothing: that is no internal error."""
    en, loaded, errored, intact, db_ok = False, False, False, True, True
    pend, inited = False, config != "preinit"
    out = []
    can = config != "jedi"

    def enable(even):
        nonlocal en, errored, intact, pend
        if en or pend:
            return
        if errored and not even:
            return
        if not inited:
            pend, errored = True, False
        elif can:
            en, errored, intact = True, False, True
        else:
            errored = True

    def load():
        nonlocal loaded
        if not loaded:
            loaded = True
            enable(True)

    for op in ops:
        auto = None
        intr = None
        if op == "enable":
            enable(False)
        elif op == "enable_again":
            enable(True)
        elif op == "disable":
            en = pend = False
        elif op in INIT_OPS:
            inited = True
            if pend:
                pend = False
                if can:
                    en, intact = True, True
                else:
                    errored = True
            if op == "initialize_ext":
                load()
        elif op in ("load_ext", LOAD_NOFD):
            load()
        elif op == "unload_ext":
            if loaded:
                loaded = False
                en = False
        elif op == "reload_ext":
            if loaded:
                en = False
            enable(True)
            loaded = True
        elif op == "f_break_db":
            db_ok = False
        elif op == "f_fix_db":
            db_ok = True
        elif op in ("f_clear_ast", "f_drop_pf_ast"):
            intact = False
        elif op in OBS_OPS:
            reach = en and (intact or op not in VIA_AST)     # pyflyby's hook for this kind of cell is reachable
            if op == "run_sysexit" and not TREE["sysexit_interrupts"]:
                pass        # a failed import: neither an auto-import nor an interrupt is demanded
            elif op in INTERRUPT_CLASS:
                intr = INTERRUPT_CLASS[op] if (reach and db_ok) else None
            else:
                auto = reach and db_ok
            if reach and not db_ok:
                en, errored = False, True          # internal error -> the importer withdraws
        out.append((en, loaded, errored, intact, db_ok, auto, pend, inited, intr))
    return out


def _val(diff0_t, key):
    """value of `key` at a step, given that step's diff against the fresh shell"""
    if key in diff0_t:
        return diff0_t[key][1]
    return "S0"


def _pf_tokens(tok):
    if tok is None:
        return []
    if tok[0] == "l":
        return [t for t in tok[1] if t[0] == "o" and t[2]]
    if tok[0] == "o" and tok[2]:
        return [tok]
    return []


class C14(Prop):
    id = "C14"
    driver = "C14"
    lean_modules = ["Pfb.C14.Props", "Pfb.C14.PreInitProps"]
    theorems = [
        "Pfb.C14.C14_reversible",
        "Pfb.C14.C14_reversible_partial",
        "Pfb.C14.C14_once",
        "Pfb.C14.C14_once_partial",
        "Pfb.C14.C14_no_residue",
        "Pfb.C14.C14_no_residue_partial",
        "Pfb.C14.C14_two_state",
        "Pfb.C14.C14_cell_behaviour",
        "Pfb.C14.C14_reversible_foreign",
        "Pfb.C14.C14_no_residue_foreign",
        "Pfb.C14.C14_once_foreign",
        "Pfb.Hooks.applyD_applyForeign",
        "Pfb.C14.C14_error_withdrawn_exits",
        "Pfb.C14.C14_recovers_after_removal",
        "Pfb.C14.D3_leak_unbounded",
        "Pfb.C14.D3_witness_not_reversible",
        "Pfb.C14.D3_witness_not_once",
        "Pfb.C14.embedded_witness_never_disabled",
        # round 4: histories that start before app.initialize() (Pfb.Hooks.PreInit)
        "Pfb.C14.PreInit_app_reversible",
        "Pfb.C14.PreInit_app_once",
        "Pfb.C14.PreInit_disabled_stays_disabled",
        "Pfb.C14.PreInit_shell_untouched",
        "Pfb.C14.PreInit_paths_agree",
        "Pfb.C14.runA_sh_st",
    ]
    anchors = [
        ("lib/python/pyflyby/_interactive.py", "AutoImporter.enable"),
        ("lib/python/pyflyby/_interactive.py", "AutoImporter.disable"),
        ("lib/python/pyflyby/_interactive.py", "AutoImporter._enable_internal"),
        ("lib/python/pyflyby/_interactive.py", "AutoImporter._continue_enable"),
        ("lib/python/pyflyby/_interactive.py", "AutoImporter._enable_initializer_hooks"),
        ("lib/python/pyflyby/_interactive.py", "AutoImporter._enable_shell_hooks"),
        ("lib/python/pyflyby/_interactive.py", "AutoImporter._enable_reset_hook"),
        ("lib/python/pyflyby/_interactive.py", "AutoImporter._enable_ofind_hook"),
        ("lib/python/pyflyby/_interactive.py", "AutoImporter._enable_ast_hook"),
        ("lib/python/pyflyby/_interactive.py", "AutoImporter._enable_prun_hook"),
        ("lib/python/pyflyby/_interactive.py", "AutoImporter._enable_completer_hooks"),
        ("lib/python/pyflyby/_interactive.py", "AutoImporter._enable_run_hook"),
        ("lib/python/pyflyby/_interactive.py", "AutoImporter._enable_debugger_hook"),
        ("lib/python/pyflyby/_interactive.py", "AutoImporter._safe_call"),
        ("lib/python/pyflyby/_interactive.py", "AutoImporter._advise"),
        ("lib/python/pyflyby/_interactive.py", "load_ipython_extension"),
        ("lib/python/pyflyby/_interactive.py", "unload_ipython_extension"),
        ("lib/python/pyflyby/_util.py", "Aspect.advise"),
        ("lib/python/pyflyby/_util.py", "Aspect.unadvise"),
    ]
    parallel = False             # the shells live in the lab's own processes
    BATCH = 400
    quick_cases = 400
    thorough_cases = 12000
    quick_deadline_s = 55
    thorough_deadline_s = 780
    rule = ("op sequences of length <= 6 over {enable, enable_again(=enable(even_if_previously_errored=True) via the shell), "
            "disable, load_ext, unload_ext, reload_ext, run_cell, complete} on a fresh real IPython 9 shell per sequence "
            "(forked from a pristine zygote): all sequences of length <= 3 and a sample of length 3-6 in quick, all of "
            "length <= 4 in thorough; plus the use_jedi=True and embedded-shell configurations; a case is non-trivial when "
            "the importer gets enabled at least once; distinct by (configuration, op sequence).  Round 2: third-party steps "
            "(rebind ip.ast_transformers / cleanup_transforms / input_transformers_post / custom_matchers to new list objects, "
            "append / remove / filter foreign transformers, set_hook) inserted anywhere: every (enable, f, [g,] disable) "
            "combination exhaustively and 1-3 random insertions in 45 % of the sampled sequences; compared step by step with "
            "the same third-party steps on a shell where pyflyby is never enabled.  Round 4: histories that start on the NOT yet "
            "initialised application (prefix over {enable, enable_again, disable}, then app.initialize() with or without `--ext "
            "pyflyby`, then ordinary ops; compared with the same application initialised without pyflyby); other ways of reading a "
            "known name (`name?`, autocall, %prun, %run, dotted completion); cells whose auto-import is interrupted by "
            "KeyboardInterrupt / SystemExit raised by the imported module")
    trusted_base = [
        "IPython 9.17 internals: ExtensionManager.load/unload/reload_extension, which attribute each hook lives in, "
        "list.remove (modelled, validated by the correspondence run only)",
        "the snapshot covers the instance dicts / trait values of the shell, completer, InteractiveTB, ExecutionMagics, "
        "the app, the magics tables, the events table, ip.hooks, the input transformer manager, Pdb.__init__, "
        "TerminalPdb.__init__ and SingletonConfigurable.instance; state held elsewhere would be missed",
    ]
    assumptions = [
        "the importer's own handles app.auto_importer / ip._auto_importer persist by design and are not 'patched attributes'",
        "load_ipython_extension's non-IPython side effects (faulthandler, signal handlers, builtins debug helpers) are outside the statement",
        "embedded shells (no application object) get a new AutoImporter per call: listed as a finding of that configuration",
    ]

    def __init__(self):
        self.lab = None
        self._planned = []
        self._cache = {}
        self._ref = {}
        self._variant = None

    # -- lab -------------------------------------------------------------------
    def setup(self, tier, rng):
        self.lab = gen_c14.Lab(REPO)
        self._planned = []
        self._cache = {}
        self._ref = {}
        self._variant = None

    def teardown(self):
        if self.lab is not None:
            self.lab.close()
            self.lab = None

    def _job(self, case, pf=True):
        cfg = case.get("config", "terminal")
        return dict(kind="c14", config=cfg, ops=fill_args(case["ops"]), pf=pf, shapes=cfg == "preinit")

    def _ensure_ref(self):
        """plain-IPython answers for every cell / completion the cases can contain (they do not depend on history)"""
        if self._ref:
            return
        for cfg in ("terminal",):
            ops = []
            for o in OBS_OPS:
                n = {"autocall": gen_c14.N_CALL, "run_kbint": gen_c14.N_INT, "run_sysexit": gen_c14.N_INT,
                     "complete": len(gen_c14.CMP)}.get(o, gen_c14.N_MODS)
                ops += fill_args([o] * n)
            # one shell per op kind: in plain IPython nothing gets bound, so the answers do not depend on the order
            jobs = [dict(kind="c14", config=cfg, ops=[x for x in ops if x[0] == o], pf=False) for o in OBS_OPS]
            for job, r in zip(jobs, self.lab.run(cfg, jobs)):
                if "lab_error" in r:
                    raise RuntimeError("reference run failed: " + str(r))
                for (op, arg), st in zip(job["ops"], r["steps"]):
                    self._ref[(op, arg)] = st
        # which variant of the code is this tree?  (does a plain enable;disable leave the reset transformer behind)
        r = self.lab.run("terminal", [dict(kind="c14", config="terminal", ops=fill_args(["enable", "disable"]))])[0]
        cl = r["steps"][-1]["mv"]["hl"]["input_transformers_cleanup"]
        self._variant = dict(resetDisabler=not any(e[0] == "pf" for e in cl))
        # does SystemExit raised by a known import end the cell (old trees) or count as a failed import?
        r = self.lab.run("terminal", [dict(kind="c14", config="terminal", ops=fill_args(["enable", "run_sysexit"]))])[0]
        TREE["sysexit_interrupts"] = r["steps"][-1]["cell"]["err"] == "SystemExit"
        # embedded shell: does a disable reach the importer that the enable before it used?
        r = self.lab.run("embedded", [dict(kind="c14", config="embedded", ops=fill_args(["enable", "disable"]))])[0]
        TREE["embedded_fresh"] = bool(r["steps"][-1]["mv"]["hl"]["ast_transformers"]
                                      and any(e[0] == "pf" for e in r["steps"][-1]["mv"]["hl"]["ast_transformers"]))
        r = self.lab.run("terminal", [dict(kind="c14", config="terminal", ops=fill_args([LOAD_NOFD]))])[0]
        TREE["load_atomic"] = bool(r["steps"][-1]["loaded"]) and not r["steps"][-1]["escaped"]
        self._variant.update(TREE)

    def _prefetch(self):
        self._ensure_ref()
        # one batch at a time, in planning order, so that the deadline of the framework can cut the run short
        uniq = {}
        while self._planned and len(uniq) < self.BATCH:
            c = self._planned.pop(0)
            if case_key(c) not in self._cache:
                uniq.setdefault(case_key(c), c)
        if not uniq:
            return
        keys = list(uniq)
        res = self.lab.run_mixed([self._job(uniq[k]) for k in keys])
        # histories with third-party steps: the same steps on a shell on which pyflyby is never enabled
        # ... and histories that start before app.initialize(): the same application initialised without pyflyby
        fk = [k for k in keys if has_foreign(uniq[k]["ops"]) or uniq[k].get("config") == "preinit"]
        fres = self.lab.run_mixed([self._job(uniq[k], pf=False) for k in fk])
        fmap = dict(zip(fk, fres))
        for k, r in zip(keys, res):
            if k in fmap and "lab_error" not in r:
                if "lab_error" in fmap[k]:
                    r = fmap[k]
                else:
                    r = dict(r, fref=[st.get("hlnames") for st in fmap[k]["steps"]])
                    if uniq[k].get("config") == "preinit":
                        r["pshape"] = [st.get("shape") for st in fmap[k]["steps"]]
            self._cache[k] = r

    # -- cases -----------------------------------------------------------------
    def _plan(self, case):
        self._planned.append(case)
        return case

    def exhaustive_cases(self, tier, rng):
        out = []
        general = []
        maxlen = 4 if tier == "thorough" else 3
        for n in range(1, maxlen + 1):
            for ops in itertools.product(OPS, repeat=n):
                general.append(dict(config="terminal", ops=list(ops)))
        # the other two configurations: a fixed set
        for cfg in ("jedi", "embedded"):
            for ops in (["enable", "run_cell", "disable", "run_cell"],
                        ["load_ext", "complete", "unload_ext", "complete"],
                        ["enable", "enable", "disable", "enable", "disable", "run_cell"],
                        ["enable_again", "reload_ext", "run_cell", "unload_ext", "run_cell"]):
                out.append(dict(config=cfg, ops=ops))
        # hunt 2: load_ext while sys.stderr has no fileno() (C14-H2); embedded shells through the extension manager (C14-H3)
        for ops in ([LOAD_NOFD, "unload_ext", "run_cell"], [LOAD_NOFD, "reload_ext", "unload_ext", "complete"],
                    ["enable", LOAD_NOFD, "disable", "run_cell"], [LOAD_NOFD, LOAD_NOFD, "unload_ext", "load_ext", "unload_ext"]):
            out.append(dict(config="terminal", ops=ops))
        for ops in (["load_ext", "reload_ext", "unload_ext", "run_cell", "reload_ext", "unload_ext"],
                    ["enable", "disable", "enable", "run_cell", "disable", "complete"]):
            out.append(dict(config="embedded", ops=ops))
        # third-party steps between (and around) enable and disable
        for f in F_OPS:
            for ops in (["enable", f, "disable", "run_cell"], [f, "enable", "run_cell", "disable"],
                        ["enable", f, "disable", "enable", "disable", "run_cell"], ["load_ext", f, "reload_ext", f, "unload_ext"]):
                out.append(dict(config="terminal", ops=ops))
        pairs = list(itertools.product(F_OPS[:8], repeat=2))
        if tier != "thorough":
            pairs = rng.sample(pairs, 24)
        for f, g in pairs:
            out.append(dict(config="terminal", ops=["enable", f, g, "disable", "run_cell"]))
            if tier == "thorough":
                out.append(dict(config="terminal", ops=[f, "enable", g, "disable", "complete"]))
                out.append(dict(config="terminal", ops=["enable", f, "disable", g, "enable", "run_cell"]))
        # round 3: the error-withdrawn state and its exits; third parties removing pyflyby's own entries
        for start in (["enable"], ["load_ext"]):
            for hit in ("run_cell", "complete"):
                for ex in (["enable"], ["enable_again"], ["load_ext"], ["reload_ext"], ["unload_ext", "load_ext"],
                           ["disable", "enable"], ["unload_ext", "enable"]):
                    out.append(dict(config="terminal", ops=start + ["f_break_db", hit, "f_fix_db"] + ex + ["run_cell", "complete"]))
                out.append(dict(config="terminal", ops=start + ["f_break_db", hit, "run_cell", "reload_ext", "run_cell", "f_fix_db",
                                                                "reload_ext", "run_cell"]))
        for rm in gen_c14.F_REMOVALS:
            for ops in (["enable", rm, "disable", "enable", "run_cell"], ["load_ext", rm, "unload_ext", "load_ext", "run_cell"],
                        ["enable", rm, "run_cell", "complete", "disable", "enable", "run_cell"],
                        ["enable", rm, "reload_ext", "run_cell"], ["enable", rm, "enable", "disable", "disable", "enable_again", "run_cell"]):
                out.append(dict(config="terminal", ops=ops))
        # round 4: every way of reading a known name (pinfo, autocall, %prun, %run, dotted completion) on / off / after an
        # internal error; cells whose auto-import is interrupted by KeyboardInterrupt / SystemExit (no internal error:
        # the importer must still be on for the next cell)
        for c in CELL_FORMS:
            for ops in (["enable", c, "disable", c], [c, "load_ext", c, "unload_ext", c], ["enable", c, c, "reload_ext", c],
                        ["enable", "f_break_db", c, "f_fix_db", "run_cell", "enable_again", c],
                        ["enable", "f_clear_ast", c, "run_cell", "disable", c]):
                out.append(dict(config="terminal", ops=ops))
        for c in INTERRUPT_OPS:
            for d in ["run_cell"] + (CELL_FORMS if tier == "thorough" else ["pinfo", "complete_attr"]):
                out.append(dict(config="terminal", ops=["enable", c, d, "enable", "disable", d]))
            for ops in (["load_ext", c, c, "run_cell", "unload_ext", c], [c, "enable", "run_cell", c, "run_cell", "complete"],
                        ["enable", c, "disable", "enable", "run_cell"], ["enable", "f_break_db", c, "f_fix_db", "enable", "run_cell"],
                        ["enable", c, "enable_again", c, "reload_ext", "run_cell", c, "run_cell"]):
                out.append(dict(config="terminal", ops=ops))
        # round 4: enable / disable on an application that is not initialised yet, then app.initialize()
        pres = [[]] + [[a] for a in PRE_OPS] + [[a, b] for a in PRE_OPS for b in PRE_OPS]
        if tier == "thorough":
            pres += [[a, b, c] for a in PRE_OPS for b in PRE_OPS for c in PRE_OPS]
        else:
            pres += [["enable", "disable", "enable"], ["enable", "disable", "disable"], ["enable_again", "disable", "enable_again"]]
        posts = [["run_cell", "enable", "run_cell", "disable", "run_cell"], ["disable", "run_cell", "enable", "run_cell", "disable"],
                 ["run_cell", "load_ext", "complete", "unload_ext", "run_cell"], ["pinfo", "reload_ext", "run_cell", "disable", "enable", "run_cell"]]
        for pre in pres:
            for j, post in enumerate(posts):
                out.append(dict(config="preinit", ops=pre + [INIT_OPS[(j + len(pre)) % 2]] + post))
        out += general          # targeted sets first: a deadline cut drops general sequences, not these
        for c in load_corpus(self.id):
            self._plan(c)
        return [self._plan(c) for c in out]

    def gen_case(self, rng, i, tier):
        r = rng.random()
        if r < 0.12:
            return self._plan(dict(config="preinit", ops=gen_c14.gen_preinit(rng)))
        r = (r - 0.12) / 0.88
        cfg = "terminal" if r < 0.9 else ("jedi" if r < 0.95 else "embedded")
        if tier == "thorough":
            ops = gen_c14.gen_ops(rng, 6)
            while len(ops) < 5:
                ops = gen_c14.gen_ops(rng, 6)
        else:
            ops = gen_c14.gen_ops(rng, 6)
            while len(ops) < 3:
                ops = gen_c14.gen_ops(rng, 6)
        r2 = rng.random()
        if cfg != "embedded" and r2 < 0.35:
            ops = gen_c14.add_foreign(rng, ops)
        elif cfg == "terminal" and r2 < 0.6:
            ops = gen_c14.add_errors_and_removals(rng, ops)
        if cfg == "terminal" and rng.random() < 0.6:
            ops = gen_c14.vary_cells(rng, ops)
        if cfg == "terminal":
            ops = gen_c14.vary_loads(rng, ops)
        return self._plan(dict(config=cfg, ops=ops))

    # -- implementation ----------------------------------------------------------
    def run_impl(self, case):
        if self.lab is None:            # replay / known-finding path without setup
            self.setup("quick", None)
        k = case_key(case)
        if k not in self._cache:
            self._planned.insert(0, case)
            self._prefetch()
        obs = self._cache[k]
        if "lab_error" in obs:
            raise RuntimeError("lab: " + obs["lab_error"] + " " + obs.get("tb", "")[-300:])
        return obs

    # -- oracle ------------------------------------------------------------------
    def oracle(self, case, obs):
        fails = []
        cfg = case.get("config", "terminal")
        ops = case["ops"]
        steps = obs["steps"]
        ref = ref_run(cfg, ops)
        args = fill_args(ops)
        pshape = obs.get("pshape")

        def F(what, i, **kw):
            fails.append(dict(what=what, step=i, op=ops[i] if i is not None else None, config=cfg, ops=ops, **kw))

        enable_points = []      # (index of the enabling step, patched keys)
        n_pf_enabled = None
        for i, st in enumerate(steps):
            en_before = ref[i - 1][0] if i else False
            en_after = ref[i][0]
            pend_before = ref[i - 1][6] if i else False
            pend_after = ref[i][6]
            on_before, on_after = en_before or pend_before, en_after or pend_after
            diff0 = st["diff0"]
            if st["escaped"]:
                F("an exception escaped a public entry point", i, escaped=st["escaped"])
            changed = {k: v for k, v in st["changed"].items() if k not in HANDLES and k not in IPY_NOISE}
            # --- idempotence: an op the reference machine calls a no-op changes nothing
            if ops[i] in ("enable", "enable_again", "disable", "load_ext", LOAD_NOFD, "unload_ext") \
                    and (en_before, pend_before) == (en_after, pend_after) and changed:
                F("an op that does not change the enabled state changed patched attributes", i,
                  keys=sorted(changed)[:6])
            if ops[i] in OBS_OPS and changed and not (en_before and not en_after):
                plain = self._ref.get((ops[i], args[i][1]))
                noise = set(plain["changed"]) if plain is not None and ops[i] not in ("run_cell", "complete") else set()
                if set(changed) - noise:        # (what IPython itself rebinds when it runs this kind of cell is no finding)
                    F("running a cell / completing changed hook attributes", i, keys=sorted(set(changed) - noise)[:6])
            # --- exactly once
            for name, v in list(st["mv"]["jp"].items()) + [("app." + k, v) for k, v in st["mv"].get("ajp", {}).items()]:
                if isinstance(v, list) and v[0] == "adv" and v[1] > 1:
                    F("a joinpoint carries more than one pyflyby advice", i, joinpoint=name, depth=v[1])
            for key, (a, b) in diff0.items():
                if b is not None and b[0] == "l":
                    n = len(_pf_tokens(b))
                    if n > 1:
                        F("a hook list holds more than one pyflyby entry", i, key=key, count=n,
                          names=sorted({t[3] for t in _pf_tokens(b)}))
            # --- no accumulating residue outside the shell either: pyflyby's import finder (sys.meta_path) at most once
            if st.get("n_meta_finders", 0) > 1:
                F("sys.meta_path holds more than one pyflyby finder", i, count=st["n_meta_finders"],
                  loads=sum(1 for o in ops[:i + 1] if o in ("load_ext", LOAD_NOFD, "reload_ext", "initialize_ext")))
            # --- third-party entries survive, untouched and in order, at every step
            fref = obs.get("fref")
            if fref is not None and fref[i] is not None:
                for lname, want in fref[i].items():
                    got = [n for n in st["hlnames"][lname] if n != "PF"]
                    if got != want:
                        F("the non-pyflyby entries of a hook list differ from the run without pyflyby", i, list=lname,
                          got=got[-6:], want=want[-6:])
            # --- reversibility
            if not on_before and on_after:
                enable_points.append((i, sorted(changed)))
            if on_before and not on_after and enable_points:
                k, patched = enable_points[-1]
                pre = steps[k - 1]["diff0"] if k else {}
                foreign_between = any(o.startswith("f_") for o in ops[k + 1:i])
                for key in patched:
                    if foreign_between and key in LIST_KEYS:
                        continue        # third parties changed the list meanwhile: compared with `fref` above and
                                        # by the residue check below instead of with its pre-enable identity
                    if _val(diff0, key) != _val(pre, key):
                        F("after disable a patched attribute is not back to its pre-enable value", i, key=key,
                          enabled_at=k, now=_short(_val(diff0, key)), pre=_short(_val(pre, key)))
            # --- no residue
            pf_now = []
            for key, (a, b) in diff0.items():
                if key in HANDLES:
                    continue
                pf_now.extend((key, t[3]) for t in _pf_tokens(b))
            if not on_after:
                if pf_now:
                    F("pyflyby objects remain in the shell while the importer is disabled", i,
                      residue=sorted(set(pf_now))[:6], count=len(pf_now))
                imp = st.get("importer")
                if imp is not None and cfg != "embedded":
                    if imp["state"] != "DISABLED" or imp["ndisablers"] != 0:
                        F("importer not DISABLED / disablers left while the reference machine is disabled", i, importer=imp)
                # a history that started before app.initialize(): while off, the application and its shell look exactly like
                # those of the same application initialised without pyflyby (kinds and names of every callable / hook list)
                if pshape is not None and pshape[i] is not None and st.get("shape") is not None:
                    skip = HANDLES | IPY_NOISE | START_NOISE
                    a, b = st["shape"], pshape[i]
                    bad = sorted(k for k in set(a) | set(b) if k not in skip and a.get(k) != b.get(k))
                    if bad:
                        F("while disabled the application differs from one initialised without pyflyby", i, keys=bad[:6],
                          got=_short([a.get(k) for k in bad[:3]]), want=_short([b.get(k) for k in bad[:3]]))
            else:
                import collections
                imp = st.get("importer")
                want_state = "ENABLED" if en_after else "ENABLING"
                if imp is not None and imp["state"] != want_state:
                    F("importer not %s while the reference machine is %s" % (want_state, "enabled" if en_after else "pending (enabled "
                      "before app.initialize())"), i, importer=imp)
                # the app-level advice exists only in a cycle that started before app.initialize()
                cnt = collections.Counter(x for x in pf_now if not x[0].startswith("app."))
                if not en_after:
                    pass            # pending: nothing of a shell is hooked yet
                elif not ref[i][3] or "f_drop_pf_cleanup" in ops[:i + 1]:
                    pass            # a third party took pyflyby's own entries away: nothing to count
                elif n_pf_enabled is None:
                    n_pf_enabled = cnt
                elif cnt != n_pf_enabled:
                    excess = sorted(set((cnt - n_pf_enabled) + (n_pf_enabled - cnt)))
                    F("the number of pyflyby objects installed while enabled changed between cycles", i,
                      first=sum(n_pf_enabled.values()), now=len(pf_now), residue=excess[:8])
            # --- two-state behaviour (with the error-withdrawn state and third-party removals, see ref_run)
            auto, intr = ref[i][5], ref[i][8]
            op = ops[i]
            if op in CELL_OPS:
                c = st["cell"]
                name = args[i][1]
                k = int(name.rsplit("_", 1)[1])
                if intr:
                    # the auto-import was interrupted: the cell ends with that exception; everything else (importer still
                    # on, hooks in place, the next cell auto-imports) is demanded by the per-step clauses above / below
                    if c["err"] != intr or c["bound_after"]:
                        F("enabled, but the interrupted auto-import did not end the cell with the interrupt", i, cell=c, want=intr)
                elif auto:
                    ok = not c["err"] and not c["err_before"] and c["bound_after"]
                    if op == "run_cell":
                        ok = ok and c["result"] == str(1000 + k)
                    elif op == "autocall":
                        ok = ok and c["result"] == repr((3000 + k, (7,)))
                    elif op == "pinfo":
                        ok = ok and "not found" not in st["stdout"]
                    elif op == "run_script":
                        ok = ok and ("script %d ran" % k) in st["stdout"]
                    if not ok:
                        F("enabled, but a cell reading a known name was not auto-imported", i, cell=c, stdout=st["stdout"][-200:])
                elif op == "run_cell" or not en_before:
                    r = self._ref.get((op, name))
                    if r is not None:
                        rc = r["cell"]
                        if (c["err"], c["errmsg"], c["result"], c["bound_after"], c["err_before"]) != \
                                (rc["err"], rc["errmsg"], rc["result"], rc["bound_after"], rc["err_before"]) \
                                or st["stdout"] != r["stdout"] or st["stderr"] != r["stderr"]:
                            F("disabled, but the cell does not fail exactly as in plain IPython", i, cell=c, plain=rc,
                              stdout=st["stdout"][-200:], plain_stdout=r["stdout"][-200:])
            if op in ("complete", "complete_attr"):
                c = st["complete"]
                if auto:
                    if not c["has"]:
                        F("enabled, but completion does not offer the known name", i, complete=c)
                elif not en_before:
                    r = self._ref.get((op, args[i][1]))
                    if r is not None and c["matches"] != r["complete"]["matches"]:
                        F("disabled, but completion differs from plain IPython", i, complete=c, plain=r["complete"]["matches"])
        return fails[:6]

    # -- model -------------------------------------------------------------------
    def model_requests(self, case, obs):
        self._ensure_ref()
        mops, marks = model_ops(case.get("config", "terminal"), case["ops"])
        mcfg = dict(resetDisabler=self._variant["resetDisabler"], debugHookSafe=False, redisplayGuard=False, debug=False)
        return [dict(op="traceApp" if case.get("config") == "preinit" else "trace", cfg=mcfg, ops=mops, marks=marks)]

    def compare(self, case, obs, resps):
        cfg = case.get("config", "terminal")
        if LOAD_NOFD in case["ops"] and not TREE["load_atomic"]:
            return None         # see TREE["load_atomic"]
        _, marks = model_ops(cfg, case["ops"])
        msteps = [resps[0]["steps"][k] for k in marks]
        isteps = obs["steps"]
        if len(msteps) != len(isteps):
            return f"trace length impl={len(isteps)} model={len(msteps)}"
        ren_i, ren_m = {}, {}

        def ri(x):
            return ren_i.setdefault(x, len(ren_i))

        def rm(x):
            return ren_m.setdefault(x, len(ren_m))

        for i, (a, m) in enumerate(zip(isteps, msteps)):
            op = case["ops"][i]
            # importer fields (an embedded shell has no persistent importer to look at)
            if cfg != "embedded":
                imp = a["importer"]
                got = None if imp is None else (imp["state"], imp["errored"], imp["ndisablers"], imp["ast"])
                want = (m["state"], m["errored"], m["ndis"], m["astT"])
                if imp is None:
                    if want != ("DISABLED", False, 0, False):
                        return f"step {i} {op}: no importer object yet, model={want}"
                elif got != want:
                    return f"step {i} {op}: importer impl={got} model={want}"
                if not m["refok"]:
                    return f"step {i} {op}: model state does not refine the reference machine"
                if "ajp" in m:      # application-level model: the two attributes advised before app.initialize()
                    ga = [a["mv"]["ajp"][n] if a["mv"]["ajp"][n] == "unset" else (a["mv"]["ajp"][n][0], a["mv"]["ajp"][n][1])
                          for n in gen_c14.APP_JOINPOINTS]
                    wa = ["unset" if v[2] == "unset" else (v[2], v[0]) for v in m["ajp"]]
                    if ga != wa:
                        return f"step {i} {op}: application joinpoints impl={ga} model={wa}"
                    r9 = ref_run(cfg, case["ops"])[i]
                    if (m["state"] == "ENABLED", m["pending"]) != (r9[0], r9[6]):
                        return f"step {i} {op}: model state {m['state']} vs reference machine enabled={r9[0]} pending={r9[6]}"
            if a["loaded"] != m["loaded"]:
                return f"step {i} {op}: loaded impl={a['loaded']} model={m['loaded']}"
            # joinpoints
            gj, wj = [], []
            for name, mv in zip(JP_ORDER, m["jp"]):
                v = a["mv"]["jp"][name]
                if v == "unset":
                    gj.append(("unset", 0, None))
                elif v[0] == "ext":
                    gj.append(("ext", 0, None))
                else:
                    gj.append(("adv", v[1], ri(("o", v[2][0]))))
                wj.append((mv[2], mv[0], rm(("o", mv[1])) if mv[1] is not None else None))
            if gj != wj:
                return f"step {i} {op}: joinpoints impl={gj} model={wj}"
            for lname, mkey in (("ast_transformers", "ast"), ("input_transformers_cleanup", "cleanup")):
                if a["mv"]["hlobj"][lname] is None:
                    continue        # before app.initialize(): there is no shell whose lists could be compared
                gl = [(e[0], ri((e[0], e[1]))) for e in a["mv"]["hl"][lname]]
                wl = [(e[0], rm((e[0], e[1]))) for e in m[mkey]]
                if gl != wl:
                    return f"step {i} {op}: {lname} impl={gl} model={wl}"
                # a third-party step rebinds the list object exactly when the model says so (pyflyby's own steps may or
                # may not rebind: only the content bound at the end matters)
                if op.startswith("f_") and i > 0:
                    gch = a["mv"]["hlobj"][lname] != isteps[i - 1]["mv"]["hlobj"][lname]
                    wch = m[mkey + "Obj"] != msteps[i - 1][mkey + "Obj"]
                    if gch != wch:
                        return f"step {i} {op}: {lname} rebound to a new list object impl={gch} model={wch}"
            if op == "run_cell":
                auto = a["cell"]["err"] is None and a["cell"]["bound_after"]
                broken = not ref_run(cfg, case["ops"])[i][4]
                if auto != m["auto"] or (not broken and m["work"] != auto):
                    return f"step {i} run_cell: auto-imported impl={auto} model auto={m['auto']} work={m['work']}"
            elif op in CELL_FORMS[:4]:
                # the other hooks: pyflyby's part ran (and imported) iff the model says the hook was installed and worked
                auto = a["cell"]["err"] is None and a["cell"]["err_before"] is None and a["cell"]["bound_after"]
                broken = not ref_run(cfg, case["ops"])[i][4]
                if not broken and bool(m["work"]) != auto:
                    return f"step {i} {op}: auto-imported impl={auto} model work={m['work']}"
            elif op in INTERRUPT_OPS and (op != "run_sysexit" or TREE["sysexit_interrupts"]):
                broken = not ref_run(cfg, case["ops"])[i][4]
                hit = a["cell"]["err"] == INTERRUPT_CLASS[op]
                if not broken and hit != (m["auto"] and bool(m["work"])):
                    return f"step {i} {op}: interrupted impl={hit} model auto={m['auto']} work={m['work']}"
            if op in ("complete", "complete_attr"):
                has = a["complete"]["has"]
                if has != (m["delivered"] == "pyflyby"):
                    return f"step {i} {op}: known name offered impl={has} model delivered={m['delivered']}"
        return None

    # -- bookkeeping ---------------------------------------------------------------
    def nontrivial_key(self, case, obs):
        if any(t[0] for t in ref_run(case.get("config", "terminal"), case["ops"])) or case.get("config") != "terminal":
            return (case.get("config", "terminal"), tuple(case["ops"]))
        return None

    def sample_repr(self, case, obs):
        return dict(config=case.get("config"), ops=case["ops"],
                    states=[(s.get("importer") or {}).get("state") for s in obs["steps"]],
                    cleanup_len=[len(s["mv"]["hl"]["input_transformers_cleanup"]) for s in obs["steps"]])

    def stats(self, case, obs, acc):
        def inc(k):
            acc[k] = acc.get(k, 0) + 1
        inc("cases_from_" + case.get("_src", "?"))
        inc("config_" + case.get("config", "terminal"))
        inc("len_%d" % len(case["ops"]))
        for op in case["ops"]:
            inc("op_" + op)
        rr = ref_run(case.get("config", "terminal"), case["ops"])
        cyc = sum(1 for a, b in zip([(False,)] + rr, rr) if not a[0] and b[0])
        if any(t[2] for t in rr):
            inc("cases_with_error_withdrawal")
        if any(not t[3] for t in rr):
            inc("cases_with_third_party_removal")
        if any(o.startswith("f_") for o in case["ops"]):
            inc("cases_with_third_party_steps")
        inc("enable_transitions_%d" % min(cyc, 3))

    # -- known-finding families ------------------------------------------------------
    @staticmethod
    def fam_d3(case, failure):
        """D3: only input_transformers_cleanup is affected and only by reset_auto_importer_state entries."""
        if case.get("config") == "embedded":
            return False
        w = failure.get("what", "")
        if w == "a hook list holds more than one pyflyby entry":
            return failure.get("key") == "itm.cleanup_transforms" and failure.get("names") == ["reset_auto_importer_state"]
        if w == "after disable a patched attribute is not back to its pre-enable value":
            return failure.get("key") == "itm.cleanup_transforms"
        if w in ("pyflyby objects remain in the shell while the importer is disabled",
                 "the number of pyflyby objects installed while enabled changed between cycles"):
            return all(list(r) == ["itm.cleanup_transforms", "reset_auto_importer_state"] for r in failure.get("residue", [None]))
        if w == "an op that does not change the enabled state changed patched attributes":
            # a failed enable attempt (use_jedi=True) leaks the same entry
            return case.get("config") == "jedi" and failure.get("keys") == ["itm.cleanup_transforms"]
        return False

    @staticmethod
    def fam_embedded(case, failure):
        """embedded shell: every call reaches a new importer, so nothing is ever undone and the two hook lists grow;
        joinpoints still carry exactly one wrapper (once=True) and no call raises"""
        if case.get("config") != "embedded":
            return False
        w = failure.get("what", "")
        if w in ("a joinpoint carries more than one pyflyby advice", "an exception escaped a public entry point",
                 "running a cell / completing changed hook attributes",
                 "enabled, but a cell reading a known name was not auto-imported",
                 "enabled, but completion does not offer the known name"):
            return False
        if w == "a hook list holds more than one pyflyby entry":
            return failure.get("key") in ("itm.cleanup_transforms", "ip.traits.ast_transformers")
        if w == "an op that does not change the enabled state changed patched attributes":
            return set(failure.get("keys", [])) <= {"itm.cleanup_transforms", "ip.traits.ast_transformers"}
        return True

    @staticmethod
    def fam_meta_path(case, failure):
        """C14-H1: one more DictFinder per executed load_ipython_extension, never more than that"""
        return failure.get("what") == "sys.meta_path holds more than one pyflyby finder" \
            and 1 < failure.get("count", 0) <= failure.get("loads", 0)

    @staticmethod
    def fam_load_not_atomic(case, failure):
        """C14-H2: load_ext while sys.stderr has no fileno(): load_ipython_extension raises after enabling; IPython does not
        record the extension, so from that step on `loaded` (and what unload/reload do) is off.  Only failures at or after
        such a step, never wrapper depth / hook-list multiplicity."""
        ops = case.get("ops", [])
        if LOAD_NOFD not in ops or case.get("config") not in (None, "terminal"):
            return False
        first = ops.index(LOAD_NOFD)
        if failure.get("step") is None or failure["step"] < first:
            return False
        w = failure.get("what", "")
        if w == "an exception escaped a public entry point":
            return failure.get("op") == LOAD_NOFD and "fileno" in (failure.get("escaped") or "")
        return w in ("importer not DISABLED / disablers left while the reference machine is disabled",
                     "pyflyby objects remain in the shell while the importer is disabled",
                     "after disable a patched attribute is not back to its pre-enable value",
                     "disabled, but the cell does not fail exactly as in plain IPython",
                     "disabled, but completion differs from plain IPython",
                     "an op that does not change the enabled state changed patched attributes",
                     "importer not ENABLED while the reference machine is enabled",
                     "enabled, but a cell reading a known name was not auto-imported",
                     "enabled, but completion does not offer the known name")

    families = {"D3_reset_hook_leak": fam_d3.__func__, "embedded_new_importer_per_call": fam_embedded.__func__,
                "meta_path_finder_per_load": fam_meta_path.__func__, "load_ext_not_atomic": fam_load_not_atomic.__func__}


def _short(tok):
    s = json.dumps(tok)
    return s if len(s) < 300 else s[:300] + "…"


PROP = C14()
