"""
gen_c06 — shared machinery of the C06 / C07 checks (auto-import state machine).

* generators: synthetic import universe (packages, submodules, members, modules whose import raises,
  modules that rebind an attribute of another module or replace a sys.modules entry), import databases
  (unique / ambiguous / missing entries, dotted entries, aliases, forget directives), code snippets,
  namespace stacks, call sequences sharing one `autoimported` map.
* `run_history(case)`: materialises the universe in a scratch directory, runs the real pyflyby
  (`auto_import`, `auto_import_symbol`, `_try_import`) with a recording `builtins.__import__` wrapper and a
  recording `sys.meta_path` finder, snapshots every namespace BY IDENTITY before / after every call and
  at every import attempt, and asks a forked child (same memory image, so `is` is meaningful) what every
  candidate import statement yields and whether the code runs.
* `AutoImpBase`: the `Prop` subclass shared by harness/c06.py and harness/c07.py (model requests, compare).

Every random choice comes from the `rng` passed in.  Nothing here imports the Lean side.
"""
from __future__ import annotations

import ast
import builtins
import importlib
import json
import os
import shutil
import sys
import tempfile
import types

from vcommon import Prop

TOPS = ["vqa", "vqb", "vqc", "vqd"]
SUBS = ["s1", "s2", "s3"]
SUBSUBS = ["t1", "t2"]
MEMS = ["f", "g", "h"]
ALIASES = ["al1", "al2"]
UNKNOWN = ["vqzz", "vqyy"]
NOSUCH = "nosuch"
SIBLINGS = [t + "x" for t in TOPS]      # top-level modules whose names merely START WITH another module's name
LOCALS = ["lv1", "lv2", "lv3"]          # names only ever bound by the analysed code itself (never in a database)
ALLNAMES = set(TOPS + SIBLINGS + SUBS + SUBSUBS + MEMS + ALIASES + UNKNOWN + LOCALS + [NOSUCH, "zz", "yy"])


# ----------------------------------------------------------------------------
# generators
# ----------------------------------------------------------------------------

def gen_universe(rng):
    """list of module specs: path, pkg, raises (None|'early'|'late'|'syntax'), members, effects"""
    mods = []
    ntop = rng.choice([1, 2, 2, 3, 3, 4])
    neff = [0]

    def mk(path, pkg, depth):
        m = dict(path=path, pkg=pkg, raises=None, members=[], effects=[])
        r = rng.random()
        if r < 0.19:
            # "exit" / "exit_early": the module calls sys.exit() (SystemExit is not an Exception subclass)
            m["raises"] = rng.choice(["early", "late", "late", "syntax", "exit", "exit", "exit_early"])
        pool = MEMS + ([rng.choice(SUBS)] if pkg and rng.random() < 0.25 else [])
        for nm in pool:
            if rng.random() < 0.45:
                m["members"].append(nm)
        mods.append(m)
        if pkg:
            names = SUBS if depth == 0 else SUBSUBS
            for s in names:
                if rng.random() < (0.6 if depth == 0 else 0.5):
                    mk(path + "." + s, depth == 0 and rng.random() < 0.35, depth + 1)
        return m

    for t in TOPS[:ntop]:
        mk(t, rng.random() < 0.75, 0)
        if rng.random() < 0.2:
            # a sibling whose name shares a character prefix with `t` (vqa / vqax): not a submodule of it
            sib = mk(t + "x", rng.random() < 0.3, 1)
            sib["members"] = sorted(set(sib["members"]) | {rng.choice(MEMS)})
    paths = [m["path"] for m in mods]
    for m in mods:
        if rng.random() < 0.12:
            neff[0] += 1
            tgt = rng.choice(paths)
            if rng.random() < 0.6:
                m["effects"].append(dict(k="setattr", target=tgt, attr=rng.choice(SUBS + MEMS), tag="ef%d" % neff[0]))
            else:
                m["effects"].append(dict(k="sysmod", target=tgt, tag="px%d" % neff[0]))
        if rng.random() < 0.05:
            # a member that IS a registered module (`from m import x` then yields sys.modules[...])
            src = rng.choice(paths)
            m["effects"].append(dict(k="alias", attr=rng.choice([src.split(".")[0], src.split(".")[-1]]), src=src))
    return mods


def _children(uni, path):
    pre = path + "."
    return [m["path"] for m in uni if m["path"].startswith(pre) and "." not in m["path"][len(pre):]]


def dotted_pool(rng, uni, db_aliases):
    """dotted names a snippet may read"""
    pool = []
    paths = [m["path"] for m in uni]
    for m in uni:
        p = m["path"]
        pool.append(p)
        for mem in m["members"]:
            pool.append(p + "." + mem)
            if rng.random() < 0.3:
                pool.append(p + "." + mem + ".zz")
        pool.append(p + "." + NOSUCH)
        if rng.random() < 0.3:
            pool.append(p + "." + NOSUCH + ".yy")
        if rng.random() < 0.3:
            pool.append(p + "." + rng.choice(MEMS))
    for t in TOPS:
        if t not in paths and rng.random() < 0.5:
            pool.append(t)
            pool.append(t + "." + rng.choice(SUBS))
    pool += MEMS
    pool += [a for a in db_aliases]
    pool += [a + "." + rng.choice(["zz", "f", "s1"]) for a in db_aliases]
    pool += [m + ".zz" for m in MEMS]
    pool += UNKNOWN + [UNKNOWN[0] + ".zz", UNKNOWN[1] + ".s1.f"]
    return pool


def gen_db(rng, uni):
    paths = [m["path"] for m in uni]
    lines = []
    n = rng.choice([0, 1, 2, 3, 3, 4, 5, 6, 7])
    for _ in range(n):
        r = rng.random()
        m = rng.choice(uni)
        p = m["path"]
        if r < 0.30:
            q = p if rng.random() < 0.8 else rng.choice([p + "." + NOSUCH, UNKNOWN[0], rng.choice(TOPS)])
            lines.append("import " + q)
        elif r < 0.60:
            cands = m["members"] + [c.rsplit(".", 1)[1] for c in _children(uni, p)] + [NOSUCH] + MEMS[:1]
            lines.append("from %s import %s" % (p, rng.choice(cands)))
        elif r < 0.80:
            cands = m["members"] + [c.rsplit(".", 1)[1] for c in _children(uni, p)] + [NOSUCH]
            al = rng.choice(ALIASES + ALIASES + MEMS + TOPS[:2])
            lines.append("from %s import %s as %s" % (p, rng.choice(cands), al))
        else:
            al = rng.choice(ALIASES + ALIASES + TOPS[:2] + MEMS[:1])
            if "." in p:
                a, b = p.rsplit(".", 1)
                lines.append("from %s import %s as %s" % (a, b, al))
            else:
                lines.append("import %s as %s" % (p, al))
    # ambiguity: a second entry with the same import_as
    if lines and rng.random() < 0.35:
        l = rng.choice(lines)
        ias = _import_as(l)
        other = rng.choice(uni)["path"]
        if "." not in ias:
            if rng.random() < 0.5:
                lines.append("from %s import %s" % (other, ias) if rng.random() < 0.6 else "import %s as %s" % (other.split(".")[0], ias))
            else:
                lines.append("from %s import %s as %s" % (other, rng.choice(MEMS), ias))
    lines = list(dict.fromkeys(lines))
    forget = []
    if rng.random() < 0.06:
        # forget a derived parent / an entry (D15 shape when the parent is derived)
        dotted = [l.split()[1] for l in lines if l.startswith("import ") and "." in l.split()[1] and " as " not in l]
        if dotted and rng.random() < 0.7:
            d = rng.choice(dotted)
            forget.append("import " + d.rsplit(".", 1)[0])
        elif lines:
            forget.append(rng.choice(lines))
    sib = [p for p in paths if p in SIBLINGS]
    if sib and rng.random() < 0.7:
        # names known from a module AND from its character-prefix sibling (and maybe a third place)
        t = rng.choice(sib)
        nm = rng.choice(MEMS)
        lines.append("from %s import %s" % (t, nm))
        if rng.random() < 0.8:
            lines.append("from %s import %s" % (t[:-1], nm))
        if rng.random() < 0.7:
            lines.append("from %s import %s" % (rng.choice(paths), nm))
        lines = list(dict.fromkeys(lines))
    if rng.random() < (0.5 if sib else 0.08):
        # "forget everything imported from module m (and below)"
        mods_used = sorted({l.split()[1] for l in lines if l.startswith("from ")})
        if mods_used:
            m = rng.choice(mods_used)
            forget.append("from %s import *" % rng.choice([m, m.split(".")[0]]))
    text = "\n".join(lines) + ("\n" if lines else "")
    if forget:
        text += "__forget_imports__ = %r\n" % (forget,)
    return text


def gen_extra_db(rng, uni, db):
    """a second database, given as `extra_db=` (the path the IPython integration always takes); biased to know a
    DIFFERENT import for a name the main database knows"""
    ents, _ = db_entries(db)
    lines = []
    for _ in range(rng.choice([1, 1, 2, 3])):
        m = rng.choice(uni)
        p = m["path"]
        if ents and rng.random() < 0.6:
            full, ias, _ = rng.choice(ents)
            if "." in ias:
                lines.append("import " + rng.choice([ias, ias.rsplit(".", 1)[0], p]))
            elif rng.random() < 0.5:
                lines.append("from %s import %s" % (p, ias))
            else:
                lines.append("from %s import %s as %s" % (p, rng.choice(m["members"] + MEMS[:1]), ias) if "." in p or rng.random() < 0.5
                             else "import %s as %s" % (p, ias))
        else:
            r = rng.random()
            if r < 0.4:
                lines.append("import " + p)
            elif r < 0.8:
                lines.append("from %s import %s" % (p, rng.choice(m["members"] + MEMS)))
            else:
                lines.append("from %s import %s as %s" % (p, rng.choice(m["members"] + MEMS[:1]), rng.choice(ALIASES)))
    lines = list(dict.fromkeys(lines))
    return "\n".join(lines) + "\n"


def full_db_text(case):
    """the text of everything the call knows: `db` and `extra_db` together (their union)"""
    return case["db"] + ("\n" + case["extra_db"] if case.get("extra_db") else "")


def _import_as(line):
    """bound (import_as) name of one database line, pyflyby's convention (plain dotted import: the dotted name)"""
    node = ast.parse(line).body[0]
    a = node.names[0]
    if isinstance(node, ast.Import):
        return a.asname or a.name
    return a.asname or a.name


def db_entries(text):
    """independent re-reading of the database text: list of (fullname, import_as, stmt), forgets"""
    ents, forgets = [], []
    try:
        tree = ast.parse(text)
    except SyntaxError:
        return ents, forgets
    for node in tree.body:
        if isinstance(node, ast.Import):
            for a in node.names:
                if a.asname and "." in a.name:
                    mod, n = a.name.rsplit(".", 1)
                    if a.asname == n:
                        ents.append((a.name, n, "from %s import %s" % (mod, n)))
                    else:
                        ents.append((a.name, a.asname, "from %s import %s as %s" % (mod, n, a.asname)))
                elif a.asname and a.asname != a.name:
                    ents.append((a.name, a.asname, "import %s as %s" % (a.name, a.asname)))
                else:
                    ents.append((a.name, a.name, "import %s" % a.name))
        elif isinstance(node, ast.ImportFrom) and node.level == 0:
            for a in node.names:
                full = node.module + "." + a.name
                if a.asname and a.asname != a.name:
                    ents.append((full, a.asname, "from %s import %s as %s" % (node.module, a.name, a.asname)))
                else:
                    ents.append((full, a.name, "from %s import %s" % (node.module, a.name)))
        elif isinstance(node, ast.Assign) and getattr(node.targets[0], "id", None) == "__forget_imports__":
            for s in ast.literal_eval(node.value):
                e, _ = db_entries(s)
                forgets.extend(e)
    return ents, forgets


def db_lookup_table(text, keep_empty=False):
    """key -> set of (fullname, import_as, stmt): what the statement calls 'the database entries for a name':
    the (not forgotten) entries bound under that name plus the parent packages of every entry as plain
    imports.  A name all of whose entries are forgotten has no entry (`keep_empty`: keep it with an EMPTY
    set — the D15 shape, for the family predicate)."""
    ents, forgets = db_entries(text)
    fset = {(f, a) for f, a, _ in forgets}
    # `from m import *` in the forget list: everything imported FROM module m or from a module below it
    # (dotted prefix, not character prefix) is forgotten
    stars = {f[:-2] for f, a, _ in forgets if a == "*"}
    tab = {}
    for full, ias, stmt in ents:
        if (full, ias) in fset:
            continue
        if stmt.startswith("from ") and any(pre in stars for pre in prefixes(stmt.split()[1])):
            continue
        tab.setdefault(ias, set()).add((full, ias, stmt))
        parts = full.split(".")
        for i in range(1, len(parts)):
            pre = ".".join(parts[:i])
            tab.setdefault(pre, set()).add((pre, pre, "import " + pre))
    out = {k: {e for e in v if (e[0], e[1]) not in fset} for k, v in tab.items()}
    return out if keep_empty else {k: v for k, v in out.items() if v}


def prefixes(d):
    parts = d.split(".")
    return [".".join(parts[:i]) for i in range(1, len(parts) + 1)]


def deepest_candidates(tab, d):
    """(key, entries) of the deepest prefix of d that has a key in the table, or (None, None)"""
    for p in reversed(prefixes(d)):
        if p in tab:
            return p, tab[p]
    return None, None


SNIPPETS = [
    "{a}", "{a}", "{a}", "{a}({b})", "x = {a}\nprint(x)", "{a}.attr", "def fn():\n    return {a}\nfn()",
    "[{a} for i in range(2)]", "{a}; {b}", "{a}, {b}, {c}", "{ha} = 3\n{a}", "import {ha}\n{a}",
    "print({a} + {b})", "y = [{a}, {b}]", "lambda q: {a}", "{a}[0] = 1", "del_me = 1\n{a}\n{b}",
    "if True:\n    {a}\n", "{a}[0]", "len({a})",
    # an aliased dotted import binds the alias only; a return annotation is evaluated when the def statement runs,
    # before a module-level binding further down exists
    "import {a} as {lv}\n{a}", "import {a} as {lv}\n{ha}", "import {a} as {lv}\n{ha}.attr",
    "class K:\n    def m(self) -> {h}: pass\n{h} = 1", "class K:\n    def m(self, q: {h}) -> {h2}: pass\nimport os as {h2}",
    "def fn() -> {h}: pass\n{h} = 1",
]
BAD_SNIPPETS = ["{a} +", "({a}", "def", "{a}.(x)", "{a} {b}", "x = = {a}", "   {a}\n{b}"]
# text that CPython rejects only because of its layout ("unexpected indent"): it would parse after a
# normalisation (dedent / strip) that auto_import must NOT apply — code that does not parse adds nothing
INDENTED_SNIPPETS = ["    {a}", "    {a}({b})", "\t{a}", "  x = {a}\n  print(x)", "\n\n    {a}.attr", "    {a}; {b}",
                     "\t{a}\n\t{b}", " {a}", "    print({a} + {b})\n", "  \n    {a}\n    {b}\n", "    [{a} for i in range(2)]"]
# names read in every position of a signature / class header (evaluated when the statement runs)
SIG_SNIPPETS = [
    "def fn(*parts: {a}): pass", "def fn(**kw: {a}): pass", "def fn(p: {a}, /): pass", "def fn(q: {a}): pass",
    "def fn(*, k: {a}): pass", "def fn() -> {a}: pass", "def fn(q={a}): pass", "def fn(*, k={a}): pass",
    "def fn(p={a}, /): pass",
    "def fn(p: {a}, /, q: {b} = {c}, *parts: {a}, k: {b} = {c}, **kw: {a}) -> {b}:\n    pass",
    "def fn(p, /, q, *parts: {a}, k=1, **kw: {b}): return p",
    "async def fn(q: {a} = {b}, *r: {c}): pass",
    "lambda q={a}, *r, k={b}, **kw: q", "lambda p={a}, /, *r: p", "(lambda *, k={a}: k)()",
    "@{a}\ndef fn(): pass", "@{a}({b})\ndef fn(): pass", "@{a}\nclass K: pass",
    "class K({a}): pass", "class K({a}, {b}): pass", "class K(metaclass={a}): pass", "class K(object, kw={a}): pass",
    "class K:\n    def m(self, *parts: {a}, **kw: {b}) -> {c}: pass",
    "def outer():\n    def inner(*parts: {a}): pass\n    return inner\nouter()",
]


# the code binds the identifier {h} ITSELF (every parameter position, lambda, targets, definitions) and reads it:
# nothing may be imported for it, whatever the database knows under that name
BINDS_SNIPPETS = [
    "def fn({h}, /): return {h}", "def fn({h}, /, q=1): return {h} + q\nfn(1)", "def fn(p, /, {h}): return {h}",
    "def fn({h}): return {h}", "def fn(*{h}): return {h}", "def fn(*, {h}): return {h}", "def fn(**{h}): return {h}",
    "def fn(p, /, q, *{h}, k=1, **kw): return {h}, p", "def fn({h}, {h2}, /, *, k): return {h}, {h2}, k",
    "lambda {h}, /: {h}", "lambda *{h}: {h}", "lambda **{h}: {h}", "lambda *, {h}=1: {h}", "lambda {h}=1: {h}.zz",
    "async def fn({h}, /): return {h}", "class K:\n    def m(self, {h}, /): return {h}",
    "def fn({h}, /):\n    def inner(): return {h}\n    return inner", "def fn({h}, /): return [{h} for i in range(2)]",
    "def fn({h}, /): return lambda: {h}", "[{h} for {h} in range(2)]", "for {h} in range(2): print({h})",
    "import os as {h}\n{h}", "{h} = 1\n{h}", "def {h}(): pass\n{h}()", "class {h}: pass\n{h}()", "({h} := 2, {h})",
    "def fn({h}, /): return {h}, {a}", "def fn({h}: {a}, /) -> {b}: return {h}",
]
# `del` of a name that lives only in a supplied namespace, `global` / `nonlocal` declarations: analysing such code
# must not touch the caller's namespaces
DEL_SNIPPETS = [
    "del {hb}", "del {hb}\n{a}", "{a}\ndel {hb}", "def fn():\n    global {hb}\n    del {hb}", "def fn():\n    del {hb}",
    "if False:\n    del {hb}", "del {hb}; {b}", "class K:\n    def m(self):\n        global {hb}\n        del {hb}",
]
GLOBAL_SNIPPETS = [
    "def fn():\n    global {h}\n    {h} = 1", "def fn():\n    global {h}\n    return {h}",
    "def fn():\n    global {h}\n    {h} = 1\nfn()\n{h}", "def fn():\n    global {h}, {h2}\n    {h2} = {h}",
    "class K:\n    def m(self):\n        global {h}\n        {h} = 2", "global {h}\n{h} = 1",
    "def outer():\n    x = 1\n    def inner():\n        nonlocal x\n        global {h}\n        x = {h}\n    return inner",
    "def fn():\n    global {h}\n    import os as {h}", "def fn():\n    global {h}\n    def {h}(): pass",
    "def fn():\n    global {h}\n    for {h} in range(2): pass\n    return {a}", "def fn():\n    global {h}\n    {h} = {a}",
]
# a name the code binds and that Python UNBINDS again before it is read (handler `as` name bound earlier in the
# same scope with the handler really running; del): the read needs an import and no database knows the name
UNBIND_SNIPPETS = [
    "{lv} = None\ntry:\n    1/0\nexcept ZeroDivisionError as {lv}:\n    pass\nprint({lv})",
    "import os as {lv}\ntry:\n    1/0\nexcept Exception as {lv}:\n    pass\n{lv}",
    "{lv} = 1\ntry:\n    raise ExceptionGroup('g', [ValueError()])\nexcept* ValueError as {lv}:\n    pass\n{lv}",
    "def fn():\n    {lv} = None\n    try:\n        1/0\n    except ZeroDivisionError as {lv}:\n        pass\n    return {lv}\nfn()",
    "{lv} = 0\ntry:\n    1/0\nexcept ZeroDivisionError as {lv}:\n    {a}\n{lv}",
    "{lv} = 1\ndel {lv}\n{lv}",
    "for {lv} in [1]:\n    try:\n        1/0\n    except ZeroDivisionError as {lv}:\n        pass\n{lv}",
    "def {lv}(): pass\ntry:\n    1/0\nexcept (KeyError, ZeroDivisionError) as {lv}:\n    pass\nelse:\n    pass\n{lv}()",
    "class {lv}: pass\ntry:\n    [][1]\nexcept KeyError as {lv2}:\n    pass\nexcept IndexError as {lv}:\n    pass\nfinally:\n    pass\n{lv}",
    # controls: the name survives (handler does not run / fresh name not read afterwards)
    "{lv} = 1\ntry:\n    pass\nexcept Exception as {lv2}:\n    pass\n{lv}",
    "try:\n    1/0\nexcept ZeroDivisionError as {lv}:\n    print({lv})\n{a}",
]
# definitions at top level (maybe deleted again) and later uses inside function bodies: what one piece of code
# LOOKED like must not matter for the next one, only the namespaces do
CLASS_SNIPPETS = [
    "class {h}:\n    pass\ndel {h}", "class {h}:\n    x = 1\n    def m(self): return {h}", "class {h}({a}): pass\ndel {h}",
    "class {h}:\n    def bump(self): return self\nz = {h}().bump()\ndel {h}", "def {h}(): pass\ndel {h}",
    "def fn():\n    return {h}\nfn()", "fn = lambda: {h}\nfn()", "def fn():\n    def inner(): return {h}.zz\n    return inner",
    "class K:\n    def m(self): return {h}\nK().m()", "def fn(q={h}): return q",
]


# PEP 695 (type parameters, `type` statements).  (a) the decorators and the parameter defaults of a generic def /
# class are evaluated OUTSIDE the scope of its type parameters: a type parameter named like the head of {a} does not
# bind that read (C07-N2); (b) such a scope inside a class body sees the class-level names: {h} is bound and read at
# class level, nothing may be imported for it (C06-N3); the rest are controls
PEP695_SNIPPETS = [
    "def fn[{ha}](q={a}): return q\nfn()", "def fn[{ha}](*, k={a}): return k\nfn()", "@{a}\nclass K[{ha}]: pass",
    "@{a}\ndef fn[{ha}](): pass", "async def fn[{ha}](p=1, /, q={a}, *r, k={b}): pass", "@{b}({a})\ndef fn[T, {ha}](): pass",
    "class K:\n    {h} = int\n    class Inner[T]({h}): pass", "class K:\n    {h} = int\n    type Al = list[{h}]\n    Al.__value__",
    "class K:\n    {h} = int\n    class Inner[T: {h}]: pass\n    Inner.__type_params__[0].__bound__",
    "class K:\n    {h} = int\n    type Al[U: {h}] = list[U]", "class K:\n    {h} = int\n    class Inner[T]({a}, kw={h}): pass",
    "class K:\n    {h} = int\n    def m[T: {h}](self, q: {h} = {a}) -> {h}: pass",
    "def fn[T](q: T = {a}) -> T: return q\nfn()", "class K[T]({a}): pass", "type Al[T: {a}] = list[T]\nAl.__type_params__[0].__bound__",
    "type Al = {a}\nAl.__value__", "def fn[T: {a}](q: T): pass\nfn.__type_params__[0].__bound__", "def fn[{h}](q: {h}) -> {h}: return {a}",
    "class K[{h}]:\n    x: {h}\n    def m(self) -> {h}: return {a}",
]
# text given as a CODE OBJECT (the bytecode route of find_missing_imports): annotation scopes nested in a class body
# read globals with their own opcode (C07-N1); plain controls
CODEOBJ_SNIPPETS = [
    "class K:\n    def m[T](self, q: T) -> {a}: ...", "class K:\n    class Inner[T]({a}): pass",
    "class K:\n    def m[T: {a}](self): ...", "class K:\n    type Al = {a}", "class K:\n    def m[T](self, *r: {a}, k: {b} = 1): ...",
    "{a}", "x = {a}\nprint(x)", "def fn():\n    return {a}\nfn()", "class K:\n    z = {a}", "{a}; {b}", "def fn[T](q: T) -> {a}: ...",
    # a name bound in a class body is not a global: a later function reading the global of that name still needs it
    "class K:\n    def {h}(self): pass\ndef fn():\n    return {h}\nfn()", "class K:\n    {h} = 1\nfn = lambda: {h}\nfn()",
    "class K:\n    {ha} = 1\ndef fn():\n    return {a}\nfn()",
]
# text that does NOT parse although Unicode normalisation (NFKC) would turn it into a dotted name: a compatibility
# full stop between the parts, a compatibility digit inside an identifier (C06-N1)
_NFKC_DOTS = ["\uff0e", "\u2024", "\ufe52"]
_NFKC_DIGITS = {"1": ["\u2460", "\u00b9", "\u2474"], "2": ["\u2461", "\u00b2"]}
_NFKC_LETTERS = {"v": "\uff56", "s": "\uff53", "f": "\uff46", "a": "\uff41"}     # these DO parse (identifier characters)


def nfkc_variant(rng, d):
    """`d` (a dotted name) respelt with compatibility characters; most variants do not parse, the letter ones do"""
    r = rng.random()
    digits = [i for i, ch in enumerate(d) if ch in _NFKC_DIGITS]
    dots = [i for i, ch in enumerate(d) if ch == "."]
    if r < 0.45 and dots:
        i = rng.choice(dots)
        return d[:i] + rng.choice(_NFKC_DOTS) + d[i + 1:]
    if r < 0.8 and digits:
        i = rng.choice(digits)
        return d[:i] + rng.choice(_NFKC_DIGITS[d[i]]) + d[i + 1:]
    letters = [i for i, ch in enumerate(d) if ch in _NFKC_LETTERS]
    if r < 0.9 and letters:
        i = rng.choice(letters)
        return d[:i] + _NFKC_LETTERS[d[i]] + d[i + 1:]
    return d + rng.choice(_NFKC_DOTS) + rng.choice(MEMS)


def gen_code(rng, pool, idents=None, bound=None, session=False, codeobj=False):
    """one snippet; `idents`: single identifiers worth using as {h} (database names, bound names, members …);
    `bound`: identifiers bound in the namespaces this call is given (for `del`)"""
    idents = idents or MEMS
    h, h2 = rng.choice(idents), rng.choice(idents)
    hb = rng.choice(bound) if bound else h
    # the dotted names {a} {b} {c} never start with an identifier the snippet binds / deletes itself
    # (`class K(K)`, `def f(x) -> x`, `del x; x`: missing-name analysis there is C05's business, see notes)
    ok = [d for d in pool if d.split(".")[0] not in (h, h2, hb)] or [UNKNOWN[1]]
    a, b, c = (rng.choice(ok) for _ in range(3))
    lv, lv2 = rng.sample(LOCALS, 2)
    r = rng.random()
    if codeobj:
        t = rng.choice(CODEOBJ_SNIPPETS)
    elif session and rng.random() < 0.5:
        # a session on ONE reused ScopeStack: definitions (maybe deleted again) and later uses in function bodies
        t = rng.choice(CLASS_SNIPPETS)
    elif r < 0.06:
        t = rng.choice(BAD_SNIPPETS)
    elif r < 0.12:
        t = rng.choice(INDENTED_SNIPPETS)
    elif r < 0.24:
        t = rng.choice(SIG_SNIPPETS)
    elif r < 0.36:
        t = rng.choice(BINDS_SNIPPETS)
    elif r < 0.42 and bound:
        t = rng.choice(DEL_SNIPPETS)
    elif r < 0.49:
        t = rng.choice(GLOBAL_SNIPPETS)
    elif r < 0.56:
        t = rng.choice(UNBIND_SNIPPETS)
    elif r < 0.64:
        t = rng.choice(CLASS_SNIPPETS)
    elif r < 0.70:
        # (names with a digit / a dot are preferred: they have non-parsing compatibility spellings)
        cands = [d for d in ok if "." in d or any(ch in _NFKC_DIGITS for ch in d)] or ok
        return nfkc_variant(rng, rng.choice(cands))
    elif r < 0.78:
        t = rng.choice(PEP695_SNIPPETS)
    else:
        t = rng.choice(SNIPPETS)
    return t.format(a=a, b=b, c=c, ha=a.split(".")[0], h=h, h2=h2, hb=hb, lv=lv, lv2=lv2)


def gen_value(rng, uni, name, extc):
    r = rng.random()
    paths = [m["path"] for m in uni]
    if r < 0.45:
        # the module of that name if there is one, else any module
        cands = [p for p in paths if p == name] or paths
        return dict(k="reg", path=rng.choice(cands))
    if r < 0.65:
        return dict(k="reg", path=rng.choice(paths))       # a different module under the name
    if r < 0.72:
        return dict(k="none")
    extc[0] += 1
    return dict(k="ext", id=extc[0], eq=1 if rng.random() < 0.25 else 0)


def gen_case(rng):
    uni = gen_universe(rng)
    db = gen_db(rng, uni)
    ents, _ = db_entries(db)
    aliases = sorted({a for f, a, _ in ents if "." not in a and a != f})
    pool = dotted_pool(rng, uni, aliases)
    paths = [m["path"] for m in uni]
    extc = [0]
    nns = rng.choice([1, 1, 1, 2, 2, 3])
    nss = []
    heads = TOPS[:3] + MEMS + aliases + [UNKNOWN[0]]
    for _ in range(nns):
        b = {}
        k = rng.choice([0, 0, 1, 1, 2, 3])
        for _ in range(k):
            nm = rng.choice(heads)
            b[nm] = gen_value(rng, uni, nm, extc)
        nss.append(b)
    preload = [p for p in paths if rng.random() < 0.2]
    calls = []
    ncalls = rng.choice([1, 1, 2, 2, 3, 4])
    focus = [rng.choice(pool) for _ in range(3)]     # repeated names make sequences interact
    # single identifiers for the snippets that bind / delete / declare a name: names the database knows, names
    # bound in the namespaces, members, module names, unknown names
    known = sorted({a for f, a, _ in ents if "." not in a})
    allbound = sorted({k for b in nss for k in b})
    idents = known * 2 + allbound + MEMS + [p for p in paths if "." not in p] + [UNKNOWN[0]]
    focus_id = [rng.choice(idents) for _ in range(2)]
    views = nns >= 2 and rng.random() < 0.3
    # the caller keeps ONE ScopeStack object per stack and hands it to every call (documented as accepted)
    session = rng.random() < 0.25
    if session:
        ncalls = max(ncalls, rng.choice([2, 3, 4]))
    for _ in range(ncalls):
        r = rng.random()
        lp = pool if rng.random() < 0.5 else focus
        if r < 0.74:
            # calls of one cell may be given different namespace stacks (e.g. a debugger frame): a view of the pool
            stack = rng.sample(range(nns), rng.randint(1, nns)) if views else list(range(nns))
            bound = sorted({k for i in stack for k in nss[i]})
            as_codeobj = rng.random() < 0.06
            c = dict(kind="code", code=gen_code(rng, lp, focus_id if (session or rng.random() < 0.5) else idents, bound, session,
                                                codeobj=as_codeobj))
            if as_codeobj:
                c["as"] = "codeobj"       # the call is given compile(code) instead of the text
            if views:
                c["stack"] = stack
            calls.append(c)
        elif r < 0.84:
            calls.append(dict(kind="symbol", name=rng.choice(lp)))
        elif r < 0.94:
            cands = [s for _, _, s in ents] + ["import " + p for p in paths] + ["import " + rng.choice(paths) + "." + NOSUCH]
            calls.append(dict(kind="try", imp=rng.choice(cands), ns=rng.randrange(nns)))
        else:
            calls.append(dict(kind="newcell"))
    if views:
        for c in calls:
            if c["kind"] == "symbol":
                c["stack"] = rng.sample(range(nns), rng.randint(1, nns))
    case = dict(universe=uni, db=db, preload=preload, nss=nss, calls=calls)
    if session:
        case["scopestack"] = True
    if rng.random() < 0.35:
        case["extra_db"] = gen_extra_db(rng, uni, db)
    if rng.random() < 0.3:
        # the database given in one of the other documented argument forms (source text / list / tuple of statements,
        # the empty ones included) instead of an ImportDB object: same meaning, in particular "" is the EMPTY database,
        # not "use the default one"
        case["db_form"] = rng.choice(["str", "list", "tuple"])
    return case


# ----------------------------------------------------------------------------
# materialising the universe
# ----------------------------------------------------------------------------

_HEAD = ("import sys as _sys\n"
         "class _T:\n"
         "    def __init__(s, t): s._vq_tag = t\n"
         "    def __repr__(s): return '<%s>' % s._vq_tag\n")


def module_source(m):
    if m["raises"] == "syntax":
        return "def (:\n"
    out = [_HEAD]
    if m["raises"] == "early":
        out.append("raise RuntimeError('vq early')\n")
    if m["raises"] == "exit_early":
        out.append("_sys.exit(3)\n")
    for mem in m["members"]:
        out.append("%s = _T(%r)\n" % (mem, m["path"] + "." + mem))
    for e in m["effects"]:
        if e["k"] == "setattr":
            out.append("_m = _sys.modules.get(%r)\nif _m is not None:\n    setattr(_m, %r, _T(%r))\n"
                       % (e["target"], e["attr"], e["tag"]))
        elif e["k"] == "alias":
            out.append("_m = _sys.modules.get(%r)\nif _m is not None:\n    %s = _m\n" % (e["src"], e["attr"]))
        else:
            out.append("_o = _sys.modules.get(%r)\n"
                       "if _o is not None:\n"
                       "    _n = type(_sys)(%r)\n"
                       "    if hasattr(_o, '__path__'): _n.__path__ = _o.__path__\n"
                       "    _n._vq_tag = %r\n"
                       "    _sys.modules[%r] = _n\n" % (e["target"], e["target"], e["tag"], e["target"]))
    if m["raises"] == "late":
        out.append("raise ImportError('vq late')\n")
    if m["raises"] == "exit":
        out.append("_sys.exit(3)\n")
    return "".join(out)


def materialise(uni, root):
    for m in uni:
        parts = m["path"].split(".")
        if m["pkg"]:
            d = os.path.join(root, *parts)
            os.makedirs(d, exist_ok=True)
            fn = os.path.join(d, "__init__.py")
        else:
            d = os.path.join(root, *parts[:-1])
            os.makedirs(d, exist_ok=True)
            fn = os.path.join(d, parts[-1] + ".py")
        with open(fn, "w") as f:
            f.write(module_source(m))


class Ext:
    def __init__(self, i):
        self._vq_ext = i

    def __repr__(self):
        return "<ext %d>" % self._vq_ext


class ExtEq(Ext):
    """equal to everything (the identity test `is not` must not be confused by it)"""
    def __eq__(self, other):
        return True

    def __ne__(self, other):
        return False

    __hash__ = object.__hash__


_EXTRA_HEADS = set()      # heads of real (stdlib) modules a corpus case wants recorded, e.g. {"xml"}


def _is_universe_name(name):
    h = name.split(".")[0]
    return h in ALLNAMES or h in _EXTRA_HEADS


def _stored_name(code):
    """the name a one-name import statement stores into (co_names is deduplicated, so read the bytecode)"""
    import dis
    for ins in dis.get_instructions(code):
        if ins.opname in ("STORE_NAME", "STORE_GLOBAL"):
            return ins.argval
    return None


class Recorder:
    """records top-level `__import__` calls (statement executions and find_spec parent probes) and every
    module search that reaches sys.meta_path, for names of the synthetic universe"""

    def __init__(self, ids, on_stmt=None):
        self.ids = ids
        self.events = []
        self.depth = 0
        self.on_stmt = on_stmt

    def find_spec(self, name, path=None, target=None):
        if _is_universe_name(name):
            self.events.append(["find", name])
        return None

    def _hook(self, name, globals=None, locals=None, fromlist=(), level=0):
        ev = None
        if self.depth == 0 and level == 0 and _is_universe_name(name):
            fn = sys._getframe(1).f_code.co_filename
            if fn == "<string>":
                bound = _stored_name(sys._getframe(1).f_code)
                ev = ["stmt", name, sorted(fromlist or ()), bound, None]
                if self.on_stmt:
                    self.on_stmt(ev)
                self.events.append(ev)
            elif "importlib" in fn:
                self.events.append(["probe", name])
            else:
                self.events.append(["other", name])
        self.depth += 1
        try:
            ret = self.orig(name, globals, locals, fromlist, level)
        except BaseException as e:
            if ev is not None:
                ev[4] = ["raise", type(e).__name__]
            raise
        finally:
            self.depth -= 1
        if ev is not None:
            # what the statement binds: the value `__import__` returned, or the attribute IMPORT_FROM fetches
            try:
                v = ret
                if ev[2]:
                    try:
                        v = getattr(ret, ev[2][0])
                    except AttributeError:
                        v = sys.modules[name + "." + ev[2][0]]
                ev[4] = [describe(v), self.ids.of(v)]
            except Exception as e:
                ev[4] = ["raise", "ImportError"]
        return ret

    def __enter__(self):
        self.orig = builtins.__import__
        builtins.__import__ = self._hook
        sys.meta_path.insert(0, self)
        return self

    def __exit__(self, *a):
        builtins.__import__ = self.orig
        try:
            sys.meta_path.remove(self)
        except ValueError:
            pass


def stmt_key(stmt):
    """canonical spelling of a one-name import statement (pyflyby renders `import a.b as c` as a from-import)"""
    node = ast.parse(stmt).body[0]
    a = node.names[0]
    if isinstance(node, ast.Import):
        if a.asname and "." in a.name:
            mod, n = a.name.rsplit(".", 1)
            return "from %s import %s as %s" % (mod, n, a.asname)
        if a.asname and a.asname != a.name:
            return "import %s as %s" % (a.name, a.asname)
        return "import " + a.name
    if a.asname and a.asname != a.name:
        return "from %s import %s as %s" % (node.module, a.name, a.asname)
    return "from %s import %s" % (node.module, a.name)


def event_key(ev):
    """the statement an executed `__import__` call came from (module, fromlist, name stored by the statement)"""
    name, fromlist, bound = ev[1], ev[2], ev[3]
    if fromlist:
        return "from %s import %s" % (name, fromlist[0]) + ("" if bound == fromlist[0] else " as " + bound)
    return "import " + name + ("" if bound == name.split(".")[0] else " as " + bound)


def stmt_bound_name(stmt):
    node = ast.parse(stmt).body[0]
    a = node.names[0]
    if isinstance(node, ast.Import):
        return a.asname or a.name.split(".")[0]
    return a.asname or a.name


def global_reads(code):
    """names whose read is resolved in the namespaces the code runs in (module-level reads, and reads that a
    nested scope resolves globally), by CPython's own symbol table; None = does not compile"""
    import symtable
    try:
        st = symtable.symtable(code, "<vq>", "exec")
    except SyntaxError:
        return None
    out = set()

    def walk(t, top):
        for sy in t.get_symbols():
            if sy.is_referenced() and (top or sy.is_global()):
                out.add(sy.get_name())
        for ch in t.get_children():
            walk(ch, False)
    walk(st, True)
    return out


def class_level_reads(code):
    """names ALL of whose reads are resolved in a class namespace although CPython's symbol table calls them global:
    a PEP 695 scope (type parameters of a generic class / def, a `type` statement) directly in a class body looks a
    name up in the class namespace first; counted when an unconditional `NAME = …` of the class body precedes it"""
    try:
        tree = ast.parse(code)
    except SyntaxError:
        return set()
    loads = {}
    for n in ast.walk(tree):
        if isinstance(n, ast.Name) and isinstance(n.ctx, ast.Load):
            loads[n.id] = loads.get(n.id, 0) + 1
    cls = {}
    for c in ast.walk(tree):
        if not isinstance(c, ast.ClassDef):
            continue
        bound = set()
        for st in c.body:
            parts = []
            tp = getattr(st, "type_params", None)
            if isinstance(st, ast.ClassDef) and tp:
                parts = list(st.bases) + [k.value for k in st.keywords]
            elif isinstance(st, (ast.FunctionDef, ast.AsyncFunctionDef)) and tp:
                a = st.args
                parts = [x.annotation for x in a.posonlyargs + a.args + a.kwonlyargs + [a.vararg, a.kwarg] if x and x.annotation]
                parts += [st.returns] if st.returns else []
            elif hasattr(ast, "TypeAlias") and isinstance(st, ast.TypeAlias):
                parts = [st.value]
            for t in (tp or []):
                parts += [x for x in (getattr(t, "bound", None), getattr(t, "default_value", None)) if x is not None]
            tpn = {t.name for t in (tp or [])}
            for part in parts:
                for n in ast.walk(part):
                    if isinstance(n, ast.Name) and isinstance(n.ctx, ast.Load) and n.id in bound and n.id not in tpn:
                        cls[n.id] = cls.get(n.id, 0) + 1
            if isinstance(st, ast.Assign) and all(isinstance(t, ast.Name) for t in st.targets):
                bound |= {t.id for t in st.targets}
    return {k for k, v in cls.items() if v == loads.get(k)}


def read_chains(code):
    """dotted chains (Name / Attribute-of-Name) occurring in the code, and names read"""
    try:
        tree = ast.parse(code)
    except SyntaxError:
        return None
    out = set()
    for n in ast.walk(tree):
        if isinstance(n, ast.Attribute) or isinstance(n, ast.Name):
            parts = []
            m = n
            while isinstance(m, ast.Attribute):
                parts.append(m.attr)
                m = m.value
            if isinstance(m, ast.Name):
                parts.append(m.id)
                out.add(".".join(reversed(parts)))
    return out


# ----------------------------------------------------------------------------
# running the real code
# ----------------------------------------------------------------------------

class _Ids:
    """object -> small integer in first-seen order (identity), keeps the objects alive"""

    def __init__(self):
        self.keep = []
        self.map = {}

    def of(self, o):
        k = id(o)
        if k not in self.map:
            self.map[k] = len(self.keep)
            self.keep.append(o)
        return self.map[k]


def describe(o):
    if o is None:
        return "none"
    if isinstance(o, Ext):
        return "ext:%d" % o._vq_ext
    t = getattr(o, "_vq_tag", None) if not isinstance(o, type) else None
    if isinstance(t, str):
        return "tag:" + t
    if isinstance(o, types.ModuleType):
        return "mod:" + getattr(o, "__name__", "?")
    return "other:" + type(o).__name__


def _purge():
    for k in list(sys.modules):
        if k.split(".")[0] in ALLNAMES:
            del sys.modules[k]
    importlib.invalidate_caches()


def _snapshot(nss, ids):
    return [sorted([k, describe(v), ids.of(v)] for k, v in ns.items() if isinstance(k, str)) for ns in nss]


def _registry(uni_paths, ids, names):
    mods = {}
    attrs = {}
    for p in uni_paths:
        o = sys.modules.get(p)
        if o is None:
            continue
        mods[p] = [describe(o), ids.of(o)]
    seen = {}
    for p, (d, i) in mods.items():
        o = sys.modules[p]
        if i in seen:
            continue
        seen[i] = 1
        row = []
        for nm in names:
            try:
                v = o.__dict__[nm]
            except (KeyError, AttributeError):
                continue
            row.append([nm, describe(v), ids.of(v)])
        attrs[str(i)] = row
    return dict(mods=mods, attrs=attrs)


def _child_report(fn):
    """run fn() in a forked child (same memory image) and return its JSON result"""
    r, w = os.pipe()
    pid = os.fork()
    if pid == 0:
        try:
            os.close(r)
            try:
                res = fn()
            except BaseException as e:      # pragma: no cover
                res = {"child_error": type(e).__name__ + ": " + str(e)[:200]}
            data = json.dumps(res).encode()
            os.write(w, data)
        finally:
            os._exit(0)
    os.close(w)
    chunks = []
    while True:
        b = os.read(r, 65536)
        if not b:
            break
        chunks.append(b)
    os.close(r)
    os.waitpid(pid, 0)
    try:
        return json.loads(b"".join(chunks).decode())
    except Exception:
        return {"child_error": "no report"}


def run_history(case, scratch_base):
    """Run the call sequence of `case` on the real pyflyby; return the canonical observation."""
    import pyflyby._autoimp as A
    from pyflyby._importdb import ImportDB
    from pyflyby._modules import ModuleHandle

    uni = case["universe"]
    paths = [m["path"] for m in uni] + list(case.get("stdlib_heads", []))
    _EXTRA_HEADS.clear()
    _EXTRA_HEADS.update(case.get("stdlib_heads", []))
    root = tempfile.mkdtemp(prefix="u", dir=scratch_base)
    old_dwb = sys.dont_write_bytecode
    sys.dont_write_bytecode = True
    obs = dict(calls=[])
    ids = _Ids()
    try:
        materialise(uni, root)
        _purge()
        sys.path.insert(0, root)
        A._IMPORT_FAILED.clear()
        ModuleHandle._cls_cache.clear()
        # a decoy DEFAULT database that knows an import for everything in the universe: any fallback from the database
        # that was passed in to the environment's default one shows up as an import nobody asked for
        decoy = os.path.join(root, "decoy_default_db.py")
        with open(decoy, "w") as f:
            for m in uni:
                f.write("import %s\n" % m["path"])
                for mem in m["members"]:
                    f.write("from %s import %s\n" % (m["path"], mem))
        old_env = {k: os.environ.get(k) for k in ("PYFLYBY_PATH", "PYFLYBY_KNOWN_IMPORTS_PATH", "PYFLYBY_MANDATORY_IMPORTS_PATH")}
        os.environ["PYFLYBY_PATH"] = decoy
        for k in ("PYFLYBY_KNOWN_IMPORTS_PATH", "PYFLYBY_MANDATORY_IMPORTS_PATH"):
            os.environ.pop(k, None)
        ImportDB._default_cache.clear()
        try:
            db = ImportDB(case["db"])
            extra = ImportDB(case["extra_db"]) if case.get("extra_db") else None
            # the table the calls work with: auto_import combines `db | extra_db` itself
            table = (db | extra if extra is not None else db).by_fullname_or_import_as
            obs["dbmap"] = sorted([k, [[i.fullname, i.import_as] for i in v]] for k, v in table.items())
        except Exception as e:
            obs["db_err"] = type(e).__name__
            return obs
        form = case.get("db_form")
        stmts_ = [l for l in case["db"].splitlines() if l.strip()]
        db_arg = db if not form else (case["db"] if form == "str" else (stmts_ if form == "list" else tuple(stmts_)))
        for p in case["preload"]:
            try:
                importlib.import_module(p)
            except (Exception, SystemExit):
                pass
        names = sorted(ALLNAMES)
        # namespaces
        nss = []
        for spec in case["nss"]:
            d = {}
            for k, v in sorted(spec.items()):
                if v["k"] == "reg":
                    o = sys.modules.get(v["path"])
                    if o is None:
                        try:
                            o = importlib.import_module(v["path"])
                        except (Exception, SystemExit):
                            o = None
                    d[k] = o
                elif v["k"] == "none":
                    d[k] = None
                elif v["k"] == "stdlib":
                    d[k] = importlib.import_module(v["mod"])       # a real module (corpus cases only)
                else:
                    d[k] = (ExtEq if v.get("eq") else Ext)(v["id"])
            nss.append(d)
        obs["ns0"] = _snapshot(nss, ids)
        obs["reg0"] = _registry(paths, ids, names)
        autoimported = {}
        shared = {}          # one ScopeStack object per distinct stack, reused by every call (case["scopestack"])
        for call in case["calls"]:
            co = dict(kind=call["kind"])
            obs["calls"].append(co)
            if call["kind"] == "newcell":
                autoimported = {}
                continue
            before = _snapshot(nss, ids)
            co["before"] = before
            stk = [nss[i] for i in call_stack(case, call)]
            fresh = stk
            if case.get("scopestack"):
                key = tuple(call_stack(case, call))
                if key not in shared:
                    shared[key] = A.ScopeStack(stk)
                stk = shared[key]
            co["failed_before"] = sorted(stmt_key(str(i)) for i in A._IMPORT_FAILED)
            snaps = []
            rec = Recorder(ids, on_stmt=lambda ev: snaps.append(_snapshot(nss, ids)))
            code = None
            if call["kind"] == "code":
                code = call["code"]
                arg = code
                if call.get("as") == "codeobj":
                    try:
                        arg = compile(code, "<vq>", "exec", dont_inherit=True)
                    except SyntaxError:
                        arg = code
                try:
                    co["missing"] = [str(x) for x in A.find_missing_imports(arg, stk)]
                except SyntaxError:
                    co["missing"] = "syntax"
                except Exception as e:
                    co["missing"] = "exc:" + type(e).__name__
                if stk is not fresh:
                    # the same analysis on a fresh stack over the same namespaces
                    try:
                        co["missing_fresh"] = [str(x) for x in A.find_missing_imports(arg, list(fresh))]
                    except SyntaxError:
                        co["missing_fresh"] = "syntax"
                    except Exception as e:
                        co["missing_fresh"] = "exc:" + type(e).__name__
                with rec:
                    try:
                        res = A.auto_import(arg, stk, db=db_arg, autoimported=autoimported, extra_db=extra)
                    except (Exception, SystemExit) as e:
                        res = "exc:" + type(e).__name__
            elif call["kind"] == "symbol":
                code = call["name"]
                try:
                    co["missing"] = [call["name"]] if A.symbol_needs_import(call["name"], stk) else []
                except Exception as e:
                    co["missing"] = "exc:" + type(e).__name__
                with rec:
                    try:
                        res = A.auto_import_symbol(call["name"], stk, db=(db | extra if extra is not None else db_arg),
                                                   autoimported=autoimported)
                    except (Exception, SystemExit) as e:
                        res = "exc:" + type(e).__name__
            else:
                with rec:
                    try:
                        res = A._try_import(call["imp"], nss[call["ns"]])
                    except (Exception, SystemExit) as e:
                        res = "exc:" + type(e).__name__
            co["result"] = res
            co["events"] = rec.events
            co["snaps"] = snaps
            co["after"] = _snapshot(nss, ids)
            co["failed"] = sorted(stmt_key(str(i)) for i in A._IMPORT_FAILED)
            co["failed_full"] = sorted([i.fullname, i.import_as] for i in A._IMPORT_FAILED)
            co["attempted"] = sorted([str(k), bool(v)] for k, v in autoimported.items())
            co["reg"] = _registry(paths, ids, names)
            if isinstance(co.get("missing"), list):
                sni = []
                for d in co["missing"]:
                    try:
                        sni.append(bool(A.symbol_needs_import(d, stk)))
                    except (Exception, SystemExit) as e:
                        sni.append("exc:" + type(e).__name__)
                co["sni_after"] = sni
            # ---- forked child (same memory image): does the code run after a reported success ------------
            co["run"] = None
            if code is not None and res is True and call["kind"] == "code":
                merged = {}
                for ns in fresh:
                    merged.update(ns)

                def child(merged=merged, code=code):
                    dn = os.open(os.devnull, os.O_WRONLY)
                    os.dup2(dn, 1)
                    os.dup2(dn, 2)
                    try:
                        exec(compile(code, "<vq>", "exec", dont_inherit=True), merged)
                        return dict(run="ok")
                    except NameError as e:
                        return dict(run="NameError:" + str(getattr(e, "name", None)))
                    except BaseException as e:
                        return dict(run="other:" + type(e).__name__)
                co["run"] = _child_report(child).get("run")
        return obs
    finally:
        _EXTRA_HEADS.clear()
        try:
            sys.path.remove(root)
        except ValueError:
            pass
        _purge()
        sys.path_importer_cache.pop(root, None)
        try:
            A._IMPORT_FAILED.clear()
            ModuleHandle._cls_cache.clear()
        except Exception:
            pass
        sys.dont_write_bytecode = old_dwb
        try:
            for k, v in old_env.items():
                if v is None:
                    os.environ.pop(k, None)
                else:
                    os.environ[k] = v
            ImportDB._default_cache.clear()
        except NameError:
            pass
        shutil.rmtree(root, ignore_errors=True)


# ----------------------------------------------------------------------------
# oracles (model-independent; each returns a list of failure dicts)
# ----------------------------------------------------------------------------

def _ctx(case, ci, co):
    call = case["calls"][ci]
    return dict(call_index=ci, call=call, db=case["db"], extra_db=case.get("extra_db"), result=co.get("result"))


def _added(before, after):
    """per namespace: list of [key, desc, oid] added"""
    out = []
    for b, a in zip(before, after):
        bk = {k for k, _, _ in b}
        out.append([e for e in a if e[0] not in bk])
    return out


def call_stack(case, call):
    """indices (into the pool case["nss"]) of the namespaces given to this call, most global first"""
    return list(call.get("stack") or range(len(case["nss"])))


def target_index(case, call):
    if call["kind"] == "try":
        return call["ns"]
    return call_stack(case, call)[-1]


def _stmt_events(co):
    return [(ei, e) for ei, e in enumerate(co["events"]) if e[0] == "stmt"]


def oracle_c06(case, obs):
    fails = []
    if "db_err" in obs:
        return fails
    reg_now = obs["reg0"]
    for ci, co in enumerate(obs["calls"]):
        call = case["calls"][ci]
        if call["kind"] == "newcell":
            continue
        reg_before, reg_now = reg_now, co["reg"]
        before, after = co["before"], co["after"]
        tgt = target_index(case, call)
        # -- never rebinds, shadows or deletes an existing name, in every namespace (also at every attempt)
        for stage, snap in [("attempt %d" % i, s) for i, s in enumerate(co["snaps"])] + [("end", after)]:
            for ni, (b, a) in enumerate(zip(before, snap)):
                am = {k: (d, i) for k, d, i in a}
                for k, d, i in b:
                    if k not in am:
                        fails.append(dict(what="existing name deleted", name=k, ns=ni, stage=stage, **_ctx(case, ci, co)))
                    elif am[k][1] != i:
                        fails.append(dict(what="existing name rebound", name=k, ns=ni, was=d, now=am[k][0], stage=stage,
                                          **_ctx(case, ci, co)))
        added = _added(before, after)
        for ni, ad in enumerate(added):
            if ad and ni != tgt:
                fails.append(dict(what="name added to a namespace that is not the target", ns=ni, names=[k for k, _, _ in ad],
                                  **_ctx(case, ci, co)))
        code = call.get("code") if call["kind"] == "code" else call.get("name")
        chains = read_chains(code) if code is not None else None
        stmts = _stmt_events(co)
        # -- code that does not parse adds nothing (and the call reports failure, attempting nothing)
        if call["kind"] == "code" and chains is None:
            if any(added):
                fails.append(dict(what="unparsable code added names", names=[k for ad in added for k, _, _ in ad],
                                  **_ctx(case, ci, co)))
            if co["result"] is not False:
                fails.append(dict(what="unparsable code did not report failure", **_ctx(case, ci, co)))
            if stmts:
                fails.append(dict(what="unparsable code caused an import attempt", **_ctx(case, ci, co)))
        if call["kind"] in ("code", "symbol"):
            heads = {c.split(".")[0] for c in (chains or ())}
            if call["kind"] == "code" and chains is not None:
                gr = global_reads(code)
                if gr is not None:
                    heads &= gr        # a name the code binds itself (parameter, local …) is not read from outside
                heads -= class_level_reads(code)
            for k, d, i in added[tgt]:
                # -- only top-level names that the code reads
                if k not in heads:
                    fails.append(dict(what="added a name the code does not read", name=k, **_ctx(case, ci, co)))
                # -- that were unbound in every given namespace
                outer = [(ni, e) for ni, b in enumerate(before) if ni in call_stack(case, call) for e in b if e[0] == k]
                if outer:
                    same = all(e[2] == i for _, e in outer)
                    regm = reg_before["mods"].get(k)
                    fails.append(dict(what="added a name that was bound in another given namespace (shadowing)",
                                      name=k, same_object=same, ns=[ni for ni, _ in outer],
                                      outer_is_registry_module=bool(regm) and all(e[2] == regm[1] for _, e in outer),
                                      **_ctx(case, ci, co)))
        # -- each added name is bound to exactly the object that executing an attempted import statement yielded
        for k, d, i in added[tgt]:
            ys = [e for _, e in stmts if e[3] == k]
            if not any(e[4] and e[4][0] != "raise" and e[4][1] == i for e in ys):
                fails.append(dict(what="added name is not bound to the object an executed import statement yielded",
                                  name=k, bound=d, yields=[[event_key(e), e[4]] for e in ys], **_ctx(case, ci, co)))
        # -- a failing / disagreeing import leaves every namespace as it was, and is not attempted again in the cell
        snaps = co["snaps"] + [after]
        newly_failed = set(co["failed"]) - set(co["failed_before"])
        for si, (ei, e) in enumerate(stmts):
            key = event_key(e)
            s0, s1 = snaps[si], snaps[si + 1]
            raises = (e[4] is None) or e[4][0] == "raise"
            disagrees = False
            if not raises:
                pre = [x for x in s0[tgt] if x[0] == e[3]]
                disagrees = bool(pre) and pre[0][2] != e[4][1]
            if raises or disagrees:
                why = "fails" if raises else "disagrees with an existing binding"
                if s0 != s1:
                    fails.append(dict(what="an import that %s changed a namespace" % why, stmt=key, **_ctx(case, ci, co)))
                exc = e[4][1] if (e[4] and e[4][0] == "raise") else None
                if raises and key not in co["failed"]:
                    fails.append(dict(what="a failing import was not recorded as failed", stmt=key, exc=exc, **_ctx(case, ci, co)))
                again = None
                for cj in range(ci, len(obs["calls"])):
                    if case["calls"][cj]["kind"] == "newcell":
                        break                                       # the cell ends here
                    if not raises and "try" in (call["kind"], case["calls"][cj]["kind"]):
                        continue       # a direct `_try_import` has no cell: only the raising case is remembered
                    for k2, e2 in _stmt_events(obs["calls"][cj]):
                        if event_key(e2) == key and (cj > ci or k2 > ei):
                            again = cj
                    if again is not None:
                        break
                if again is not None:
                    fails.append(dict(what="an import that %s was attempted again in the same cell" % why, stmt=key,
                                      again_in_call=again, exc=(exc if raises else None), **_ctx(case, ci, co)))
            elif key in newly_failed:
                fails.append(dict(what="an import that succeeded was recorded as failed", stmt=key, **_ctx(case, ci, co)))
    return fails[:6]


def oracle_c07(case, obs):
    fails = []
    if "db_err" in obs:
        return fails
    tab = db_lookup_table(full_db_text(case))
    for ci, co in enumerate(obs["calls"]):
        call = case["calls"][ci]
        if call["kind"] not in ("code", "symbol"):
            continue
        res = co["result"]
        before, after = co["before"], co["after"]
        tgt = target_index(case, call)
        added = _added(before, after)
        missing = co.get("missing")
        if isinstance(res, str) and res.startswith("exc:"):
            fails.append(dict(what="exception escaped instead of a result", exc=res[4:], missing=missing, **_ctx(case, ci, co)))
            continue
        # -- what earlier code LOOKED like must not matter: same analysis as on a fresh stack over the same namespaces
        if "missing_fresh" in co and co["missing_fresh"] != missing:
            fails.append(dict(what="a reused ScopeStack changes which names are missing", missing=missing,
                              missing_on_fresh_stack=co["missing_fresh"], **_ctx(case, ci, co)))
        # -- success => the code runs without NameError
        if res is True and call["kind"] == "code":
            run = co.get("run")
            if isinstance(run, str) and run.startswith("NameError"):
                fails.append(dict(what="reported success but the code raises NameError", run=run, missing=missing,
                                  **_ctx(case, ci, co)))
        if not isinstance(missing, list):
            continue
        stmts = _stmt_events(co)
        code = call.get("code") if call["kind"] == "code" else call.get("name")
        chains = read_chains(code) or set()
        spelled = {p for c in chains for p in prefixes(c)}
        # -- provenance of every added binding
        for k, d, i in added[tgt]:
            ok = False
            for _, e in stmts:
                if e[3] != k or not e[4] or e[4][0] == "raise" or e[4][1] != i:
                    continue
                s = event_key(e)
                # (a) `import p` for a module path p spelled in the code
                if s.startswith("import ") and " as " not in s and s[7:] in spelled:
                    ok = True
                # (b) the unique database entry of a name spelled in the code
                for key, entries in tab.items():
                    if key in spelled and len(entries) == 1 and next(iter(entries))[2] == s:
                        ok = True
            if not ok:
                fails.append(dict(what="added binding does not come from the unique database entry or a spelled module path",
                                  name=k, bound=d, **_ctx(case, ci, co)))
        # -- ambiguous / unknown names
        by_head = {}
        for dname in missing:
            head = dname.split(".")[0]
            key, ents = deepest_candidates(tab, dname)
            if key is not None and len(ents) >= 2:
                cls = "ambiguous"
            elif (key is None or len(ents) == 0) and not _module_exists_on_disk(case, head) \
                    and head not in obs["reg0"]["mods"] and head not in co["reg"]["mods"]:
                cls = "unknown"
            else:
                cls = "other"
            by_head.setdefault(head, []).append((dname, cls))
            # (a name of the list that other names' imports resolved before its turn is not "a name with
            #  several candidates" any more: only names that still need import afterwards are judged)
            still = True
            if isinstance(co.get("sni_after"), list) and len(co["sni_after"]) == len(missing):
                still = co["sni_after"][missing.index(dname)] is True
            if cls in ("ambiguous", "unknown") and res is not False and still:
                fails.append(dict(what="%s name did not make the call report failure" % cls, name=dname,
                                  **_ctx(case, ci, co)))
        for head, lst in by_head.items():
            if all(c in ("ambiguous", "unknown") for _, c in lst):
                if any(k == head for ad in added for k, _, _ in ad):
                    fails.append(dict(what="a name with several candidates or none was bound", name=head,
                                      classes=lst, **_ctx(case, ci, co)))
    return fails[:6]


# ----------------------------------------------------------------------------
# family predicates of the listed findings N1 … (shared by C06 and C07: the same defect shows in both oracles)
# ----------------------------------------------------------------------------

def _call_code(failure):
    call = failure.get("call") or {}
    return call.get("code") if call.get("kind") == "code" else None


def unparsable_but_nfkc_dotted(code):
    """the text does not parse, yet its NFKC normalisation is a dotted name (and differs from the text)"""
    import keyword
    import unicodedata
    if not isinstance(code, str):
        return False
    try:
        ast.parse(code)
        return False
    except SyntaxError:
        pass
    n = unicodedata.normalize("NFKC", code)
    return n != code and all(p.isidentifier() and not keyword.iskeyword(p) for p in n.split("."))


_N1_WHATS = {"unparsable code added names", "unparsable code did not report failure", "unparsable code caused an import attempt",
             "added a name the code does not read", "added binding does not come from the unique database entry or a spelled module path"}


def fam_n1(case, failure):
    """C06-N1: find_missing_imports NFKC-normalises the WHOLE text before testing whether it is a dotted name, so text
    that does not parse (compatibility full stop / digit) is treated as that name and imported for."""
    return failure.get("what") in _N1_WHATS and unparsable_but_nfkc_dotted(_call_code(failure))


_N2_WHATS = {"a failing import was not recorded as failed", "an import that fails was attempted again in the same cell",
             "exception escaped instead of a result"}


def fam_n2(case, failure):
    """C06-N2: a module of the universe calls sys.exit() while it is imported; `_try_import` (and ModuleHandle.exists)
    catch Exception only: SystemExit escapes the call, nothing is recorded, the import is executed again."""
    return (failure.get("what") in _N2_WHATS and failure.get("exc") == "SystemExit"
            and any(m.get("raises") in ("exit", "exit_early") for m in case["universe"]))


def fam_n3(case, failure):
    """C06-N3: a name bound at class level and read only from a PEP 695 scope directly in that class body (bases /
    bounds of a generic nested class, a `type` statement) is reported missing and imported."""
    code = _call_code(failure)
    return (failure.get("what") == "added a name the code does not read" and isinstance(code, str)
            and failure.get("name") in class_level_reads(code))


def _nameerror_name(failure):
    run = failure.get("run")
    if failure.get("what") != "reported success but the code raises NameError" or not isinstance(run, str):
        return None
    return run.split(":", 1)[1] if ":" in run else None


def fam_p2(case, failure):
    """C07-N2: the NameError is for a name N read in a decorator / parameter default of a generic def / class one of
    whose type parameters is called N (those expressions are evaluated outside the type-parameter scope)."""
    nm, code = _nameerror_name(failure), _call_code(failure)
    if nm is None or not isinstance(code, str):
        return False
    try:
        tree = ast.parse(code)
    except SyntaxError:
        return False
    for n in ast.walk(tree):
        tp = getattr(n, "type_params", None)
        if not tp or not isinstance(n, (ast.FunctionDef, ast.AsyncFunctionDef, ast.ClassDef)):
            continue
        if nm not in {t.name for t in tp}:
            continue
        outside = list(n.decorator_list)
        if not isinstance(n, ast.ClassDef):
            outside += list(n.args.defaults) + [d for d in n.args.kw_defaults if d is not None]
        if any(isinstance(x, ast.Name) and x.id == nm for e in outside for x in ast.walk(e)):
            return True
    return False


def fam_p1(case, failure):
    """C07-N1: the code was given as a CODE OBJECT and the NameError is for a name read in a PEP 695 scope directly in a
    class body (opcode LOAD_FROM_DICT_OR_GLOBALS, which the bytecode scan does not know)."""
    nm, code = _nameerror_name(failure), _call_code(failure)
    if nm is None or not isinstance(code, str) or (failure.get("call") or {}).get("as") != "codeobj":
        return False
    try:
        tree = ast.parse(code)
    except SyntaxError:
        return False
    for c in ast.walk(tree):
        if isinstance(c, ast.ClassDef):
            for st in c.body:
                if getattr(st, "type_params", None) or (hasattr(ast, "TypeAlias") and isinstance(st, ast.TypeAlias)):
                    if any(isinstance(x, ast.Name) and x.id == nm for x in ast.walk(st)):
                        return True
    return False


def _module_exists_on_disk(case, top):
    return any(m["path"] == top for m in case["universe"])


# ----------------------------------------------------------------------------
# model side
# ----------------------------------------------------------------------------

def model_request(case, obs):
    if "db_err" in obs or case.get("stdlib_heads"):
        return []           # cases over real stdlib modules are oracle-only
    calls = []
    for call, co in zip(case["calls"], obs["calls"]):
        if call["kind"] == "newcell":
            calls.append(dict(kind="newcell"))
        elif call["kind"] == "try":
            imp = _imp_parts(call["imp"])
            calls.append(dict(kind="try", fullname=imp[0], import_as=imp[1], ns=call["ns"]))
        elif call["kind"] == "symbol":
            m = co.get("missing")
            if not isinstance(m, list):
                return []
            calls.append(dict(kind="symbol", name=call["name"], sni=m, stack=call_stack(case, call)))
        else:
            m = co.get("missing")
            if isinstance(m, str) and m.startswith("exc:"):
                return []
            calls.append(dict(kind="code", missing=(None if m == "syntax" else m), stack=call_stack(case, call)))
    nss = []
    for spec in case["nss"]:
        nss.append(sorted([k, v] for k, v in spec.items()))
    if any(co.get("result") == "exc:SystemExit" for co in obs["calls"]):
        return []           # finding N2 (SystemExit escapes the call): no model of that; the oracle judges the case
    uni = [dict(m, raises={"exit": "late", "exit_early": "early"}.get(m["raises"], m["raises"])) for m in case["universe"]]
    return [dict(op="history", universe=uni, dbmap=obs["dbmap"], preload=case["preload"],
                 nss=nss, calls=calls)]


def _imp_parts(stmt):
    ents, _ = db_entries(stmt)
    f, a, _ = ents[0]
    return f, a


def canon_ns(snap):
    return [sorted([k, d] for k, d, _ in ns) for ns in snap]


def canon_classes(snap):
    """partition of the (namespace, key) slots by object identity, as a sorted list of sorted groups"""
    g = {}
    for ni, ns in enumerate(snap):
        for k, _, i in ns:
            g.setdefault(i, []).append([ni, k])
    return sorted(sorted(v) for v in g.values())


def canon_reg(reg):
    mods = sorted([p, d] for p, (d, _) in reg["mods"].items())
    attrs = []
    for p, (d, i) in sorted(reg["mods"].items()):
        attrs.append([p, sorted([nm, dv] for nm, dv, _ in reg["attrs"].get(str(i), []))])
    # which registry slots / attribute slots hold the same object
    g = {}
    for p, (d, i) in reg["mods"].items():
        g.setdefault(i, []).append(["mod", p])
        for nm, dv, iv in reg["attrs"].get(str(i), []):
            g.setdefault(iv, []).append(["attr", p, nm])
    return dict(mods=mods, attrs=attrs, classes=sorted(sorted(v) for v in g.values()))


def compare_history(case, obs, resps):
    if "db_err" in obs:
        return None
    r = resps[0]
    if "calls" not in r:
        return "model returned no calls: %r" % (r,)
    if canon_ns(obs["ns0"]) != canon_ns(r["ns0"]) or canon_classes(obs["ns0"]) != canon_classes(r["ns0"]):
        return "initial namespaces differ: impl=%r model=%r" % (canon_ns(obs["ns0"]), canon_ns(r["ns0"]))
    if canon_reg(obs["reg0"]) != canon_reg(r["reg0"]):
        return "registry after preload differs: impl=%r model=%r" % (canon_reg(obs["reg0"]), canon_reg(r["reg0"]))
    live = [(ci, co) for ci, co in enumerate(obs["calls"])]
    for (ci, co), mo in zip(live, r["calls"]):
        if co["kind"] == "newcell":
            continue
        res = co["result"]
        ires = "assertion" if res == "exc:AssertionError" else res
        if ires != mo["result"]:
            return "call %d result: impl=%r model=%r" % (ci, res, mo["result"])
        pairs = (("after", canon_ns(co["after"]), canon_ns(mo["after"])),
                 ("identity classes", canon_classes(co["after"]), canon_classes(mo["after"])),
                 ("events", [e[:4] if e[0] == "stmt" else e[:2] for e in co["events"] if e[0] != "other"], mo["events"]),
                 ("failed", sorted(map(list, co["failed_full"])), sorted(mo["failed"])),
                 ("attempted", co["attempted"], sorted(mo["attempted"])),
                 ("registry", canon_reg(co["reg"]), canon_reg(mo["reg"])))
        for fld, iv, mv in pairs:
            if iv != mv:
                return "call %d %s: impl=%r model=%r" % (ci, fld, iv, mv)
        if "sni_after" in co and co["sni_after"] != mo.get("sni_after"):
            return "call %d sni_after: impl=%r model=%r" % (ci, co["sni_after"], mo.get("sni_after"))
    if not r.get("db_keyed", True):
        return "hypothesis DbKeyed (every entry stored under its import_as) does not hold for this database"
    return None


class AutoImpBase(Prop):
    driver = None
    anchors = [
        ("lib/python/pyflyby/_autoimp.py", "_try_import"),
        ("lib/python/pyflyby/_autoimp.py", "auto_import_symbol"),
        ("lib/python/pyflyby/_autoimp.py", "auto_import"),
        ("lib/python/pyflyby/_autoimp.py", "get_known_import"),
        ("lib/python/pyflyby/_autoimp.py", "symbol_needs_import"),
        ("lib/python/pyflyby/_importdb.py", "ImportDB.by_fullname_or_import_as"),
        ("lib/python/pyflyby/_modules.py", "ModuleHandle.exists"),
        ("lib/python/pyflyby/_modules.py", "ModuleHandle.ancestors"),
        ("lib/python/pyflyby/_interactive.py", "AutoImporter.auto_import"),
    ]
    quick_cases = 3000
    thorough_cases = 40000
    quick_deadline_s = 55
    thorough_deadline_s = 600

    def setup(self, tier, rng):
        self._scratch = tempfile.mkdtemp(prefix="pfbverif_%s_" % self.id.lower())

    def teardown(self):
        shutil.rmtree(getattr(self, "_scratch", ""), ignore_errors=True)

    def gen_case(self, rng, i, tier):
        return gen_case(rng)

    def run_impl(self, case):
        try:
            return self._run_impl(case)
        except SystemExit as e:
            # a sys.exit() of a universe module that got past every call site: must not end a pool worker silently
            raise RuntimeError("SystemExit escaped the harness") from e

    def _run_impl(self, case):
        b = getattr(self, "_scratch", None)
        if b and os.path.isdir(b):
            return run_history(case, b)
        # called without setup() (e.g. the replay of a correspondence disagreement): own scratch, removed here
        b = tempfile.mkdtemp(prefix="pfbverif_%s_" % self.id.lower())
        try:
            return run_history(case, b)
        finally:
            shutil.rmtree(b, ignore_errors=True)

    def model_requests(self, case, obs):
        return model_request(case, obs)

    def compare(self, case, obs, resps):
        return compare_history(case, obs, resps)

    def nontrivial_key(self, case, obs):
        evs = [e for co in obs.get("calls", []) for e in co.get("events", []) if e[0] == "stmt"]
        if not evs:
            return None
        return json.dumps([case["db"], case.get("extra_db"), case["nss"], case["calls"], [m["path"] for m in case["universe"]]], sort_keys=True)

    def sample_repr(self, case, obs):
        return dict(db=case["db"], extra_db=case.get("extra_db"), nss=case["nss"], calls=case["calls"],
                    results=[c.get("result") for c in obs.get("calls", [])],
                    events=[c.get("events") for c in obs.get("calls", [])][:3])

    def stats(self, case, obs, acc):
        def inc(k, n=1):
            acc[k] = acc.get(k, 0) + n
        inc("cases_from_" + case.get("_src", "?"))
        inc("calls_%d" % len(case["calls"]))
        inc("namespaces_%d" % len(case["nss"]))
        if "__forget_imports__" in case["db"]:
            inc("db_with_forget")
        if case.get("extra_db"):
            inc("cases_with_extra_db")
        for call, co in zip(case["calls"], obs.get("calls", [])):
            inc("call_" + call["kind"])
            if call["kind"] == "newcell":
                continue
            inc("result_%s" % co["result"])
            if co.get("missing") == "syntax":
                inc("unparsable")
            n = len([e for e in co["events"] if e[0] == "stmt"])
            inc("import_attempts", n)
            if set(co["failed"]) - set(co["failed_before"]):
                inc("calls_with_failing_import")
            if any(a != b for a, b in zip(co["before"], co["after"])):
                inc("calls_adding_names")
            if isinstance(co.get("missing"), list) and len(co["missing"]) >= 2:
                inc("calls_with_2plus_missing")
