"""
Hand-written executable programs over the gen_exec universe: each is a layout on which an unused-import remover or
an import re-orderer can go wrong (shadowing parameters, late rebinding read only by functions, doctest imports,
header + docstring, names used only in defaults / decorators / class bodies / comprehensions / __all__).
Every program runs to completion as written.
"""
PROGRAMS = [
    # parameter shadows the imported name; another function reads the global, rebound later
    "from pa import f\ndef label(f):\n    return f\ndef call():\n    return f(1)\nfrom pb import f\nprint(label(3), call())\n",
    # doctest import of the same name as the module-level import on line 1
    'from pa import g\n\n\ndef quad(x):\n    """\n    >>> from pa import g\n    >>> g(2)\n    """\n    return g(g(x))\nprint(quad(1))\n',
    # header comment + docstring, nothing to import: a mandatory import must go after the docstring
    '#!/usr/bin/env python\n# licence\n"""The docstring."""\nimport pa\nprint(pa.f(__doc__))\n',
    '# header only\n\n"""Doc after blank."""\nx = 1\nprint(x, __doc__)\n',
    # used only in a default value / decorator-like call / class body / comprehension / lambda
    "from pa import K\ndef fn(a=K):\n    return a\nprint(fn())\n",
    "from pa import f\nclass A:\n    attr = f(1)\n    def m(self):\n        return self.attr\nprint(A().m())\n",
    "from pa import f, g\nv = [f(i) for i in (1, 2) if g(i)]\nprint(v)\n",
    "from pb import q\ncb = lambda t: q(t)\nprint(cb(1))\n",
    # used only through __all__
    "from pa import f\nfrom pb import q\n__all__ = ['f']\nprint(q())\n",
    # same name imported twice with a use in between, second unused until a function runs
    "from pa import f\nprint(f(1))\ndef late():\n    return f(2)\nfrom pb import f\nprint(late())\n",
    # submodule reached through the package import
    "import pa.s1\nimport pa.s2\nprint(pa.s1.f(1), pa.s2.g(2), pa.K)\n",
    "import pa.s1\nprint(pa.f(1))\n",
    # alias and plain import of one module
    "import pa\nimport pa as A\nprint(pa.f(1), A.g(2))\n",
    # augmented re-binding of an imported constant
    "from pb import n\nn = n + 1\nprint(n)\n",
    "from pb import n\nn += 1\nprint(n)\n",
    # import after code sharing a line, followed by a compound statement
    "x = 1; import pa\nif x:\n    print(pa.f(x))\n",
    "x = 1; import pb\nif x:\n    print(x)\n",
    # function-local import of a name that is also imported (and unused) at module level
    "from pa import f\ndef inner():\n    from pb import f\n    return f(1)\nprint(inner())\n",
    # global statement rebinding an imported name
    "from pa import K\ndef bump():\n    global K\n    K = K + 1\n    return K\nprint(bump())\n",
    # try/except import fallback
    "try:\n    from pa import f\nexcept ImportError:\n    from pb import f\nprint(f(1))\n",
    # star import providing names, plus an explicit import of one of them
    "from pd import *\nfrom pd import sc\nprint(sa(1), sc(2))\n",
    # a lambda / nested def inside a function, then a read of a name imported later at module level
    "import pb\ndef compute(vs):\n    key = lambda v: v\n    return [pa.f(key(v), pb.n) for v in vs]\nimport pa\nprint(compute([1, 2]))\n",
    "import pb\ndef compute(vs):\n    def key(v):\n        return v\n    return [pa.f(key(v), pb.n) for v in vs]\nimport pa\nprint(compute([1, 2]))\n",
    # __future__ import next to a capitalised module, a relative-looking order trap for merged sorting
    "from __future__ import annotations\nimport Pq\nfrom pa import f\nprint(Pq.zf(1), f(2))\n",
    "from __future__ import division\nfrom Pq import ZK\nimport pa\nprint(ZK / 2, pa.K)\n",
    # D43: a __future__ import whose name is rebound by a later import of the same block
    "from __future__ import annotations\nfrom pa import K as annotations\ndef fn(x: Undefined9 = 1):\n    return x\nprint(fn(), annotations)\n",
    # D45-D50: reads that the unused-import analysis used to miss
    "import pa\ndef fn(v=10):\n    match v:\n        case pa.K as y:\n            return y\n    return 0\nprint(fn())\n",
    "import pa\nimport pb\ndef fn(v=5):\n    match v:\n        case pa.K | pb.n as z:\n            return z\nprint(fn())\n",
    "import pa\nx = (pa := pa.K)\nprint(x, pa)\n",
    "import pa\ndef fn(pa=1, y: pa.C = 2):\n    return (pa, y)\nprint(fn())\n",
    "from pa import f\n__all__ = ['f']\nfrom pb import f\n",
    'import pa\ndef fn():\n    """\n    >>> import pa; import pa\n    >>> pa.K\n    """\n    return pa.K\nprint(fn())\n',
    "import pa\ndef fn[T: pa.C](a: T = 1) -> T:\n    return a\nprint(fn())\n",
    "import pa\nclass G[T: pa.C]:\n    pass\nprint(G)\n",
    # round 3: read only as a mapping-pattern key; import named like a builtin; `del` of imported names
    "import pa\ndef fn(v=10):\n    match {v: 1}:\n        case {pa.K: d, **others}:\n            return (d, others)\n    return 0\nprint(fn())\n",
    "from pa import f as pow\nprint(pow(3, 2))\n",
    "from pa import K as max\ndef fn():\n    return max\nprint(fn())\n",
    "import pa, pb\nfrom Pq import zf\nprint(pa.K)\ndel zf, pa, pb\n",
    "import pa.s2\ndel pa\nprint(1)\n",
    "def fn(v=[1, 2]):\n    match v:\n        case [a, *rest]:\n            return rest\nfrom pa import f as rest\nprint(fn(), rest(1))\n",
    # listed findings D63-D66
    "import pa\n'not a docstring'\nprint(1)\n",
    "import pa as _A__x\nclass A:\n    def m(self):\n        return __x.K\nprint(A().m())\n",
    "from pb import f\nfrom pa import *\nprint(f(1))\n",
    "from pa import K\nclass K:\n    y = K + 1\nprint(K.y)\n",
    # round 4: a decorated coroutine directly after an import (the decorator call is observable); bare annotations of
    # imported names (module level and class body) declare without binding; __all__ names a later re-import
    "import pa\n@pa.f\nasync def co():\n    return 1\nprint(co)\n",
    "import pb\nfrom pa import f\n@f\n@(lambda fn: fn)\nasync def co2():\n    return pb.n\nprint(co2)\n",
    "from pa import K\nK: int\nprint(K)\n",
    "from pa import K\nclass Fld:\n    K: int\n    y = K\nprint(Fld.y)\n",
    "import pa\nfrom pa import f\n__all__ = ['f']\nV = (1, 0)\nfrom pb import f\nprint(pa.K)\n",
    # string annotation / f-string uses
    "from pa import C\ndef ann(x: 'C') -> 'C':\n    return x\nprint(ann(1), f'{C().m(1)}')\n",
]
