"""
gen_c13 — fault plans, cell generator and the child-side runner of C13 (see c13.py, gen_c14.py).

A C13 job runs on a fresh real IPython shell (forked from the lab's zygote):

  {"kind":"c13", "config":"terminal", "pf":true|false, "loglevel":"INFO"|"ERROR"|"DEBUG",
   "db":"good"|"malformed"|"unreadable",
   "cells":[{"kind":"run"|"complete", "text":...}, ...],
   "faults":[{"site":..., "exc":..., "nth":n, "persist":bool}, ...],
   "preseed":[[import statements to execute silently before cell i], ...]}      (reference runs only)

With pf=true the auto-importer is enabled first and the fault injectors are installed around the
operations the hooks perform; with pf=false the same cells run on plain IPython (after executing
the `preseed` imports — the names the pyflyby run auto-imported successfully in that cell).
"""
from __future__ import annotations

import ast
import os
import sys
import traceback

import gen_c14
from gen_c14 import G

EXC = ["Exception", "ValueError", "OSError", "SyntaxError", "AttributeError", "RecursionError"]
EXC_EXTRA = ["KeyError", "AssertionError"]     # used by the message-shape part only
SITES = ["db_load", "parse", "scan", "import_exec", "complete"]
# fault points INSIDE the analysis / the completion lookup (round 2)
INNER_SITES = ["sym", "scope", "db_lookup", "modlist"]
# model operation kind of each site
SITE_KIND = {"db_load": "dbLoad", "db_parse": "dbLoad", "parse": "parse", "scan": "scan", "import_exec": "importExec",
             "complete": "completion",
             # symbol_needs_import / ScopeStack operations / get_known_import run inside auto_import;
             # "scan_*" = while find_missing_imports is on the stack
             "sym": "scan", "scan_sym": "scan", "scan_scope": "scan", "db_lookup": "scan",
             "scope": "completion",      # ScopeStack.merged_to_two in complete_symbol, before the local try
             # pkgutil.iter_modules inside ModuleHandle.list(), i.e. inside complete_symbol
             "modlist": "completion"}

# the functions of _interactive.py that are the installed hooks, by the name visible on the stack
HOOK_FUNCS = {
    "ofind_with_autoimport": "ofind",
    "visit": "astVisit",
    "run_with_profiler_with_autoimport": "prun",
    "global_matches_with_autoimport": "globalMatches",
    "attr_matches_with_autoimport": "attrMatches",
    "safe_execfile_with_autoimport": "safeExecfile",
    "debugger_with_autoimport": "debuggerTB",
    "run_with_debugger_with_autoimport": "runWithDebugger",
    "reset_auto_importer_state": "resetCleanup",
}


MSGS = ["marker", "empty", "noargs", "multiline", "blankfirst", "badstr"]
# exceptions that are no `Exception`: the user's Ctrl-C, sys.exit() in an imported module.  _safe_call / _try_import let
# them through by design; they are no internal error of pyflyby
BASE_EXC = ["KeyboardInterrupt", "SystemExit"]


def is_interrupt(fired):
    """trace entry value: an injected or natural BaseException"""
    return bool(fired) and fired.split(":")[-1] in BASE_EXC


def make_exception(cls, msg, marker):
    """the injected exception instance: what its message looks like is part of the fault"""
    if msg == "empty":
        return cls("")                       # `raise ValueError("")`
    if msg == "noargs":
        return cls()                         # bare `assert`, `raise KeyError()`
    if msg == "multiline":
        return cls(marker + "\nsecond line of the message\n  third line")
    if msg == "blankfirst":
        return cls("\n" + marker)
    if msg == "badstr":
        sub = type("Unprintable" + cls.__name__, (cls,), {"__str__": lambda self: (_ for _ in ()).throw(RuntimeError("INJECTED#__str__ raises"))})
        return sub(marker)
    return cls(marker)


class Injected:
    """bookkeeping of all injectors of one child"""

    def __init__(self, faults):
        self.faults = [dict(f, calls=0, fired=0) for f in faults]
        self.log = []          # (cell index, site, hook, fired exception class or None)
        self.cell = -1
        self.ncalls = {}
        self.imported = []     # import statements pyflyby executed successfully
        self.db_depth = 0
        self.scan_depth = 0

    def hook_on_stack(self):
        f = sys._getframe(2)
        found = None
        while f is not None:
            co = f.f_code
            if co.co_filename.endswith("_interactive.py") and co.co_name in HOOK_FUNCS:
                if co.co_name != "visit" or "_AutoImporter_ast_transformer" in co.co_qualname:
                    found = HOOK_FUNCS[co.co_name]    # outermost wins (keep walking)
            f = f.f_back
        return found

    def enter(self, site):
        hook = self.hook_on_stack()
        inject_site = site
        if site == "parse" and self.db_depth > 0:
            site = "db_parse"           # parsing a database file is part of loading the database
        if site in ("sym", "scope") and self.scan_depth > 0:
            site = "scan_" + site
        self.ncalls[site] = self.ncalls.get(site, 0) + 1
        fired = None
        for f in self.faults:
            if f["site"] != inject_site:
                continue
            f["calls"] += 1
            if f["calls"] == f["nth"] or (f.get("persist") and f["calls"] > f["nth"]):
                f["fired"] += 1
                fired = f
                break
        self.log.append([self.cell, site, hook, fired["exc"] if fired else None])
        if fired:
            cls = getattr(__import__("builtins"), fired["exc"])     # incl. KeyboardInterrupt (a BaseException)
            e = make_exception(cls, fired.get("msg", "marker"), "INJECTED#%s#%s" % (inject_site, fired["exc"]))
            e._verif_injected = True
            raise e


def install_injectors(inj):
    import pyflyby._importdb as _importdb
    import pyflyby._parse as _parse
    import pyflyby._autoimp as _autoimp
    import pyflyby._interactive as _interactive

    def wrap(site, fn):
        def wrapped(*a, **k):
            inj.enter(site)
            pos = len(inj.log) - 1
            try:
                return fn(*a, **k)
            except Exception as e:
                if inj.log[pos][3] is None and not getattr(e, "_verif_injected", False):
                    inj.log[pos][3] = "natural:" + type(e).__name__
                raise
        wrapped.__name__ = getattr(fn, "__name__", site)
        wrapped.__wrapped_by_verif__ = True
        return wrapped

    # database load
    orig_get_default = _importdb.ImportDB.__dict__["get_default"].__func__

    def get_default(cls, *a, **k):
        inj.enter("db_load")
        pos = len(inj.log) - 1
        inj.db_depth += 1
        try:
            return orig_get_default(cls, *a, **k)
        except Exception as e:
            if inj.log[pos][3] is None and not getattr(e, "_verif_injected", False):
                inj.log[pos][3] = "natural:" + type(e).__name__
            raise
        finally:
            inj.db_depth -= 1
    _importdb.ImportDB.get_default = classmethod(get_default)
    # parse
    _parse._parse_ast_nodes = wrap("parse", _parse._parse_ast_nodes)
    # scope analysis
    inner_scan = wrap("scan", _autoimp.find_missing_imports)

    def find_missing_imports(*a, **k):
        inj.scan_depth += 1
        try:
            return inner_scan(*a, **k)
        finally:
            inj.scan_depth -= 1
    _autoimp.find_missing_imports = find_missing_imports
    # ... and the operations inside it / inside auto_import_symbol
    _autoimp.symbol_needs_import = wrap("sym", _autoimp.symbol_needs_import)
    _autoimp.ScopeStack._with_new_scope = wrap("scope", _autoimp.ScopeStack._with_new_scope)
    _autoimp.ScopeStack.merged_to_two = wrap("scope", _autoimp.ScopeStack.merged_to_two)
    _autoimp.get_known_import = wrap("db_lookup", _autoimp.get_known_import)
    # enumeration of importable modules for a global-name completion (ModuleHandle.list -> pkgutil.iter_modules)
    import pkgutil
    pkgutil.iter_modules = wrap("modlist", pkgutil.iter_modules)
    # import execution: `exec(stmt, scratch_namespace)` in _try_import resolves `exec` through the module globals
    import builtins

    def exec_recording(stmt, ns=None, *a):
        inj.enter("import_exec")
        pos = len(inj.log) - 1
        try:
            r = builtins.exec(stmt, ns, *a)
        except BaseException as e:          # incl. KeyboardInterrupt / SystemExit raised by the imported module
            if not getattr(e, "_verif_injected", False):
                inj.log[pos][3] = "natural:" + type(e).__name__
            raise
        if isinstance(stmt, str):
            inj.imported.append(stmt)
        return r
    _autoimp.exec = exec_recording
    # completion lookup
    _interactive.complete_symbol = wrap("complete", _interactive.complete_symbol)


def _ns_view(ns):
    out = {}
    for k, v in ns.items():
        if k.startswith("_") or k in ("In", "Out", "get_ipython", "exit", "quit", "open"):
            continue
        try:
            import types
            if isinstance(v, types.ModuleType):
                out[k] = "module:" + v.__name__
            elif callable(v):
                out[k] = "callable:" + getattr(v, "__module__", "?") + "." + getattr(v, "__name__", "?")
            else:
                out[k] = type(v).__name__ + ":" + repr(v)[:(300 if k == "zzq_acc" else 40)]
        except Exception:
            out[k] = "?"
    return out


def _bound_by_text(text):
    """names the cell text itself binds at top level (so they are not auto-imports)"""
    try:
        tree = ast.parse(text)
    except SyntaxError:
        return set()
    out = set()
    for n in ast.walk(tree):
        if isinstance(n, ast.Name) and isinstance(n.ctx, ast.Store):
            out.add(n.id)
        elif isinstance(n, (ast.FunctionDef, ast.ClassDef, ast.AsyncFunctionDef)):
            out.add(n.name)
        elif isinstance(n, ast.alias):
            out.add((n.asname or n.name).split(".")[0])
    return out


def _import_stmt_for(name, v):
    import types
    if isinstance(v, types.ModuleType):
        if v.__name__ == name:
            return "import %s" % name
        return "import %s as %s" % (v.__name__, name)
    mod = getattr(v, "__module__", None)
    if mod and getattr(v, "__name__", None) == name:
        return "from %s import %s" % (mod, name)
    return None


def _normalise_out(s):
    # IPython prints timing / memory addresses in a few magics; keep the text deterministic
    import re
    s = re.sub(r" at 0x[0-9a-f]+", " at 0x?", s)
    s = re.sub(r"\x1b\[[0-9;]*m", "", s)
    return s[-20000:]


def global_state():
    """process-global state a hook might touch (canonical, JSON)"""
    import builtins
    import warnings
    root = G["root"]

    def p(x):
        return x.replace(root, "@ROOT@") if isinstance(x, str) else repr(x)
    return dict(
        sys_path=[p(x) for x in sys.path],
        cwd=p(os.getcwd()),
        modules=sorted(k for k in sys.modules if k.startswith("zzq_")),
        builtins=sorted(k for k in vars(builtins) if not k.startswith("__"))[:400],
        displayhook=type(sys.displayhook).__name__ + ":" + getattr(sys.displayhook, "__name__", ""),
        excepthook=getattr(sys.excepthook, "__qualname__", type(sys.excepthook).__name__),
        nfilters=len(warnings.filters),
        meta_path=[type(x).__name__ if not isinstance(x, type) else x.__name__ for x in sys.meta_path],
        path_hooks=len(sys.path_hooks),
        recursion=sys.getrecursionlimit(),
        stdout_is_cap=sys.stdout is G.get("cap").fo if G.get("cap") else None,
    )


def _call_from_host(host, fn, *args, **kw):
    """call into IPython from the host program's frame.  host "noname": the host code runs in a namespace without
    `__name__` (an embedding application's script runner doing `exec(src, {})`)"""
    if host == "noname":
        g = {"fn": fn, "args": args, "kw": kw}
        exec("out = fn(*args, **kw)", g)
        assert "__name__" not in g
        return g["out"]
    return fn(*args, **kw)


def run_c13(job):
    ip, app = G["ip"], G["app"]
    import pyflyby
    from pyflyby._log import logger
    root = G["root"]
    pf = job.get("pf", True)
    ident = gen_c14.Ident()
    dbname = job.get("db", "good")
    os.environ["PYFLYBY_PATH"] = os.path.join(root, "db_%s.py" % dbname)
    logger.set_level(job.get("loglevel", "INFO"))
    G["c13_level"] = job.get("loglevel", "INFO")
    cap = gen_c14._capture()
    exec("import zzq_mod_23 as zzq_bound", ip.user_ns)      # a module the user has already imported
    # an object with attributes / items for cells whose assignment targets are not plain names
    exec("import types as _t; zzq_acc = _t.SimpleNamespace(total=1, items={'k': 1}, lst=[1, 2, 3], sub=_t.SimpleNamespace(n=0)); del _t",
         ip.user_ns)
    inj = Injected(job.get("faults", []) if pf else [])
    obs = dict(config=G["config"], pf=pf, cells=[])
    host = job.get("host")
    if pf:
        with cap:
            try:
                _call_from_host(host, pyflyby.enable_auto_importer)
                esc = None
            except BaseException as e:
                esc = type(e).__name__ + ": " + str(e)[:200]
        obs["enable"] = dict(escaped=esc, importer=gen_c14.importer_view(), mv=gen_c14.model_view(ident),
                             pf_log=_pf_log(cap))
        install_injectors(inj)
    preseed = job.get("preseed") or []
    for i, cell in enumerate(job["cells"]):
        inj.cell = i
        lent = []
        if not pf and i < len(preseed):
            import builtins
            before = set(ip.user_ns)
            for stmt in preseed[i]:
                try:
                    exec(stmt, ip.user_ns)
                except Exception:
                    pass
            if cell.get("ck") in ("run", "run_plain", "run_odd", "run_odd_needs"):
                # %run executes the script in its own namespace; lend it the pre-bound names through builtins
                scratch = {}
                for stmt in preseed[i]:
                    try:
                        exec(stmt, scratch)
                    except Exception:
                        pass
                for k, v in scratch.items():
                    if k != "__builtins__" and not hasattr(builtins, k):
                        setattr(builtins, k, v)
                        lent.append(k)
        ns_before = _ns_view(ip.user_ns)
        # shells whose user namespace is not the globals of their module (config "usermod"): the module's globals apart
        distinct = ip.user_global_ns is not ip.user_ns
        gns_before = _ns_view(ip.user_global_ns) if distinct else {}
        calls_before = dict(inj.ncalls)
        n_imported_before = len(inj.imported)
        r = dict(kind=cell["kind"], text=cell["text"], level_before=G.get("c13_level"))
        esc = None
        with cap:
            try:
                if cell["kind"] == "level":
                    logger.set_level(cell["text"])       # the user changes PYFLYBY's log level mid-session
                    G["c13_level"] = cell["text"]
                elif cell["kind"] == "foreign":
                    gen_c14.do_foreign(cell["text"])     # a third party registers / rebinds hooks
                elif cell["kind"] == "run":
                    if cell.get("ck") == "autocall_on":
                        ip.autocall = 1             # the user has typed `%autocall 1`
                    try:
                        res = _call_from_host(host, ip.run_cell, cell["text"], store_history=False)
                    finally:
                        if cell.get("ck") == "autocall_on":
                            ip.autocall = 0
                    r["result"] = repr(res.result)[:200]
                    for nm, e in (("err", res.error_in_exec), ("err_before", res.error_before_exec)):
                        r[nm] = None if e is None else [type(e).__name__, str(e)[:200]]
                elif cell["kind"] == "complete":
                    text, matches = _call_from_host(host, ip.complete, cell["text"])
                    r["matches"] = sorted(matches)[:60]
                else:
                    raise ValueError(cell["kind"])
            except BaseException as e:
                esc = type(e).__name__ + ": " + str(e)[:200]
        for k in lent:
            import builtins
            delattr(builtins, k)
        r["escaped"] = esc
        r["stdout"] = _normalise_out(gen_c14._strip_pf_lines(cap.stdout))
        r["stderr"] = _normalise_out(gen_c14._strip_pf_lines(cap.stderr))
        r["pf_log"] = _pf_log(cap)
        ns_after = _ns_view(ip.user_ns)
        r["ns_new"] = {k: v for k, v in ns_after.items() if ns_before.get(k) != v}
        r["ns_gone"] = sorted(k for k in ns_before if k not in ns_after)
        gns_after = _ns_view(ip.user_global_ns) if distinct else {}
        r["gns_new"] = {k: v for k, v in gns_after.items() if gns_before.get(k) != v}
        r["gns_gone"] = sorted(k for k in gns_before if k not in gns_after)
        r["gstate"] = global_state()
        r["hlnames"] = gen_c14.hook_names()
        if pf:
            r["auto_imported"] = sorted(set(inj.imported[n_imported_before:]))
            r["importer"] = gen_c14.importer_view()
            r["mv"] = gen_c14.model_view(ident)
            r["site_calls"] = {k: v - calls_before.get(k, 0) for k, v in inj.ncalls.items() if v - calls_before.get(k, 0)}
            r["trace"] = [t[1:] for t in inj.log if t[0] == i]
        obs["cells"].append(r)
    if pf:
        obs["faults"] = inj.faults
    return obs


def _pf_log(cap):
    out = []
    for l in (cap.stdout + cap.stderr).splitlines():
        if "[PYFLYBY]" in l:
            out.append(l.split("[PYFLYBY]")[-1].replace("\x1b[0m", "").strip()[:200])
    return out[:20]


# ----------------------------------------------------------------------------
# generators (harness side)
# ----------------------------------------------------------------------------

def gen_cell(rng, k, mods_dir):
    """k: a counter that keeps the names of different cells apart"""
    i = k % gen_c14.N_MODS
    kinds = [
        ("known", 6), ("known_fn", 2), ("print_known", 2), ("plain", 2), ("assign_use", 1), ("unknown", 2),
        ("bad", 2), ("pinfo", 2), ("multi", 2), ("syntaxerr", 1), ("raise", 1), ("prun", 1), ("run", 2),
        ("run_plain", 1), ("debug", 1), ("complete_global", 3), ("complete_attr", 3), ("complete_attr_bound", 1),
        ("two_known", 1), ("autocall", 1), ("run_odd", 3), ("run_odd_needs", 1),
        ("target", 8), ("import_local", 3), ("probe", 1), ("probe_known", 2),
        # round 4: the other triggers of the _ofind hook; auto-imports interrupted by the imported module itself
        ("pinfo_fn", 2), ("pinfo2", 1), ("autocall_on", 3), ("known_int", 2), ("known_exit", 1),
        # hunt 2 (C13-H4): the user's statement under %debug builds a debugger with keyword arguments
        ("debug_kw", 2), ("run_enc", 2),
    ]
    kind = rng.choices([a for a, _ in kinds], weights=[b for _, b in kinds])[0]
    return make_cell(kind, i, k, mods_dir)


def make_cell(kind, i, k, mods_dir):
    run = lambda t: dict(kind="run", text=t, ck=kind)
    if kind == "known":
        return run(f"zzq_mod_{i}.VALUE")
    if kind == "known_fn":
        return run(f"zzq_fn_{i % gen_c14.N_FNS}()")
    if kind == "print_known":
        return run(f"print('v', zzq_mod_{i}.OTHER)")
    if kind == "plain":
        return run(f"{k} + 1")
    if kind == "assign_use":
        return run(f"zzq_x{k} = {k}\nzzq_x{k} * 2")
    if kind == "unknown":
        return run(f"zzq_unknown_{k}")
    if kind == "bad":
        return run(f"zzq_bad_{i % gen_c14.N_BAD}.x")
    if kind == "pinfo":
        return run(f"zzq_mod_{i}.VALUE?")
    if kind == "pinfo_fn":
        return run(f"zzq_call_{k % gen_c14.N_CALL}?")
    if kind == "pinfo2":
        return run(f"zzq_fn_{i % gen_c14.N_FNS}??")
    if kind == "autocall_on":
        return run(f"zzq_call_{k % gen_c14.N_CALL} {k}, 'a'")       # with `%autocall 1`: -> zzq_call_k(k, 'a')
    if kind == "known_int":
        return run(f"zzq_int_{k % gen_c14.N_INT}.x")                # importing it raises KeyboardInterrupt
    if kind == "known_exit":
        return run(f"zzq_exit_{k % gen_c14.N_INT}.x")               # importing it calls sys.exit(3)
    if kind == "multi":
        return run(f"def zzq_f{k}():\n    return zzq_mod_{i}.VALUE\nzzq_f{k}()")
    if kind == "syntaxerr":
        return run("1 +")
    if kind == "raise":
        return run(f"raise KeyError('user {k}')")
    if kind == "prun":
        return run(f"%prun -q -T {mods_dir}/../out/prun_{k}.txt zzq_mod_{i}.VALUE")
    if kind == "run":
        return run(f"%run {mods_dir}/zzq_script.py")
    if kind == "run_plain":
        return run(f"%run {mods_dir}/zzq_script_plain.py")
    if kind == "run_enc":
        return run(f"%run {mods_dir}/zzq_script_enc_{k % 2}.py")      # UTF-8 BOM / PEP 263 cookie: valid for the interpreter
    if kind in ("run_odd", "run_odd_needs"):
        d, fn = gen_c14.ODD_PATHS[k % len(gen_c14.ODD_PATHS)]
        path = f"{mods_dir}/{d}/{fn}_{'plain' if kind == 'run_odd' else 'needs'}.py"
        # %run splits its argument line like a POSIX shell: double quotes keep blanks and quotes in the path
        return run('%run "' + path.replace("\\", "\\\\").replace('"', '\\"') + '"')
    if kind == "target":
        return run(TARGET_CELLS[k % len(TARGET_CELLS)].replace("@K@", str(k)).replace("@I@", str(i)))
    if kind == "probe":
        return run(f"('zzq_foreign_probe', {k})")
    if kind == "probe_known":
        return run(f"('zzq_foreign_probe', zzq_mod_{i}.VALUE)")
    if kind.startswith("f_"):
        return dict(kind="foreign", text=kind, ck="foreign")
    if kind.startswith("level_"):
        return dict(kind="level", text=kind[6:], ck="level")
    if kind == "import_local":
        return run("import zzq_localhelper\nzzq_localhelper.WHERE")
    if kind == "debug":
        return run(f"%debug {k}+2")
    if kind == "debug_kw":
        # 'c' on stdin lets the statement run; it constructs IPython's Pdb with a keyword argument while pyflyby's
        # __init__ advice (HookPdbCtx) is in force
        kw = ["context=3", "completekey='tab'", "skip=None, context=5"][k % 3]
        return run("import sys as zzq_sys, io as zzq_io\nzzq_old = zzq_sys.stdin; zzq_sys.stdin = zzq_io.StringIO('c\\n')\n"
                   f"%debug print('made', type(__import__('IPython').core.debugger.Pdb({kw})).__name__, {k})\n"
                   "zzq_sys.stdin = zzq_old")
    if kind == "two_known":
        return run(f"(zzq_mod_{i}.VALUE, zzq_mod_{(i + 1) % gen_c14.N_MODS}.VALUE)")
    if kind == "autocall":
        return run(f"zzq_mod_{i}.OTHER.upper()")
    if kind == "complete_global":
        return dict(kind="complete", text=f"zzq_cmp_{gen_c14.CMP[k % len(gen_c14.CMP)]}_", ck=kind)
    if kind == "complete_attr":
        return dict(kind="complete", text=f"zzq_mod_{i}.VAL", ck=kind)
    if kind == "complete_attr_bound":
        return dict(kind="complete", text="zzq_bound.VAL", ck=kind)
    raise ValueError(kind)


# statements whose binding target is not a plain name (or is analysed as a read first); zzq_acc is pre-bound
TARGET_CELLS = [
    "zzq_acc.total += 5\nzzq_acc.total",
    "zzq_acc.items['k'] += zzq_mod_@I@.VALUE\nzzq_acc.items",
    "zzq_acc.sub.n -= 2\nzzq_acc.sub.n",
    "zzq_n@K@ = 1\nzzq_n@K@ += zzq_mod_@I@.VALUE\nzzq_n@K@",
    "zzq_acc.lst[0] *= 7\nzzq_acc.lst",
    "zzq_acc.note: int\nzzq_acc.ann: int = zzq_mod_@I@.VALUE\nzzq_acc.ann",
    "zzq_acc.items['a@K@']: int = 4\nsorted(zzq_acc.items)",
    "del zzq_acc.lst[0]\nzzq_acc.lst",
    "del zzq_acc.total\nhasattr(zzq_acc, 'total')",
    "import os\nwith open(os.devnull) as zzq_acc.fh:\n    pass\nzzq_acc.fh.closed",
    "for zzq_acc.i in range(3):\n    pass\nzzq_acc.i",
    "for zzq_acc.items['j'] in [zzq_mod_@I@.VALUE]:\n    pass\nzzq_acc.items['j']",
    "zzq_acc.a, zzq_acc.items['b'] = 1, 2\n(zzq_acc.a, zzq_acc.items['b'])",
    "[zzq_acc.c, *zzq_acc.rest] = [1, 2, 3]\nzzq_acc.rest",
    "zzq_acc.total += zzq_unknown_@K@",
    "try:\n    1 / 0\nexcept ZeroDivisionError as zzq_e@K@:\n    zzq_acc.err = str(zzq_e@K@)\nzzq_acc.err",
    "zzq_acc.sub.n = zzq_acc.total = zzq_mod_@I@.VALUE\n(zzq_acc.sub.n, zzq_acc.total)",
    "zzq_acc.lst[1:2] += [zzq_mod_@I@.VALUE]\nzzq_acc.lst",
]


C13_FOREIGN = ["f_add_ast", "f_add_ast", "f_add_cleanup", "f_rebind_ast", "f_set_hook", "f_rebind_matchers", "f_rebind_post"]


def add_session_events(rng, cells, mods_dir):
    """third-party registrations and log-level changes during the session; returns (cells, initial log level or None)"""
    cells = list(cells)
    level0 = None
    r = rng.random()
    if r < 0.3:
        for _ in range(rng.choice([1, 1, 2])):
            cells.insert(rng.randint(0, max(0, len(cells) - 1)), make_cell(rng.choice(C13_FOREIGN), 0, 0, mods_dir))
        cells.insert(rng.randint(1, len(cells)), make_cell(rng.choice(["probe", "probe_known"]), rng.randrange(20), rng.randrange(20), mods_dir))
    elif r < 0.5:
        sched = rng.choice([["DEBUG", "INFO"], ["DEBUG", "ERROR"], ["INFO", "DEBUG", "INFO"], ["ERROR", "DEBUG", "WARNING"]])
        level0 = sched[0]
        pos = 1
        for lv in sched[1:]:
            pos = rng.randint(pos, len(cells))
            cells.insert(pos, make_cell("level_" + lv, 0, 0, mods_dir))
            pos += 1
    return cells, level0


def gen_faults(rng, nmax=3):
    n = rng.choice([0, 1, 1, 1, 2, 2, 3][: 4 + nmax])
    out = []
    for _ in range(n):
        inner = rng.random() < 0.4
        f = dict(site=rng.choice(INNER_SITES if inner else SITES), exc=rng.choice(EXC),
                 nth=rng.choice([1, 1, 2, 2, 3, 4, 5, 7] if inner else [1, 1, 1, 2, 2, 3]),
                 persist=rng.random() < 0.4)
        if f["site"] == "modlist" and rng.random() < 0.4:
            f["exc"] = "KeyboardInterrupt"      # Ctrl-C during the slow first <TAB>
        if f["site"] == "import_exec" and rng.random() < 0.45:
            f["exc"] = rng.choice(BASE_EXC + ["KeyboardInterrupt"])     # Ctrl-C / sys.exit() during a (slow) import
        if rng.random() < 0.45:
            f["msg"] = rng.choice(MSGS[1:])
        out.append(f)
    return out
