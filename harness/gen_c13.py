"""gen_c13 — fault plans and the C13 child runner (see c13.py)."""
def run_c13(job):
    return {"lab_error": "not implemented"}
