"""C02 — Rewriting imports never changes what the program does."""
from __future__ import annotations

import os
import shutil
import tempfile

from vcommon import Prop
import rewriters as R
import gen_exec as G


class C02(Prop):
    id = "C02"
    driver = "Blocks"
    lean_modules = ["Pfb.C02.Props", "Pfb.C05.Props", "Pfb.C04.Props", "Pfb.C02.Equiv", "Pfb.C04.KeepsMissing", "Pfb.C02.EquivC"]
    theorems = [
        # the analysis side of "no import whose binding is read is ever removed" (proved over the PyCore model,
        # which C05's correspondence ties to _MissingImportFinder): a read import is never reported unused
        "Pfb.C05.C02_read_import_not_unused",
        "Pfb.C05.C02_read_import_not_unused_fragC",
        # ... and the rewriter only removes what the scan reports (Blocks model)
        "Pfb.C04.removeAll_subset",
        # ... and removing what the scan reports raises no new NameError in the reference run (fragment B)
        "Pfb.C04.C04_tidy_remove_stage_safe_fragB",
        "Pfb.C02.C02_block_env",
        "Pfb.C02.C02_block_env_exec",
        "Pfb.C02.after_eq_foldl",
        "Pfb.C02.shadowInv",
        "Pfb.C02.shadow_subset",
        "Pfb.C02.C02_d10_witness",
        "Pfb.C03.fromImportsShadow_unique",
        # re-ordering / de-duplicating an import block, stated on the reference semantics (Exec) itself
        "Pfb.C02.C02_reorder_equiv_fragB",
        "Pfb.C02.C02_swap_equiv_fragB",
        "Pfb.C02.C02_drop_shadowed_equiv_fragB",
        "Pfb.C02.C02_split_from_equiv_fragB",
        "Pfb.C02.reorder_core",
        "Pfb.C02.importStmt_spec",
        "Pfb.C02.execStmts_imports",
        "Pfb.C02.execOne_impOf",
        "Pfb.C02.foldl_bridge",
        "Pfb.C02.stmtsRel",
        "Pfb.C02.witness_d10_exec",
        "Pfb.C02.witness_d10_not_same",
        "Pfb.C02.witness_d10_perm",
        "Pfb.C02.witness_d10_hyps",
        "Pfb.C02.minv_empty",
        "Pfb.C02.loadModule_spec",
        # ... lifted to fragment C: module-level defs (before or after the block) whose bodies read the imports when called
        "Pfb.C02.C02_reorder_equiv_fragC",
        "Pfb.C02.reorder_coreC",
        "Pfb.C02.C02_late_import_read_by_function",
        "Pfb.C02.callBody_rel",
        "Pfb.C02.stmtsRelF",
        "Pfb.C02.importStmt_specC",
        "Pfb.C02.late_import_sameRun",
        "Pfb.C02.late_import_witness",
        "Pfb.C02.def_after_block_sameRun",
    ]
    anchors = [
        ("lib/python/pyflyby/_autoimp.py", "_MissingImportFinder._scan_unused_imports"),
        ("lib/python/pyflyby/_autoimp.py", "_MissingImportFinder.visit_Assign"),
        ("lib/python/pyflyby/_autoimp.py", "_MissingImportFinder._visit_Store"),
        ("lib/python/pyflyby/_autoimp.py", "_MissingImportFinder._visit_StoreImport"),
        ("lib/python/pyflyby/_autoimp.py", "_MissingImportFinder._visit__all__"),
        ("lib/python/pyflyby/_autoimp.py", "_MissingImportFinder._check_load"),
        ("lib/python/pyflyby/_autoimp.py", "scan_for_import_issues"),
        ("lib/python/pyflyby/_imports2s.py", "SourceToSourceFileImportsTransformation.remove_import"),
        ("lib/python/pyflyby/_imports2s.py", "SourceToSourceFileImportsTransformation.find_import_block_by_lineno"),
        ("lib/python/pyflyby/_importclns.py", "ImportSet._from_imports"),
        ("lib/python/pyflyby/_importclns.py", "ImportSet.get_statements"),
    ]
    quick_cases = 1500
    thorough_cases = 30000
    rule = ("executable modules from harness/gen_exec.py over the synthetic universe (packages, submodules, members, "
            "aliases, repeated/shadowing imports, imports between code, nested scopes, classes, lambdas, comprehensions, "
            "literal __all__, doctest) x {reformat, tidy with remove-unused on/off} x format params; programs whose "
            "original run raises are skipped; non-trivial = original runs to completion and the tool changed the text; "
            "each accepted case executes original and rewritten text side by side")
    trusted_base = ["CPython executes both texts; the trace is calls into universe functions, stdout, final globals, docstring"]
    assumptions = ["import execution order is not observable (the property says so)",
                   "pkg.sub reached only through a plain `import pkg.sub` (generator guarantees it)"]

    def setup(self, tier, rng):
        self.root = tempfile.mkdtemp(prefix="pfbverif_c02_")
        G.write_universe(self.root)

    def teardown(self):
        shutil.rmtree(getattr(self, "root", ""), ignore_errors=True)

    def gen_case(self, rng, i, tier):
        text = G.gen_program(rng)
        tool = rng.choice(["reformat", "tidy", "tidy"])
        flags = dict(add_missing=False, remove_unused=rng.random() < 0.8, add_mandatory=False)
        mand = []
        if tool == "tidy" and rng.random() < 0.25:
            # a mandatory import makes tidy insert a new block: the rest of the program must not notice
            mand = [rng.choice(["from __future__ import annotations", "import pb", "from pc.sub.deep import d as mand_d"])]
            flags["add_mandatory"] = True
        return dict(text=text, tool=tool, params=R.gen_params(rng), known=[], mandatory=mand, flags=flags)

    def exhaustive_cases(self, tier, rng):
        import c02_scenarios
        out = []
        for text in c02_scenarios.PROGRAMS:
            for tool, ru in (("reformat", False), ("tidy", True)):
                for mand in ([], ["from __future__ import annotations"]):
                    if mand and tool != "tidy":
                        continue
                    for params in ({}, {"separate_from_imports": False}):
                        out.append(dict(text=text, tool=tool, params=params, known=[], mandatory=mand,
                                        flags=dict(add_missing=False, remove_unused=ru, add_mandatory=bool(mand))))
        return out

    def run_impl(self, case):
        obs = {}
        r_in = G.run_program(case["text"], self.root)
        if r_in["exc"] is not None:
            obs["skip"] = r_in["exc"]
            return obs
        obs["run_in"] = r_in
        try:
            obs["out"] = R.run_tool(case)
        except Exception as e:
            obs["err"] = type(e).__name__ + ": " + str(e)[:200]
            return obs
        if obs["out"] != case["text"]:
            obs["run_out"] = G.run_program(obs["out"], self.root)
        else:
            obs["run_out"] = r_in
        obs["trace"] = R.block_trace(case)
        return obs

    def model_requests(self, case, obs):
        return R.block_requests(case, obs["trace"]) if "trace" in obs else []

    def compare(self, case, obs, resps):
        return R.block_compare(case, obs["trace"], resps)

    def oracle(self, case, obs):
        if "skip" in obs or "err" in obs:
            return []      # termination of the tool is C03's clause
        a, b = obs["run_in"], obs["run_out"]
        ctx = dict(tool=case["tool"], text=case["text"], out=obs["out"], flags=case["flags"], params=case["params"])
        fails = []
        if b["exc"] is not None:
            fails.append(dict(what="rewritten program raises", exc=b["exc"], **ctx))
            return fails
        if a["log"] != b["log"]:
            fails.append(dict(what="sequence of calls into imported objects differs", log_in=a["log"][:12], log_out=b["log"][:12], **ctx))
        if a["out"] != b["out"]:
            fails.append(dict(what="printed output differs", out_in=a["out"][:300], out_out=b["out"][:300], **ctx))
        mand_bound = set()
        for stmt in case.get("mandatory", []):
            for m, lvl, nm, asn in R.top_imports(stmt + "\n"):
                mand_bound.add(asn or nm.split(".")[0])
        for k, v in b["globals"].items():
            if k in mand_bound and k not in a["globals"]:
                continue     # bound by the mandatory import the tool was told to add
            if k not in a["globals"]:
                fails.append(dict(what="rewritten program binds a new global", name=k, **ctx))
            elif a["globals"][k] != v:
                fails.append(dict(what="surviving global bound to a different object", name=k, was=a["globals"][k], now=v, **ctx))
        if a["doc"] is not None and a["doc"] != b["doc"]:
            fails.append(dict(what="module docstring changed", **ctx))
        return fails[:3]

    def nontrivial_key(self, case, obs):
        if "run_in" in obs and obs.get("out") is not None and obs["out"] != case["text"]:
            return case["text"] + "|" + case["tool"] + repr(case["flags"]) + repr(case["params"])
        return None

    def sample_repr(self, case, obs):
        return dict(tool=case["tool"], text=case["text"][:300], out=(obs.get("out") or obs.get("skip") or obs.get("err"))[:300])

    def stats(self, case, obs, acc):
        k = "skipped_original_raises" if "skip" in obs else ("tool_raised" if "err" in obs else "executed")
        acc[k] = acc.get(k, 0) + 1
        if "out" in obs and obs["out"] != case["text"]:
            acc["changed"] = acc.get("changed", 0) + 1
        acc["tool_" + case["tool"]] = acc.get("tool_" + case["tool"], 0) + 1

    families = {}


def _top_import_groups(text):
    """[[(lineno, bound name, import_as key)]] per run of consecutive top-level import statements"""
    import ast
    tree = ast.parse(text if text.endswith("\n") else text + "\n")
    groups, cur = [], []
    for n in tree.body:
        if isinstance(n, (ast.Import, ast.ImportFrom)):
            for a in n.names:
                if a.name == "*":
                    continue
                if isinstance(n, ast.Import):
                    bound = a.asname or a.name.split(".")[0]
                    key = a.asname or a.name
                else:
                    bound = key = a.asname or a.name
                cur.append(((n.lineno, n.col_offset), bound, key))
        else:
            if cur:
                groups.append(cur)
            cur = []
    if cur:
        groups.append(cur)
    return groups, tree


def _local_bindings(fn):
    """names bound locally in a function/lambda (parameters, assignments, imports, for/with targets, defs)"""
    import ast
    out = set()
    a = fn.args
    for x in a.posonlyargs + a.args + a.kwonlyargs + ([a.vararg] if a.vararg else []) + ([a.kwarg] if a.kwarg else []):
        out.add(x.arg)
    body = fn.body if isinstance(fn.body, list) else [fn.body]
    todo = list(body)
    while todo:
        n = todo.pop()
        if isinstance(n, (ast.FunctionDef, ast.AsyncFunctionDef, ast.ClassDef)):
            out.add(n.name)
            continue          # do not descend into nested scopes
        if isinstance(n, ast.Lambda):
            continue
        if isinstance(n, ast.Name) and isinstance(n.ctx, (ast.Store, ast.Del)):
            out.add(n.id)
        if isinstance(n, (ast.Import, ast.ImportFrom)):
            for al in n.names:
                out.add(al.asname or al.name.split(".")[0])
        if isinstance(n, ast.ExceptHandler) and n.name:
            out.add(n.name)
        todo.extend(ast.iter_child_nodes(n))
    return out


def _global_loads(tree, name):
    """Name loads of `name` that can refer to the module-level binding (not shadowed by a local of an enclosing function)"""
    import ast
    out = []

    def visit(n, shadowed):
        if isinstance(n, (ast.FunctionDef, ast.AsyncFunctionDef, ast.Lambda)):
            # decorators / defaults are evaluated outside
            outer = list(getattr(n, "decorator_list", [])) + list(n.args.defaults) + [d for d in n.args.kw_defaults if d]
            for o in outer:
                visit(o, shadowed)
            sh = shadowed or (name in _local_bindings(n))
            body = n.body if isinstance(n.body, list) else [n.body]
            for b in body:
                visit(b, sh)
            return
        if isinstance(n, ast.Name) and n.id == name and isinstance(n.ctx, ast.Load) and not shadowed:
            out.append(n)
        for ch in ast.iter_child_nodes(n):
            visit(ch, shadowed)

    visit(tree, False)
    return out


def fam_same_bound_name_in_block(case, failure):
    """D10: one import block holds two imports that bind the same top-level name under different import_as keys
    (`from x import a` + `import a.b`, `import pb as pa` + `import pa.s1`)."""
    groups, _ = _top_import_groups(case["text"])
    for g in groups:
        seen = {}
        for _, bound, key in g:
            if bound in seen and seen[bound] != key:
                return True
            seen.setdefault(bound, key)
    return False


def fam_dead_rebinding_import(case, failure):
    """D24: the global that differs is rebound by a top-level import that nothing reads afterwards; removing that
    unused import leaves the earlier binding in place."""
    import ast
    if failure.get("what") != "surviving global bound to a different object":
        return False
    name = failure.get("name")
    groups, tree = _top_import_groups(case["text"])
    last = max([ln for g in groups for ln, bound, _ in g if bound == name], default=None)
    if last is None:
        return False
    for n in _global_loads(tree, name):
        if (n.lineno, n.col_offset) >= last:
            return False
    # a read inside a def / lambda body runs later, whatever its position in the text: it uses the LAST binding
    # (D32 / D19, repaired) — not this family
    deferred = set()
    for f in ast.walk(tree):
        if isinstance(f, (ast.FunctionDef, ast.AsyncFunctionDef, ast.Lambda)):
            body = f.body if isinstance(f.body, list) else [f.body]
            for b in body:
                deferred.update(id(x) for x in ast.walk(b))
    if any(id(n) in deferred for n in _global_loads(tree, name)):
        return False
    # a name exported through a literal __all__ (looked up when the module is complete; D48, repaired) or mentioned
    # in a doctest line counts as read after the last import
    for n in ast.walk(tree):
        tgt = None
        if isinstance(n, ast.Assign) and any(isinstance(t, ast.Name) and t.id == "__all__" for t in n.targets):
            tgt = n.value
        if isinstance(n, ast.AugAssign) and isinstance(n.target, ast.Name) and n.target.id == "__all__":
            tgt = n.value
        if tgt is not None and any(isinstance(c, ast.Constant) and c.value == name for c in ast.walk(tgt)):
            return False
        if isinstance(n, ast.Constant) and isinstance(n.value, str) and ">>>" in n.value:
            import re as _re
            for line in n.value.splitlines():
                if line.strip().startswith((">>>", "...")) and _re.search(r"\b%s\b" % _re.escape(name), line):
                    return False
    return True


def fam_augassign_imported_name(case, failure):
    """D9c/D35: `n += 1` on a name whose only binding is an import: the read is not seen, the import is removed."""
    import ast
    if failure.get("what") != "rewritten program raises" or "NameError" not in str(failure.get("exc")):
        return False
    import re as _re
    m = _re.search(r"name '(\w+)' is not defined", str(failure.get("exc")))
    if not m:
        return False
    name = m.group(1)
    tree = ast.parse(case["text"] if case["text"].endswith("\n") else case["text"] + "\n")
    return any(isinstance(n, ast.AugAssign) and isinstance(n.target, ast.Name) and n.target.id == name
               for n in ast.walk(tree))


def fam_future_import_shadowed(case, failure):
    """D43: a `from __future__ import F` and another top-level import binding the name F in the same module."""
    fut, other = set(), set()
    try:
        for m, lvl, nm, asn in R.top_imports(case["text"]):
            if m == "__future__":
                fut.add(asn or nm)
            else:
                other.add(asn or nm.split(".")[0])
    except SyntaxError:
        return False
    return bool(fut & other)


def fam_docstring_promotion(case, failure):
    """D63: the input has no docstring; removing its leading imports makes a following bare string the docstring."""
    import ast
    if failure.get("name") != "__doc__":
        return False
    t = case["text"]
    return ast.get_docstring(ast.parse(t if t.endswith("\n") else t + "\n"), clean=False) is None


def fam_private_name_mangling(case, failure):
    """D64: an import bound to `_Cls__x` and read as `__x` inside `class Cls` (class-private name mangling)."""
    import re as _re
    m = _re.search(r"\bas\s+_([A-Za-z][A-Za-z0-9]*?)__([A-Za-z_0-9]+)", case["text"])
    return bool(m) and ("__" + m.group(2)) in case["text"] and ("class " + m.group(1)) in case["text"]


def fam_star_with_explicit(case, failure):
    """D65: one import block holds a star import and an explicit import (sorting may move one across the other)."""
    import ast
    t = case["text"]
    tree = ast.parse(t if t.endswith("\n") else t + "\n")
    star = other = False
    for n in tree.body + [None]:
        if isinstance(n, ast.ImportFrom) and any(a.name == "*" for a in n.names):
            star = True
        elif isinstance(n, (ast.Import, ast.ImportFrom)):
            other = True
        else:
            if star and other:
                return True
            star = other = False
    return False


def fam_class_named_like_import(case, failure):
    """D66: `class X` whose body reads an imported `X` (the class's own name is treated as bound inside its body)."""
    import ast
    t = case["text"]
    tree = ast.parse(t if t.endswith("\n") else t + "\n")
    imported = set()
    for n in tree.body:
        if isinstance(n, ast.Import):
            imported.update((a.asname or a.name.split(".")[0]) for a in n.names)
        elif isinstance(n, ast.ImportFrom):
            imported.update((a.asname or a.name) for a in n.names)
        elif isinstance(n, ast.ClassDef) and n.name in imported:
            if any(isinstance(x, ast.Name) and x.id == n.name and isinstance(x.ctx, ast.Load) for b in n.body for x in ast.walk(b)):
                return True
    return False


C02.families = {"augassign_imported_name": fam_augassign_imported_name,
                "docstring_promotion": fam_docstring_promotion,
                "private_name_mangling": fam_private_name_mangling,
                "star_with_explicit": fam_star_with_explicit,
                "class_named_like_import": fam_class_named_like_import,
                "future_import_shadowed": fam_future_import_shadowed,
                "same_bound_name_in_block": fam_same_bound_name_in_block,
                "dead_rebinding_import": fam_dead_rebinding_import}

PROP = C02()
