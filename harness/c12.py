"""C12 — Import database: composition, forgetting and cache coherence."""
from __future__ import annotations

import json
import os
import re
import shutil
import subprocess
import sys
import tempfile

from vcommon import Prop, REPO, VERIF, load_known_findings
import gen_c12

SHM = "/dev/shm"
ENV_NAMES = ["PYFLYBY_PATH", "PYFLYBY_KNOWN_IMPORTS_PATH", "PYFLYBY_MANDATORY_IMPORTS_PATH"]


# =============================================================================================
# world materialisation
# =============================================================================================
def build_tree(R, node, rel=""):
    """Create the abstract tree under the real directory R.  A node with "ln" is a symbolic link to that
    abstract path (its other fields are a copy of the target, which is what the model and the oracle see)."""
    path = R + rel
    if "ln" in node:
        os.symlink(R + node["ln"], path)
    elif "ch" in node:
        os.makedirs(path, exist_ok=True)
        for nm, ch in node["ch"]:
            build_tree(R, ch, rel + "/" + nm)
    else:
        with open(path, "w", encoding="utf-8") as f:
            f.write(node["text"])


def tree_index(node, rel="", out=None):
    """abstract path -> node, for every node ("/" is the root); dangling links are nothing."""
    if out is None:
        out = {}
    if node.get("broken"):
        return out
    out[rel or "/"] = node
    if "ch" in node:
        for nm, ch in node["ch"]:
            tree_index(ch, rel + "/" + nm, out)
    return out


def real_env_value(R, v):
    """Abstract search-path value -> real one: components starting with '/' live under R."""
    if v is None:
        return None
    return ":".join((R + c) if c.startswith("/") else c for c in v.split(":"))


# The names of the process's streams (stdin & co.): the only targets that do not denote a file in a directory.  The
# property speaks about "a target file"; for these names the reference follows the code (the current directory).
DEV_STREAM = re.compile(r"/dev/(?:stdin|stdout|stderr|null|tty|fd/[0-9]+)\Z")


def is_dev_stream(t):
    return bool(DEV_STREAM.match(t))


def real_target(R, t):
    """Abstract (plain str) target -> the str passed to pyflyby.  The names of the process's streams (/dev/stdin, …) are
    passed literally; a relative target is passed as it is (the process's current directory is the world's); every other
    absolute path lives below the scratch root — "/devel/x.py" too: an ordinary path.  (Worlds with "shm" are
    materialised below /dev/shm: there every absolute target STARTS WITH "/dev" without being a device — C12-2.)"""
    if is_dev_stream(t) or not t.startswith("/"):
        return t
    return R + t


def plain_target(case, t):
    """The plain str target that a target form (gen_c12.gen_target_forms) is equivalent to; this is what the Lean
    model and the reference expansion receive.  Why equivalent for this property: get_default turns every form into a
    str before anything else happens (None -> "." = the current directory; a Filename -> its str, which is the
    normalised absolute path, and normalisation is what Path.resolve() does to the str anyway in a tree without links on
    the target path); interpret_arg(None, t) is a plain call of get_default(t)."""
    if t is None:
        return case["cwd"]
    if t.startswith("FN:") or t.startswith("IA:"):
        return t[3:]
    return t


def call_target(M, R, t):
    """One lookup of the real code for a target form."""
    if t is None:
        return M.ImportDB.get_default(None)
    if t.startswith("FN:"):
        from pyflyby._file import Filename
        return M.ImportDB.get_default(Filename(real_target(R, t[3:])))
    if t.startswith("IA:"):
        return M.ImportDB.interpret_arg(None, real_target(R, t[3:]))
    return M.ImportDB.get_default(real_target(R, t))


def unsafe_cwd_dev(case, q):
    """The one documented O-only situation: a stream target (/dev/stdin, …) while the current directory is one pyflyby's Filename
    refuses.  get_default then keeps the target's own directory, the REAL /dev (or /), whose ancestors are outside the
    scratch world; the model's world has no such directory.  O still judges these lookups (reference: the real
    directory, everything outside the scratch root on one simulated partition), K skips them and the histories they
    occur in."""
    return not _safe_path(case["cwd"]) and is_dev_stream(plain_target(case, q["t"]))


def make_fake_dev(R, index):
    def fake_dev(filename):
        a = abstract_path(R, filename)
        if a.startswith("OUTSIDE:"):
            return -1                       # everything above the scratch root: another partition
        n = index.get(a)
        if n is None:
            return None
        if "ch" in n:
            return n["dev"]
        return index[a.rsplit("/", 1)[0] or "/"]["dev"]
    return fake_dev


class OsProxy:
    """`os` as pyflyby._importdb sees it: the real module, except that `stat` reports the simulated partition of
    the path as st_dev (everything else of the result is the real stat; a missing path raises as usual).  With
    it the real `_get_st_dev` runs (it used to be replaced by the harness)."""

    def __init__(self, real_os, fake_dev):
        self._os = real_os
        self._fake_dev = fake_dev

    def __getattr__(self, name):
        return getattr(self._os, name)

    def stat(self, path, *a, **k):
        st = self._os.stat(path, *a, **k)
        dev = self._fake_dev(self._os.fspath(path))
        if dev is None:
            return st
        f = list(st)
        f[2] = dev
        return self._os.stat_result(f)


def install_os_proxy(M, R, index):
    saved = M.os
    M.os = OsProxy(saved if not isinstance(saved, OsProxy) else saved._os, make_fake_dev(R, index))
    cache = getattr(M._get_st_dev, "cache", None)
    if isinstance(cache, dict):
        cache.clear()                       # the memo of another world says nothing about this one
    return saved


def abstract_path(R, p):
    p = str(p)
    if p == R:
        return "/"
    if p.startswith(R + "/"):
        return p[len(R):]
    return "OUTSIDE:" + p


class World:
    """Materialised world + the patches that make pyflyby see it (HOME, cwd, etc-dirs, st_dev)."""

    base = None         # per-run scratch parent (set by C12.setup, removed by C12.teardown)
    base_shm = None     # the same below /dev/shm (None: not available), for worlds with case["shm"]

    def __init__(self, case):
        self.case = case
        self.index = tree_index(case["tree"])
        parent = World.base_shm if (case.get("shm") and World.base_shm) else World.base
        if case.get("shm") and parent is None and os.path.isdir(SHM) and os.access(SHM, os.W_OK):
            parent = SHM                    # outside a run (dbg.py, replay): directly below /dev/shm
        self.tmp = os.path.realpath(tempfile.mkdtemp(prefix="pfbc12_", dir=parent))
        self.R = self.tmp + "/r"
        build_tree(self.R, case["tree"])
        self.saved_env = {k: os.environ.get(k) for k in ENV_NAMES + ["HOME"]}
        self.saved_cwd = os.getcwd()
        os.environ["HOME"] = self.R + case["home"]
        os.chdir(self.R + (case["cwd"] if case["cwd"] != "/" else ""))
        import pyflyby._importdb as M
        from pyflyby._file import Filename
        self.M = M
        R, index = self.R, self.index
        self.saved = (install_os_proxy(M, R, index), M._find_etc_dirs)
        etc = [Filename(R + e) for e in case["etc"]]
        M._find_etc_dirs = lambda: list(etc)
        # observe the file list get_default really loads (argument of _from_filenames)
        self.loaded = loaded = []
        self.saved_ff = M.ImportDB.__dict__["_from_filenames"]
        orig = self.saved_ff.__func__

        def _from_filenames(cls, filenames, *a, **k):
            loaded.append([abstract_path(R, f) for f in filenames])
            return orig(cls, filenames, *a, **k)
        M.ImportDB._from_filenames = classmethod(_from_filenames)

    def close(self):
        M = self.M
        M.os, M._find_etc_dirs = self.saved
        M.ImportDB._from_filenames = self.saved_ff
        M.ImportDB._default_cache.clear()
        os.chdir(self.saved_cwd)
        for k, v in self.saved_env.items():
            if v is None:
                os.environ.pop(k, None)
            else:
                os.environ[k] = v
        shutil.rmtree(self.tmp, ignore_errors=True)

    # -- one lookup ---------------------------------------------------------------------------
    def set_env(self, env):
        for k, v in zip(ENV_NAMES, env):
            rv = real_env_value(self.R, v)
            if rv is None:
                os.environ.pop(k, None)
            else:
                os.environ[k] = rv

    def lookup(self, q):
        """ImportDB.get_default on the current cache; returns the DB object or ('err', class name)."""
        self.set_env(q["env"])
        try:
            return call_target(self.M, self.R, q["t"])
        except Exception as e:
            return ("err", exc_name(e))

    def cache_keys(self):
        """The keys of the class-level cache, abstracted: Filenames -> abstract paths, env strings -> abstract."""
        from pyflyby._file import Filename

        def conv(x):
            if isinstance(x, Filename):
                return abstract_path(self.R, x)
            if isinstance(x, (tuple, list)):
                return [conv(y) for y in x]
            if isinstance(x, str):
                return self.unreal(x)
            if x is None or isinstance(x, (int, bool)):
                return x
            return repr(x)
        out = []
        for k in self.M.ImportDB._default_cache:
            if isinstance(k, tuple) and k:
                out.append([str(k[0])] + [conv(x) for x in k[1:]])
            else:
                out.append(["?", conv(k)])
        return sorted(out, key=lambda x: json.dumps(x))

    def unreal(self, v):
        if v is None:
            return None
        return ":".join(c[len(self.R):] if c.startswith(self.R + "/") or c == self.R else c for c in v.split(":"))


def env_has_cwd_relative(env):
    """Does one of the three search-path values hold a component spelled relative to the current directory (`./x`)?
    (`_get_python_path` accepts components starting with `/`, `./`, `.../` or `~/` only.)"""
    return any(c.startswith("./") or c == "." for v in env if v for c in v.split(":"))


def exc_name(e):
    n = type(e).__name__
    return n if n in ("ValueError", "UnsafeFilenameError", "SyntaxError", "AssertionError") else "Other:" + n


_SER = {}
_FIXES = {}


def probe_fixes():
    """Which of the proposed repairs does the tree under test have?  One behavioural probe each, once per process; the
    answer only selects the variant of the Lean model K compares with (O never looks at it).
      dev   (fixes/C12-2.diff): does get_default("/devel…/x.py") start at the target's directory (True) or at the cwd?
      canon (fixes/C12-4.diff): does `import a.b` in the removals reach the canonical entry 'a.b'?"""
    import pyflyby._importdb as M
    key = M.__file__
    if key in _FIXES:
        return dict(_FIXES[key])
    from pyflyby._importclns import ImportMap
    out = {}
    try:
        out["canon"] = len(ImportMap({"a.b": "z.b"}).without_imports(["import a.b"])) == 0
    except Exception:
        out["canon"] = False
    saved_env = {k: os.environ.get(k) for k in ENV_NAMES}
    saved_cwd = os.getcwd()
    saved_cache = dict(M.ImportDB._default_cache)
    try:
        os.chdir("/")
        for k in ENV_NAMES:
            os.environ.pop(k, None)
        os.environ["PYFLYBY_PATH"] = "EMPTY"
        M.ImportDB._default_cache.clear()
        M.ImportDB.get_default("/devel_pfbc12_probe/zz/x.py")
        dirs = {str(k[1]) for k in M.ImportDB._default_cache if isinstance(k, tuple) and k and k[0] == 1}
        out["dev"] = "/devel_pfbc12_probe/zz" in dirs
    except Exception:
        out["dev"] = False
    finally:
        M.ImportDB._default_cache.clear()
        M.ImportDB._default_cache.update(saved_cache)
        os.chdir(saved_cwd)
        for k, v in saved_env.items():
            if v is None:
                os.environ.pop(k, None)
            else:
                os.environ[k] = v
    _FIXES[key] = out
    return dict(out)


def ser_db(db, memo=None):
    """Canonical JSON form of an ImportDB (or of an error)."""
    if isinstance(db, tuple):
        return {"err": db[1]}
    if memo is not None and id(db) in memo:
        return memo[id(db)][1]
    imps = lambda s: sorted([i.fullname, i.import_as] for i in s.imports)
    out = {
        "known": imps(db.known_imports),
        "mandatory": imps(db.mandatory_imports),
        "forget": imps(db.forget_imports),
        "canonical": sorted([k, v] for k, v in db.canonical_imports.items()),
        "bfi": sorted([k, [[i.fullname, i.import_as] for i in v]] for k, v in db.by_fullname_or_import_as.items()),
    }
    if memo is not None:
        memo[id(db)] = (db, out)           # keep db alive so that ids stay unique
    return out


def qkey(q):
    return json.dumps([q["t"], q["env"]])


# =============================================================================================
# independent reference (no pyflyby): the property's own sentences
# =============================================================================================
import re as _re
_SAFE = _re.compile(r"^[a-zA-Z0-9_=+{}/.,~@-]*$")


def _safe_path(p):
    return bool(_SAFE.match(p)) and not _re.search(r"(^|/)~", p)


def ref_target_dir(w, t):
    """Directory the search starts from: the target if it is a directory, else the nearest existing
    directory above it (a /dev... target means the current directory); path components pyflyby
    refuses to handle (unsafe characters) are skipped upwards."""
    real = real_target(w.R, plain_target(w.case, t))
    if is_dev_stream(real) and _safe_path(os.getcwd()):
        return os.getcwd()
    # (a stream target in a current directory that cannot be represented is a path like any other: the real /dev)
    p = os.path.normpath(os.path.join(os.getcwd(), real))
    if not os.path.isdir(p):
        p = os.path.dirname(p)
    while not _safe_path(p):
        p = os.path.dirname(p)
    return _first_dir(p)


def _first_dir(p):
    while not os.path.isdir(p):
        p = os.path.dirname(p)
    return p


def ref_walk(top):
    """Every regular file *.py below a directory: every sub-directory is descended whatever its name, except
    hidden ones and __pycache__ (os.walk; symbolic links to files/directories count as what they point to)."""
    out = []
    for dirpath, dirnames, filenames in os.walk(top, followlinks=True):
        dirnames[:] = [d for d in dirnames if not d.startswith(".") and d != "__pycache__" and _safe_path(d)]
        for f in filenames:
            if (f.endswith(".py") and not f.startswith(".") and _safe_path(f)
                    and os.path.isfile(os.path.join(dirpath, f))):
                out.append(os.path.join(dirpath, f))
    # order: depth-first, entries of one directory in name order, a sub-directory expands in place
    def key(p):
        return os.path.relpath(p, top).split("/")
    return sorted(out, key=key)


def ref_files(w, q):
    """The documented expansion of the search path for one (target, env); 'error' kinds as strings."""
    case, R = w.case, w.R
    pp = q["env"][0]
    default = [R + e for e in case["etc"]] + [".../.pyflyby", "~/.pyflyby"]
    entries = [c for c in (real_env_value(R, pp) or "").split(":") if c]
    if not entries:
        entries = default
    elif "-" in entries:
        i = entries.index("-")
        entries = entries[:i] + default + entries[i + 1:]
    if entries == ["EMPTY"]:
        return []
    for e in entries:
        if not (e.startswith("/") or e.startswith("./") or e.startswith(".../") or e.startswith("~/")):
            return "ValueError"
    start = ref_target_dir(w, q["t"])
    paths = []
    for e in entries:
        if e.startswith("~/"):
            e = os.environ["HOME"] + e[1:]
        if e.startswith(".../"):
            suffix = e[4:]
            # every ancestor of the start directory on the same (simulated) filesystem, outermost first
            anc = []
            d = start
            dev0 = None
            while True:
                a = abstract_path(R, d)
                # everything outside the scratch root is one other (simulated) partition
                dev = -1 if a.startswith("OUTSIDE:") else w.index[a]["dev"]
                if dev0 is None:
                    dev0 = dev
                if dev != dev0:
                    break
                anc.append(d)
                if d == "/":
                    break
                d = os.path.dirname(d)
            for d in reversed(anc):
                p = os.path.normpath(os.path.join(d, suffix))
                if _safe_path(p):
                    paths.append(p)
        else:
            p = os.path.normpath(os.path.join(os.getcwd(), e))
            if not _safe_path(p):
                return "UnsafeFilenameError"
            paths.append(p)
    seen, uniq = set(), []
    for p in paths:
        if p not in seen:
            seen.add(p)
            uniq.append(p)
    out = []
    for p in uniq:
        if os.path.isfile(p):
            out.append(p)
        elif os.path.isdir(p):
            out.extend(ref_walk(p))
    return [abstract_path(R, p) for p in out]


def ref_etc_dirs(pkgdir):
    """The defaults that come before `.../.pyflyby` and `~/.pyflyby`: the etc/pyflyby of the installation (nearest
    directory at/above the package that has one; the file system root itself is not looked at) and /etc/pyflyby."""
    out = []
    d = os.path.realpath(pkgdir)
    while d != "/":
        if os.path.isdir(os.path.join(d, "etc/pyflyby")):
            out.append(os.path.join(d, "etc/pyflyby"))
            break
        d = os.path.dirname(d)
    if os.path.exists("/etc/pyflyby"):
        out.append("/etc/pyflyby")
    return out


def forgotten(imp, forget):
    """Is `imp` named by the forget list?  exact (fullname, import_as) match, or a star entry
    `from M import *` naming every from-import out of M or a sub-module of M."""
    if imp in forget:
        return True
    fn, ia = imp
    if fn == ia:
        return False                     # `import a.b` is not a member of a module
    stripped = fn.lstrip(".")
    lvl = fn[:len(fn) - len(stripped)]
    mod = lvl + stripped.rpartition(".")[0] if "." in stripped else lvl
    if not mod:
        return False
    for ffn, fia in forget:
        if fia == "*" and ffn.endswith(".*"):
            m = ffn[:-2]
            if mod == m or mod.startswith(m + "."):
                return True
    return False


def name_forgotten(name, forget):
    """Is the dotted name `name` (a key or a value of the canonical map) named by the forget list?  A canonical entry has
    no import_as: it is matched by `from a import b` and by `import a.b`, and by a star entry covering its module — "which
    also removes matching mandatory and canonical entries"."""
    return forgotten([name, name.split(".")[-1]], forget) or [name, name] in forget


def name_forgotten_as_coded(name, forget):
    """What ImportMap.without_imports tests on the pinned tree (finding C12-4): Import(name) in removals, nothing else."""
    return [name, name.split(".")[-1]] in forget


def ref_db(w, files):
    """Union of the file contents minus forget, from the abstract contents (the generator's ground truth)."""
    known, mand, forget, canon = [], [], [], {}
    for f in files:
        n = w.index.get(f)
        if n is None or "ch" in n:
            return {"err": "harness: no such file " + f}
        if n.get("syn"):
            return {"err": "SyntaxError"}
        for st in n["stmts"]:
            if "bad" in st:
                return {"err": "ValueError"}
            if "k" in st:
                known.extend(st["k"])
            elif "m" in st:
                mand.extend(st["m"])
            elif "f" in st:
                forget.extend(st["f"])
            elif "c" in st:
                for k, v in st["c"]:
                    canon[k] = v
    uniq = lambda l: sorted({tuple(x) for x in l})
    fl = [list(x) for x in uniq(forget)]
    return {
        "known": [list(x) for x in uniq(known) if not forgotten(list(x), fl)],
        "mandatory": [list(x) for x in uniq(mand) if not forgotten(list(x), fl)],
        "forget": fl,
        "canonical": sorted([k, v] for k, v in canon.items() if not name_forgotten(k, fl) and not name_forgotten(v, fl)),
    }


# =============================================================================================
# the property
# =============================================================================================
class C12(Prop):
    id = "C12"
    driver = "C12"
    lean_modules = ["Pfb.C12.Props"]
    theorems = [
        "Pfb.C12.C12_path",
        "Pfb.C12.C12_push_order",
        "Pfb.C12.C12_path_files",
        "Pfb.C12.C12_path_visible",
        "Pfb.C12.C12_path_descends_any_dir",
        "Pfb.C12.C12_path_explicit_kept",
        "Pfb.C12.C12_path_skips",
        "Pfb.C12.C12_union",
        "Pfb.C12.C12_union_error",
        "Pfb.C12.C12_canonical_last_wins",
        "Pfb.C12.C12_forget_everywhere",
        "Pfb.C12.C12_lookup_nonempty_partial",
        "Pfb.C12.C12_lookup_nonempty_fixed",
        "Pfb.C12.C12_fresh_is_uncached",
        "Pfb.C12.C12_cache_coherent",
        "Pfb.C12.C12_cache_invariant",
        "Pfb.C12.C12_default_db",
        "Pfb.C12.D15_entry_empty",
        "Pfb.C12.D15_lookup_empty",
        "Pfb.C12.D15_fixed_lookup",
        "Pfb.C12.C12_forget_canonical_fixed",
        "Pfb.C12.fromDataFixed_eq_fixCanon",
        "Pfb.C12.C12_target_dir_fixed",
        "Pfb.C12.C12_target_dir_mount_blind",
        "Pfb.C12.C12_4_coded_keeps_dotted",
        "Pfb.C12.C12_4_fixed_drops_dotted",
        "Pfb.C12.C12_4_coded_keeps_star",
        "Pfb.C12.C12_4_fixed_drops_star",
        "Pfb.C12.C12_2_coded_uses_cwd",
        "Pfb.C12.C12_2_fixed_uses_target",
        "Pfb.C12.C12_2_stream_is_cwd",
    ]
    anchors = [
        ("lib/python/pyflyby/_importdb.py", "_get_env_var"),
        ("lib/python/pyflyby/_importdb.py", "_get_python_path"),
        ("lib/python/pyflyby/_importdb.py", "_expand_tripledots"),
        ("lib/python/pyflyby/_importdb.py", "_ancestors_on_same_partition"),
        ("lib/python/pyflyby/_importdb.py", "_get_st_dev"),
        ("lib/python/pyflyby/_importdb.py", "ImportDB.get_default"),
        ("lib/python/pyflyby/_importdb.py", "ImportDB._from_data"),
        ("lib/python/pyflyby/_importdb.py", "ImportDB._from_code"),
        ("lib/python/pyflyby/_importdb.py", "ImportDB.by_fullname_or_import_as"),
        ("lib/python/pyflyby/_file.py", "expand_py_files_from_args"),
        ("lib/python/pyflyby/_file.py", "Filename._from_filename"),
        ("lib/python/pyflyby/_file.py", "Filename.list"),
        ("lib/python/pyflyby/_importclns.py", "ImportSet.without_imports"),
        ("lib/python/pyflyby/_importclns.py", "ImportMap.without_imports"),
        ("lib/python/pyflyby/_importclns.py", "ImportMap._merge"),
        ("lib/python/pyflyby/_importstmt.py", "Import.split"),
    ]
    quick_cases = 400
    thorough_cases = 1500
    quick_deadline_s = 60
    thorough_deadline_s = 600
    rule = ("worlds from harness/gen_c12.py: directory trees with files and directories named .pyflyby/.cfg at several "
            "ancestor levels, nested *.py directories with hidden entries, __pycache__, non-.py and unsafe names, simulated "
            "partitions, database files with known/mandatory/canonical/forget statements in random order and spelling "
            "(several imports per list item, `;`/newline/comment inside an item, empty lists and items, FULLWIDTH identifiers "
            "that NFKC-normalise to the ASCII name, 22 kinds of statement a database file must not contain); targets as absolute or "
            "relative str, None, Filename object, or through interpret_arg; one world in ten has a current directory or $HOME "
            "whose name pyflyby refuses (blank), with /dev/stdin-like targets; one world in eight is materialised below /dev/shm "
            "(every absolute target then starts with the characters /dev without being a device: finding C12-2); forget lists "
            "name canonical keys/values as `from a import b`, as `import a.b` and through star entries (finding C12-4); "
            "6 lookup histories (length <= 4) per world over a small target x env alphabet, plus (exhaustive) every history "
            "up to length 2 over a 3 x 2 alphabet (quick) / 3, every tenth world 4, over a 4 x 3 alphabet (thorough); a case is non-trivial when some lookup loads "
            ">= 2 files and some history has a cache hit")
    trusted_base = ["the rendering of abstract imports to Python text and its inverse (CPython import syntax)",
                    "`os.stat` as seen by pyflyby._importdb reports the simulated partition as st_dev (the real `_get_st_dev` runs on "
                    "it); `_find_etc_dirs`, $HOME and the cwd are set by the harness (the real `_find_etc_dirs` is compared with "
                    "<installation>/etc/pyflyby [+ /etc/pyflyby] in the fresh-interpreter reference)",
                    "which variant of the model K compares with (the `/dev` test, the canonical map's forget rule) is chosen by "
                    "two behavioural probes of the tree under test (c12.probe_fixes); O does not use them",
                    "a stream target (/dev/stdin, …) in a current directory pyflyby refuses resolves to the REAL /dev: judged by O only "
                    "(reference: the real directory, everything above the scratch root on one partition), skipped by K",
                    "parsing of database files (PythonBlock, ImportStatement) is not modelled: the model receives the parsed "
                    "imports the generator rendered; the oracle compares the real parse with that ground truth"]
    assumptions = ["the tree, $HOME, the current directory and the etc-dir default do not change during a history",
                   "no symbolic links in the tree (Path.resolve / Filename.real are the identity on normalised paths)",
                   "SUPPORT_DEPRECATED_BEHAVIOR = False as in the code",
                   "only regular files and directories; every file readable",
                   "canonical keys/values are dotted identifiers"]

    EXH_QUICK_LEN = 2
    EXH_THOROUGH_LEN = 3
    EXH_THOROUGH_LEN4_EVERY = 10

    # -- scratch ---------------------------------------------------------------
    def setup(self, tier, rng):
        # one parent per run: worlds of workers killed at the deadline are removed with it
        World.base = os.path.realpath(tempfile.mkdtemp(prefix="pfbc12run_"))

        World.base_shm = None
        if os.path.isdir(SHM) and os.access(SHM, os.W_OK):
            try:
                World.base_shm = os.path.realpath(tempfile.mkdtemp(prefix="pfbc12run_", dir=SHM))
            except OSError:
                World.base_shm = None

    def teardown(self):
        if World.base:
            shutil.rmtree(World.base, ignore_errors=True)
            World.base = None
        if World.base_shm:
            shutil.rmtree(World.base_shm, ignore_errors=True)
            World.base_shm = None

    # -- cases ---------------------------------------------------------------
    def gen_case(self, rng, i, tier):
        case = gen_c12.gen_world(rng)
        targets = [json.loads(x) for x in sorted({json.dumps(q["t"]) for h in case["histories"] for q in h})]
        envs = sorted({json.dumps(q["env"]) for h in case["histories"] for q in h})
        rng.shuffle(targets)
        rng.shuffle(envs)
        L = self.EXH_QUICK_LEN
        if tier == "thorough":
            L = 4 if i % self.EXH_THOROUGH_LEN4_EVERY == 0 else self.EXH_THOROUGH_LEN
        nt, ne = (4, 3) if tier == "thorough" else (3, 2)      # quick: 6 + 36 lookups per world
        case["exh"] = {"targets": targets[:nt], "envs": [json.loads(e) for e in envs[:ne]], "len": L}
        case["subproc"] = (i % (10 if tier == "thorough" else 25) == 0)
        return case

    def exhaustive_cases(self, tier, rng):
        return []

    # -- implementation ------------------------------------------------------
    def run_impl(self, case):
        fixes = probe_fixes()
        w = World(case)
        try:
            obs = self._run(w, case)
            obs["fixes"] = fixes
            obs["mount"] = "/dev/shm/w" if w.R.startswith("/dev") else "/tmp/w"
            return obs
        finally:
            w.close()

    def _run(self, w, case):
        DB = w.M.ImportDB
        memo = {}
        obs = {"hist": [], "fresh": {}}
        queries = {}
        for h in case["histories"]:
            for q in h:
                queries[qkey(q)] = q
        exh = case.get("exh")
        if exh:
            for t in exh["targets"]:
                for e in exh["envs"]:
                    q = {"t": t, "env": e}
                    queries[qkey(q)] = q
        # uncached reference for every distinct query: cache cleared, get_default, file list from the (2, …) key
        obs["clear"] = []
        for qi, (k, q) in enumerate(queries.items()):
            if qi % 2 == 0:
                # the public way of emptying the cache
                try:
                    DB.clear_default_cache()
                    if len(DB._default_cache):
                        obs["clear"].append("%d entries left" % len(DB._default_cache))
                except Exception as e:
                    obs["clear"].append("raised " + exc_name(e))
            DB._default_cache.clear()
            del w.loaded[:]
            r = w.lookup(q)
            files = w.loaded[-1] if w.loaded else None
            try:
                ref = ref_files(w, q)
            except Exception as e:      # pragma: no cover
                ref = "harness:" + repr(e)
            obs["fresh"][k] = {"db": ser_db(r, memo), "files": files, "ref_files": ref,
                               "keys": w.cache_keys()}
            if case.get("shm"):
                # what the documented expansion gives from the CURRENT directory (only used to keep family C12-2 narrow)
                try:
                    obs["fresh"][k]["ref_files_cwd"] = ref_files(w, {"t": None, "env": q["env"]})
                except Exception:
                    pass
        # histories from an empty cache
        for h in case["histories"]:
            DB._default_cache.clear()
            steps = []
            for q in h:
                n0 = len(DB._default_cache)
                r = w.lookup(q)
                steps.append({"db": ser_db(r, memo), "keys": w.cache_keys(), "grew": len(DB._default_cache) > n0})
            obs["hist"].append(steps)
        # exhaustive histories over the small alphabet, depth-first with cache snapshots
        if exh:
            alpha = [{"t": t, "env": e} for t in exh["targets"] for e in exh["envs"]]
            fresh = [obs["fresh"][qkey(q)]["db"] for q in alpha]
            bad, count = [], [0]

            def rec(prefix, snapshot, depth):
                for i, q in enumerate(alpha):
                    DB._default_cache.clear()
                    DB._default_cache.update(snapshot)
                    r = w.lookup(q)
                    count[0] += 1
                    if ser_db(r, memo) != fresh[i] and len(bad) < 3:
                        bad.append({"history": prefix + [q], "got": ser_db(r, memo), "want": fresh[i]})
                    if depth + 1 < exh["len"]:
                        rec(prefix + [q], dict(DB._default_cache), depth + 1)
            rec([], {}, 0)
            obs["exh"] = {"n": count[0], "bad": bad}
        # the current directory changes between two lookups of the same relative target (None, ".", a relative name):
        # the second answer comes from a warm cache and must equal a fresh load made in the new directory (O only:
        # the model's world has one current directory)
        rel = [q for q in queries.values() if q["t"] is None or not plain_target(case, q["t"]).startswith("/")]
        dirs = sorted(k for k, n in w.index.items() if "ch" in n and _safe_path(k) and k != case["cwd"])
        if rel and dirs:
            here = os.getcwd()
            bad, n = [], 0
            try:
                for q in rel[:3]:
                    for d in (dirs[:1] + dirs[-1:] + dirs[len(dirs) // 2:len(dirs) // 2 + 1]):
                        real_d = w.R + (d if d != "/" else "")
                        if not os.path.isdir(real_d):
                            continue
                        os.chdir(here)
                        DB._default_cache.clear()
                        w.lookup(q)
                        os.chdir(real_d)
                        got = ser_db(w.lookup(q), memo)
                        DB._default_cache.clear()
                        want = ser_db(w.lookup(q), memo)
                        n += 1
                        if got != want:
                            # (kept apart so that one kind cannot crowd the other out of the report)
                            kind = env_has_cwd_relative(q["env"])
                            if sum(1 for b in bad if b["rel_env"] == kind) < 2:
                                bad.append({"q": q, "cwd2": d, "got": got, "want": want, "rel_env": kind})
            finally:
                os.chdir(here)
            obs["chdir"] = {"n": n, "bad": bad}
        # clear_default_cache() with debug logging on (it then walks over the keys of the populated cache)
        import io
        from pyflyby._log import logger
        lvl, err = logger.level, sys.stderr
        sys.stderr = io.StringIO()
        try:
            logger.set_level("DEBUG")
            DB.clear_default_cache()
            if len(DB._default_cache):
                obs["clear"].append("%d entries left (debug logging on)" % len(DB._default_cache))
        except Exception as e:
            obs["clear"].append("raised %s (debug logging on)" % exc_name(e))
        finally:
            logger.set_level(lvl)
            sys.stderr = err
        # end-to-end lookups through get_known_import on every loaded database
        obs["gki"] = self._known_import_probe(w, memo)
        if case.get("autoimp"):
            obs["autoimp"] = self._autoimp(w, case)
        if case.get("subproc"):
            obs["subproc"] = self._subproc(w, case, list(queries.values()))
        return obs

    def _known_import_probe(self, w, memo):
        from pyflyby._autoimp import get_known_import
        out = []
        for _id, (db, ser) in list(memo.items()):
            fl = {tuple(x) for x in ser["forget"]}
            for key, _ in ser["bfi"]:
                if not re.match(r"^[A-Za-z_][A-Za-z0-9_]*([.][A-Za-z_][A-Za-z0-9_]*)*$", key):
                    continue
                for name in (key, key + ".zz9"):
                    try:
                        r = get_known_import(name, db=db)
                    except Exception as e:
                        out.append({"name": name, "err": exc_name(e)})
                        continue
                    if r is None:
                        continue
                    got = [[i.fullname, i.import_as] for i in r]
                    if not got or any(tuple(g) in fl for g in got):
                        out.append({"name": name, "got": got, "forget": ser["forget"], "known": ser["known"]})
        return out[:20]

    def _autoimp(self, w, case):
        from pyflyby import auto_import
        DB = w.M.ImportDB
        DB._default_cache.clear()
        db = w.lookup(case["histories"][0][-1])
        out = []
        for name in case["autoimp"]:
            try:
                auto_import(name, [{}], db=db)
                out.append({"name": name, "ok": True})
            except BaseException as e:
                out.append({"name": name, "err": type(e).__name__})
        return out

    def _subproc(self, w, case, queries):
        """Fresh interpreter per world: every distinct query answered by a process that never saw another."""
        payload = json.dumps({"R": w.R, "case": {k: case[k] for k in ("home", "cwd", "etc", "tree")}, "queries": queries})
        env = dict(os.environ)
        env["VERIF_REPO"] = REPO
        p = subprocess.run([sys.executable, os.path.abspath(__file__), "--ref"], input=payload, text=True,
                           stdout=subprocess.PIPE, stderr=subprocess.PIPE, env=env, timeout=120)
        if p.returncode != 0:
            return {"harness_err": p.stderr[-400:]}
        return json.loads(p.stdout)

    # -- oracle --------------------------------------------------------------
    def oracle(self, case, obs):
        fails = []
        w_index = tree_index(case["tree"])

        class _W:           # what ref_db needs
            index = w_index
        # O1: cache coherence — every answer of every history equals the uncached answer for its (target, env)
        for hi, (h, steps) in enumerate(zip(case["histories"], obs["hist"])):
            for si, (q, st) in enumerate(zip(h, steps)):
                want = obs["fresh"][qkey(q)]["db"]
                if st["db"] != want:
                    fails.append(dict(what="cached answer differs from a fresh load", history=h[:si + 1],
                                      got=_short(st["db"]), want=_short(want)))
        if obs.get("exh") and obs["exh"]["bad"]:
            b = obs["exh"]["bad"][0]
            fails.append(dict(what="cached answer differs from a fresh load", history=b["history"], exhaustive=True,
                              got=_short(b["got"]), want=_short(b["want"])))
        for b in (obs.get("chdir") or {}).get("bad", []):
            fails.append(dict(what="cached answer differs from a fresh load", after_chdir_to=b["cwd2"], history=[b["q"], b["q"]],
                              got=_short(b["got"]), want=_short(b["want"])))
        for c in sorted(set(obs.get("clear", []))):
            fails.append(dict(what="clear_default_cache() does not leave an empty cache", detail=c))
        sp = obs.get("subproc")
        if sp is not None:
            sp = dict(sp)
            etc = sp.pop("__etc__", None)
            if etc is not None and etc["got"] != etc["want"]:
                fails.append(dict(what="default etc directories differ from <installation>/etc/pyflyby (+ /etc/pyflyby if it exists)",
                                  got=etc["got"], want=etc["want"]))
            if "harness_err" in sp:
                fails.append(dict(what="harness: reference subprocess failed", err=sp["harness_err"]))
            else:
                for k, v in sp.items():
                    if v != obs["fresh"][k]["db"]:
                        fails.append(dict(what="in-process uncached answer differs from a fresh interpreter", query=json.loads(k),
                                          got=_short(obs["fresh"][k]["db"]), want=_short(v)))
        for k, fr in obs["fresh"].items():
            q = json.loads(k)
            db, files, ref = fr["db"], fr["files"], fr["ref_files"]
            # O2: the file list is the documented expansion
            if isinstance(ref, str):
                if ref.startswith("harness"):
                    fails.append(dict(what="harness: reference expansion failed", err=ref, query=q))
                elif "err" not in db:
                    fails.append(dict(what="search path should be rejected", want=ref, query=q, files=files))
                continue
            if files is None:
                fails.append(dict(what="lookup failed though the search path is valid", query=q, err=db.get("err"), ref_files=ref))
                continue
            if files != ref:
                fails.append(dict(what="file list differs from the documented expansion", query=q, got=files, want=ref,
                                  **({"cwd_files": fr["ref_files_cwd"]} if "ref_files_cwd" in fr else {})))
                continue
            if any(f.startswith("OUTSIDE:") for f in ref):
                continue        # a database file of the real file system (above the scratch root): contents unknown
            # O3: union minus forget
            want = ref_db(_W, ref)
            if "err" in want or "err" in db:
                if want.get("err") != db.get("err"):
                    fails.append(dict(what="error outcome differs from the file contents", query=q, got=db.get("err"), want=want.get("err")))
                continue
            for coll in ("known", "mandatory", "forget", "canonical"):
                if db[coll] != want[coll]:
                    fails.append(dict(what="%s differs from union-minus-forget of the files reached" % coll, query=q,
                                      got=db[coll], want=want[coll], files=ref, forget=want["forget"]))
            # O4: forget honoured everywhere
            fails.extend(self._forget_everywhere(q, db))
        for g in obs.get("gki", []):
            if "err" in g:
                fails.append(dict(what="get_known_import raised", **g))
            elif not g["got"]:
                fails.append(dict(what="lookup returns an empty tuple for a name under a forgotten derived parent",
                                  key=g["name"].removesuffix(".zz9"), name=g["name"], forget=g["forget"], known=g["known"]))
            else:
                fails.append(dict(what="get_known_import returns a forgotten import", **g))
        for a in obs.get("autoimp", []):
            if "err" in a:
                fails.append(dict(what="auto_import dies with an internal error", name=a["name"], err=a["err"],
                                  key=".".join(a["name"].split(".")[:-1])))
        # de-duplicate by (what, key)
        seen, out = set(), []
        for f in fails:
            k = (f["what"], f.get("key"), json.dumps(f.get("query")))
            if k not in seen:
                seen.add(k)
                out.append(f)
        if "--replay" in sys.argv:
            # `./check C12 --replay FILE` (vcommon.run_replay) has no known-findings pass of its own: failures that
            # belong to a listed finding's family are printed as such and do not make the replay fail.
            listed = [e for e in load_known_findings(self.id) if e.get("status") == "finding"]
            keep = []
            for f in out:
                hit = [e for e in listed if self.families.get(e.get("family"), lambda c, x: False)(case, f)]
                if hit:
                    print("KNOWN-FINDING (in the replayed case): property=%s %s: %s" % (self.id, hit[0]["id"], f["what"]))
                else:
                    keep.append(f)
            out = keep
        return out[:8]

    @staticmethod
    def _forget_everywhere(q, db):
        fails = []
        fl = [list(x) for x in db["forget"]]
        for coll in ("known", "mandatory"):
            for imp in db[coll]:
                if forgotten(imp, fl):
                    fails.append(dict(what="forgotten import present in " + coll, imp=imp, query=q))
        for k, v in db["canonical"]:
            if name_forgotten(k, fl) or name_forgotten(v, fl):
                fails.append(dict(what="forgotten import present in canonical", entry=[k, v], forget=fl, query=q))
        bfi = dict((k, v) for k, v in db["bfi"])
        for k, v in db["bfi"]:
            for imp in v:
                if imp in fl:
                    fails.append(dict(what="forgotten import served by by_fullname_or_import_as", key=k, imp=imp, query=q))
            if not v:
                fails.append(dict(what="lookup key with an empty tuple", key=k, forget=fl, known=db["known"], query=q))
        # every known import is served under its import_as, every parent package under its name (unless forgotten)
        for fn, ia in db["known"]:
            if [fn, ia] not in bfi.get(ia, []):
                fails.append(dict(what="known import not served under its import_as", imp=[fn, ia], query=q))
            parts = fn.split(".")
            for i in range(1, len(parts)):
                p = ".".join(parts[:i]) or "."
                if [p, p] not in fl and [p, p] not in bfi.get(p, []):
                    fails.append(dict(what="parent package entry missing", key=p, imp=[fn, ia], query=q))
        return fails

    # -- known-finding families ---------------------------------------------
    @staticmethod
    def _fam_d15(case, f):
        """D15: `import K` is forgotten and K is a proper dotted prefix of a known import's fullname."""
        if f.get("what") not in ("lookup key with an empty tuple",
                                 "lookup returns an empty tuple for a name under a forgotten derived parent",
                                 "auto_import dies with an internal error"):
            return False
        key = f.get("key")
        if f["what"].startswith("auto_import"):
            return f.get("err") == "AssertionError" and any(
                [key, key] in st["f"] for n in tree_index(case["tree"]).values() if "stmts" in n
                for st in n["stmts"] if "f" in st)
        return ([key, key] in f.get("forget", [])
                and any(fn.startswith(key + ".") for fn, _ in f.get("known", [])))

    @staticmethod
    def _fam_c12_2(case, f):
        """C12-2: the world is materialised below a directory whose path starts with "/dev" (/dev/shm), the target is an
        absolute path (as str, Filename or through interpret_arg) that is not a stream name, and the only thing wrong is
        the file list: it is the one of the current directory."""
        if f.get("what") != "file list differs from the documented expansion" or not case.get("shm"):
            return False
        t = (f.get("query") or [None])[0]
        if not isinstance(t, str):
            return False
        if t[:3] in ("FN:", "IA:"):
            t = t[3:]
        # … and the list observed is exactly the documented expansion from the current directory
        return t.startswith("/") and not is_dev_stream(t) and f.get("cwd_files") is not None and f["cwd_files"] == f.get("got")

    @staticmethod
    def _fam_c12_4(case, f):
        """C12-4: a canonical entry survives although its key or value is named by the forget list, and the name is reached
        only by `import a.b` (dotted) or by a star entry — not by `from a import b`, which the code honours."""
        fl = f.get("forget")
        if fl is None:
            return False
        only_wide = lambda e: (not any(name_forgotten_as_coded(n, fl) for n in e)
                               and any(name_forgotten(n, fl) for n in e))
        if f.get("what") == "forgotten import present in canonical":
            return only_wide(f["entry"])
        if f.get("what") == "canonical differs from union-minus-forget of the files reached":
            got, want = f.get("got") or [], f.get("want") or []
            extra = [e for e in got if e not in want]
            return bool(extra) and all(e in got for e in want) and all(only_wide(e) for e in extra)
        return False

    @staticmethod
    def _fam_c12_5(case, f):
        """C12-5: the current directory changed between two lookups and the search path in force has a component spelled
        relative to it (`./x`): the first-level cache key holds the variable's text, not what it denotes."""
        if f.get("what") != "cached answer differs from a fresh load" or "after_chdir_to" not in f:
            return False
        h = f.get("history") or []
        return bool(h) and all(env_has_cwd_relative(q["env"]) for q in h)

    families = {"c12_5_cwd_relative_search_path_after_chdir": _fam_c12_5.__func__,
                "d15_forgotten_derived_parent": _fam_d15.__func__,
                "c12_2_dev_prefix_target": _fam_c12_2.__func__,
                "c12_4_canonical_forget_dotted_or_star": _fam_c12_4.__func__}

    # -- model ---------------------------------------------------------------
    @staticmethod
    def _strip(node):
        if "ch" in node:
            return {"dev": node["dev"], "ch": [[nm, C12._strip(ch)] for nm, ch in node["ch"] if not ch.get("broken")]}
        return {"stmts": node["stmts"], "syn": bool(node.get("syn"))}

    def model_requests(self, case, obs):
        queries = [json.loads(k) for k in obs["fresh"]]
        plain = lambda q: {"t": plain_target(case, q["t"]), "env": q["env"]}
        return [dict(op="world", tree=self._strip(case["tree"]), home=case["home"], cwd=case["cwd"], etc=case["etc"],
                     mount=obs.get("mount", "/tmp/w"), devfix=bool(obs.get("fixes", {}).get("dev")),
                     queries=[{"t": plain_target(case, t), "env": e} for t, e in queries],
                     histories=[[plain(q) for q in h] for h in case["histories"]])]

    _d15_fixed = None

    def _bfi_field(self):
        if self._d15_fixed is None:
            st = [e.get("status") for e in load_known_findings(self.id) if e.get("id") == "D15"]
            C12._d15_fixed = bool(st) and st[0] == "fixed"
        return "bfi_fixed" if self._d15_fixed else "bfi"

    def _cmp_db(self, got, want, canon_fixed=False):
        if ("err" in got) != ("err" in want) or ("err" in got and got["err"] != want["err"]):
            return "impl=%s model=%s" % (got.get("err", "a database"), want.get("err", "a database"))
        if "err" in got:
            return None
        for coll in ("known", "mandatory", "forget", "canonical"):
            wc = want["canonical_fixed"] if (coll == "canonical" and canon_fixed) else want[coll]
            if got[coll] != wc:
                return "%s: impl=%s model=%s" % (coll, json.dumps(got[coll])[:300], json.dumps(wc)[:300])
        wb = want[self._bfi_field()]
        if got["bfi"] != wb:
            for g, m in zip(got["bfi"], wb):
                if g != m:
                    return "by_fullname_or_import_as: impl=%s model=%s" % (json.dumps(g)[:200], json.dumps(m)[:200])
            return "by_fullname_or_import_as: impl has %d keys, model %d" % (len(got["bfi"]), len(wb))
        return None

    @staticmethod
    def _keyset(keys):
        return sorted({json.dumps(k) for k in keys})

    def compare(self, case, obs, resps):
        r = resps[0]
        cf = bool(obs.get("fixes", {}).get("canon"))
        if not r.get("sorted"):
            return "directory listing sent to the model is not in the model's (code-point) order"
        for (k, fr), mf in zip(obs["fresh"].items(), r["fresh"]):
            t, e = json.loads(k)
            if unsafe_cwd_dev(case, {"t": t, "env": e}):
                continue                                  # O-only, see unsafe_cwd_dev
            d = self._cmp_db(fr["db"], mf["db"], cf)
            if d:
                return "fresh %s: %s" % (k, d)
            if fr["files"] != mf["files"]:
                return "fresh %s: file list impl=%s model=%s" % (k, fr["files"], mf["files"])
            if self._keyset(fr["keys"]) != self._keyset(mf["keys"]):
                return "fresh %s: cache keys impl=%s model=%s" % (k, self._keyset(fr["keys"]), self._keyset(mf["keys"]))
        for hi, (steps, msteps) in enumerate(zip(obs["hist"], r["hist"])):
            if any(unsafe_cwd_dev(case, q) for q in case["histories"][hi]):
                continue
            for si, (st, ms) in enumerate(zip(steps, msteps)):
                d = self._cmp_db(st["db"], ms["db"], cf)
                if d:
                    return "history %d step %d: %s" % (hi, si, d)
                if self._keyset(st["keys"]) != self._keyset(ms["keys"]):
                    return "history %d step %d: cache keys impl=%s model=%s" % (hi, si, self._keyset(st["keys"]), self._keyset(ms["keys"]))
        return None

    def nontrivial_key(self, case, obs):
        multi = any(fr["files"] and len(fr["files"]) >= 2 for fr in obs["fresh"].values())
        hit = any(not st["grew"] and "err" not in st["db"] for steps in obs["hist"] for st in steps)
        if multi and hit:
            return json.dumps([case["tree"], case["histories"]], sort_keys=True)
        return None

    def sample_repr(self, case, obs):
        h = case["histories"][0]
        return dict(history=h, answers=[_short(s["db"]) for s in obs["hist"][0]],
                    files=[obs["fresh"][qkey(q)]["files"] for q in h])

    def stats(self, case, obs, acc):
        def inc(k, n=1):
            acc[k] = acc.get(k, 0) + n
        inc("cases_from_" + case.get("_src", "?"))
        if obs.get("mount", "").startswith("/dev"):
            inc("worlds_materialised_below_dev_shm")
        for k, v in sorted(obs.get("fixes", {}).items()):
            inc("cases_on_a_tree_with_fix_%s_%s" % (k, "present" if v else "absent"))
        for k, fr in obs["fresh"].items():
            t = json.loads(k)[0]
            inc("queries")
            if t is None:
                inc("query_target_None")
            elif t[:3] in ("FN:", "IA:"):
                inc("query_target_" + ("Filename_object" if t[:3] == "FN:" else "via_interpret_arg"))
            elif not t.startswith("/"):
                inc("query_target_relative")
            if unsafe_cwd_dev(case, {"t": t}):
                inc("query_O_only_dev_target_in_unsafe_cwd")
            if not _safe_path(case["cwd"]):
                inc("query_in_unsafe_cwd")
            if "err" in fr["db"]:
                inc("query_err_" + fr["db"]["err"])
            else:
                n = len(fr["files"] or [])
                inc("files_%s" % ("0" if n == 0 else "1" if n == 1 else "2-4" if n <= 4 else ">4"))
                if fr["db"]["forget"]:
                    inc("query_with_forget")
                if fr["db"]["canonical"] and any(ia == "*" or (fn == ia and "." in fn) for fn, ia in fr["db"]["forget"]):
                    inc("query_with_canonical_entries_and_a_dotted_or_star_forget")
                if any(not v for _, v in fr["db"]["bfi"]):
                    inc("query_with_empty_lookup_entry")
        links = {p for p, n in tree_index(case["tree"]).items() if "ln" in n}
        seen = set()
        for fr in obs["fresh"].values():
            for f in fr["files"] or []:
                if f in seen:
                    continue
                seen.add(f)
                comps = f.split("/")[1:]
                inc("loaded_files")
                if any("." in c[1:] for c in comps[:-1]):
                    inc("loaded_files_below_a_dotted_directory")
                if any(c.endswith(".py") for c in comps[:-1]):
                    inc("loaded_files_below_a_directory_named_x.py")
                if comps[-1].count(".") >= 2:
                    inc("loaded_files_with_two_dots_in_the_name")
                if any("/" + "/".join(comps[:i]) in links for i in range(1, len(comps) + 1)):
                    inc("loaded_files_through_a_symlink")
                if len(comps) >= 6:
                    inc("loaded_files_at_depth_6_or_more")
        for steps in obs["hist"]:
            inc("histories")
            inc("history_len_%d" % len(steps))
            for st in steps:
                inc("lookups")
                if not st["grew"] and "err" not in st["db"]:
                    inc("lookups_cache_hit")
        if obs.get("exh"):
            inc("exhaustive_history_lookups", obs["exh"]["n"])
        if obs.get("chdir"):
            inc("lookups_after_change_of_current_directory", obs["chdir"]["n"])
        if "subproc" in obs:
            inc("fresh_interpreter_references")


def _short(db):
    if "err" in db:
        return db
    return {k: db[k] for k in ("known", "mandatory", "canonical", "forget")}


# =============================================================================================
# --ref: fresh-interpreter reference (called by _subproc)
# =============================================================================================
def _ref_main():
    sys.path.insert(0, os.path.dirname(os.path.abspath(__file__)))
    import vcommon
    vcommon.setup_repo_path()
    j = json.load(sys.stdin)
    case, R = j["case"], j["R"]
    import pyflyby._importdb as M
    from pyflyby._file import Filename
    index = tree_index(case["tree"])
    try:
        etc_real = [str(x) for x in M._find_etc_dirs()]      # the real function, before it is replaced
    except Exception as e:
        etc_real = "raised " + exc_name(e)
    install_os_proxy(M, R, index)
    M._find_etc_dirs = lambda: [Filename(R + e) for e in case["etc"]]
    os.environ["HOME"] = R + case["home"]
    os.chdir(R + (case["cwd"] if case["cwd"] != "/" else ""))
    out = {}
    for q in j["queries"]:
        M.ImportDB._default_cache.clear()
        for k, v in zip(ENV_NAMES, q["env"]):
            rv = real_env_value(R, v)
            if rv is None:
                os.environ.pop(k, None)
            else:
                os.environ[k] = rv
        try:
            r = call_target(M, R, q["t"])
        except Exception as e:
            r = ("err", exc_name(e))
        out[qkey(q)] = ser_db(r)
    out["__etc__"] = {"got": etc_real, "want": ref_etc_dirs(os.path.dirname(M.__file__))}
    json.dump(out, sys.stdout)


PROP = C12()

if __name__ == "__main__" and "--ref" in sys.argv:
    _ref_main()
