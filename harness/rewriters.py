"""
rewriters — shared generators, tool runners and model-independent helpers for
C01..C04 (the source rewriters of pyflyby/_imports2s.py).
"""
from __future__ import annotations

import ast
import io
import re
import tokenize

import os
import gen_source

TOOLS = ["reformat", "tidy", "transform0", "canonicalize0", "replace_star", "remove_broken"]


# --------------------------------------------------------------------------- generators

def gen_params(rng):
    p = {}
    r = rng.random()
    if r < 0.45:
        return p
    if rng.random() < 0.5:
        p["max_line_length"] = rng.choice([20, 30, 40, 60, 79, 100, 200])
    if rng.random() < 0.4:
        p["align_imports"] = rng.choice([True, False, 0, 16, 24, 32, [24, 32]])
    if rng.random() < 0.3:
        p["from_spaces"] = rng.choice([1, 2, 3, 5])
    if rng.random() < 0.3:
        p["hanging_indent"] = rng.choice(["never", "auto", "always"])
    if rng.random() < 0.2:
        p["indent"] = rng.choice([2, 4, 8])
    if rng.random() < 0.45:
        p["separate_from_imports"] = rng.choice([True, False, False])   # False is the tidy-imports CLI default
    if rng.random() < 0.15:
        p["align_future"] = rng.choice([True, False])
    return p


KNOWN_POOL = [
    "import os", "import sys", "import os.path", "import json", "import re", "from collections import OrderedDict",
    "from typing import Any", "import numpy as np", "from os.path import join", "from m1 import f", "from m1 import g",
    "import foo", "import bar", "from pkg.sub import data", "import a.b.c", "from a import b", "import x", "from zz import y, z",
    "from os import sep", "import m1",
]
AMBIG_POOL = ["from m1 import foo", "from m2 import foo", "from p1 import x", "from p2 import x as x"]
# mandatory imports bind names the generated programs never bind themselves (a mandatory import that conflicts
# with the file's own import of the same name is refused by design: ConflictingImportsError)
MANDATORY_POOL = ["from __future__ import annotations", "from __future__ import division", "import mandmod",
                  "from mandpkg import mandname"]


def gen_db(rng):
    """(known list of statements, mandatory list)"""
    k = rng.randint(0, 8)
    known = rng.sample(KNOWN_POOL, k)
    if rng.random() < 0.3:
        known += rng.sample(AMBIG_POOL, rng.randint(1, 3))
    mand = []
    r = rng.random()
    if r < 0.25:
        mand = rng.sample(MANDATORY_POOL, rng.randint(1, 2))
    elif r < 0.35:
        mand = ["from __future__ import annotations"]
    return known, mand


def make_db(known, mand, canonical=None):
    from pyflyby._importdb import ImportDB
    src = "".join(s + "\n" for s in known)
    if mand:
        src += "__mandatory_imports__ = %r\n" % (list(mand),)
    if canonical:
        src += "__canonical_imports__ = %r\n" % (dict(canonical),)
    return ImportDB(src)


BLACK_CFGS = [None, None, "[tool.black]\nline-length = 50\n", '[tool.black]\ntarget-version = ["py311"]\n',
              '[tool.black]\ntarget-version = "py311"\n', "[tool.black]\nskip-magic-trailing-comma = true\n",
              "[tool.black]\nskip-string-normalization = true\nline-length = 100\n", "[tool.other]\nx = 1\n",
              '[tool.black]\ntarget-version = ["py310", "py312"]\nline-length = 30\n']


class black_env:
    """`use_black=True` reads ./pyproject.toml of the process's working directory: run the tool in a scratch directory
    that holds the case's pyproject.toml (or none)."""
    def __init__(self, case):
        self.on = bool((case.get("params") or {}).get("use_black"))
        self.cfg = case.get("black_cfg")

    def __enter__(self):
        if self.on:
            import tempfile
            self.old = os.getcwd()
            self.d = tempfile.mkdtemp(prefix="pfbblack.")
            # a .git marker stops black's search for the project root at this directory
            os.mkdir(os.path.join(self.d, ".git"))
            if self.cfg is not None:
                with open(os.path.join(self.d, "pyproject.toml"), "w") as f:
                    f.write(self.cfg)
            os.chdir(self.d)
            try:
                from black.files import find_project_root
                find_project_root.cache_clear()
            except Exception:
                pass
        return self

    def __exit__(self, *a):
        if self.on:
            import shutil
            os.chdir(self.old)
            shutil.rmtree(self.d, ignore_errors=True)
        return False


def make_params(p):
    from pyflyby._importstmt import ImportFormatParams
    q = dict(p)
    if isinstance(q.get("align_imports"), list):
        q["align_imports"] = tuple(q["align_imports"])
    return ImportFormatParams(**q)


def gen_rewriter_case(rng, tool=None, **kw):
    import scenarios
    text, info = gen_source.gen_module(rng, max_items=rng.choice([2, 4, 6]), **kw)
    known, mand = gen_db(rng)
    if rng.random() < 0.3:
        snippet, k2, m2 = rng.choice(scenarios.SCENARIOS)(rng)
        r = rng.random()
        if snippet.startswith(("#!", "# licence", '"""', "'''", "b'", "from __future__")) or r < 0.4:
            cand = snippet if r < 0.7 else snippet + text
        else:
            cand = (text if text.endswith(("\n", "\r")) else text + "\n") + snippet
        try:
            compile(cand if cand.endswith("\n") else cand + "\n", "<scn>", "exec", dont_inherit=True)
            text = cand
            known = list(dict.fromkeys(known + k2))
            mand = list(dict.fromkeys(mand + m2))
        except (SyntaxError, ValueError):
            pass
    flags = dict(add_missing=rng.random() < 0.85, remove_unused=rng.random() < 0.85, add_mandatory=rng.random() < 0.8)
    tool = tool or rng.choice(TOOLS[:2] + TOOLS[:2] + TOOLS)
    case = dict(text=text, tool=tool, params=gen_params(rng), known=known, mandatory=mand, flags=flags)
    if rng.random() < 0.05:
        # the black-formatted style (its configuration comes from ./pyproject.toml): a formatting configuration too
        case["params"]["use_black"] = True
        case["black_cfg"] = rng.choice(BLACK_CFGS)
    if tool in ("transform0", "canonicalize0") and rng.random() < 0.7:
        # a rename map that does not apply: no import and no whole-word occurrence of OLD anywhere, but look-alike
        # text (OLD with its dots replaced, OLD as part of a longer word, in strings and comments)
        import re as _re
        mp = {}
        for old in rng.sample(["os.path", "qq.zz", "numpy.core", "abq", "m9.f", "a.b"], rng.randint(1, 2)):
            if _re.search(r"\b%s\b" % _re.escape(old), text) or _re.search(r"\b%s\b" % _re.escape(old.split(".")[0]), text):
                continue
            mp[old] = rng.choice(["zz9.new", "posixpath", "xnew"])
        if mp:
            extra = []
            for old in mp:
                for ch in rng.sample(["_", "+", "/", "x", " . "], 2):
                    look = old.replace(".", ch)
                    extra.append(rng.choice(["# see %s\n", "s_%d = '%s'\n" % (len(extra), "%s"), "v_%d = 1  # %s\n" % (len(extra), "%s")]) % look)
                extra.append("%s_tail = x%s = 0\n" % (old.replace(".", "_"), old.replace(".", "")))
            cand = (text if text.endswith(("\n", "\r")) else text + "\n") + "".join(extra)
            try:
                compile(cand, "<na>", "exec", dont_inherit=True)
                if not any(_re.search(r"\b%s\b" % _re.escape(o), cand) for o in mp):
                    case["text"] = cand
                    case["map"] = mp
            except (SyntaxError, ValueError):
                pass
    return case


# --------------------------------------------------------------------------- running the tools

def run_tool(case, text=None):
    """Return output text (str).  Raises whatever the tool raises."""
    with black_env(case):
        return _run_tool(case, text)


def _run_tool(case, text=None):
    from pyflyby._parse import PythonBlock
    from pyflyby._file import FileText
    from pyflyby import _imports2s as I
    text = case["text"] if text is None else text
    params = make_params(case.get("params", {}))
    entry = case.get("entry", "block")
    if entry == "cli":
        return run_cli(case, text)
    if case.get("filename"):
        blk = PythonBlock(FileText(text, filename=case["filename"]))
    elif entry == "str":
        blk = text                       # the documented call form: reformat_import_statements(text)
    elif entry == "filetext":
        blk = FileText(text)
    else:
        blk = PythonBlock(FileText(text))
    tool = case["tool"]
    if tool == "reformat":
        out = I.reformat_import_statements(blk, params=params)
    elif tool == "tidy":
        db = make_db(case.get("known", []), case.get("mandatory", []))
        f = case.get("flags", {})
        ru = f.get("remove_unused", True)
        out = I.fix_unused_and_missing_imports(blk, add_missing=f.get("add_missing", True),
                                               remove_unused=("AUTOMATIC" if ru == "AUTOMATIC" else ru),
                                               add_mandatory=f.get("add_mandatory", True), db=db, params=params)
    elif tool == "transform0":
        out = I.transform_imports(blk, case.get("map", {}), params=params)
    elif tool == "canonicalize0":
        db = make_db(case.get("known", []), [], canonical=case.get("map"))
        out = I.canonicalize_imports(blk, params=params, db=db)
    elif tool == "replace_star":
        out = I.replace_star_imports(blk, params=params)
    elif tool == "remove_broken":
        out = I.remove_broken_imports(blk, params=params)
    else:
        raise ValueError(tool)
    return out.text.joined


def layout_family(text):
    """Input layouts on which listed findings of the statement splitter manifest (C01/C03/C10):
       'cr'     a lone carriage return used as a line break (FileText splits on LF only);
       'bsline' a backslash-newline directly in front of a statement's first token (a line holding only a
                backslash, or '; \\' at the end of a line);
       None     otherwise."""
    if re.search(r"\r(?!\n)", text):
        return "cr"
    if re.search(r"(^|\n)[ \t\f]*\\\r?\n", text) or re.search(r";[ \t]*\\\r?\n", text):
        return "bsline"
    return None


def fam_lone_cr(case, failure):
    return layout_family(case["text"]) == "cr"


def fam_backslash_line(case, failure):
    return layout_family(case["text"]) == "bsline"


def fam_deep_nesting(case, failure):
    return "RecursionError" in (str(failure.get("err")) + str(failure.get("msg")) + str(failure.get("exc")))


CLI = {"reformat": "reformat-imports", "tidy": "tidy-imports", "replace_star": "replace-star-imports",
       "remove_broken": "prune-broken-imports"}


def run_cli(case, text=None):
    """Run the command-line tool with --replace on a file on disk written in case['encoding'] (a PEP 263 cookie is
    the case text's business) and read the file back with the same encoding.  A refusal (non-zero exit, file
    untouched) returns the input."""
    import subprocess, tempfile, shutil, sys as _sys
    text = case["text"] if text is None else text
    enc = case.get("encoding", "utf-8")
    repo = os.environ.get("VERIF_REPO", "/repo")
    d = tempfile.mkdtemp(prefix="vt_cli_", dir=os.environ.get("VERIF_SCRATCH") or None)
    try:
        f = os.path.join(d, "m.py")
        data = text.encode(enc)
        with open(f, "wb") as fh:
            fh.write(data)
        db = os.path.join(d, "db.py")
        with open(db, "w") as fh:
            fh.write("".join(k + "\n" for k in case.get("known", [])))
            if case.get("mandatory"):
                fh.write("__mandatory_imports__ = %r\n" % (list(case["mandatory"]),))
        env = dict(os.environ, PYTHONPATH=os.path.join(repo, "lib/python"), PYFLYBY_PATH=db, PYFLYBY_LOG_LEVEL="ERROR",
                   PYTHONIOENCODING="utf-8", LC_ALL="C.UTF-8", LANG="C.UTF-8")
        cmd = [_sys.executable, os.path.join(repo, "bin", CLI[case["tool"]]), "--replace", f]
        if case["tool"] == "tidy":
            fl = case.get("flags", {})
            cmd[3:3] = ["--add-missing" if fl.get("add_missing", True) else "--no-add-missing",
                        "--remove-unused" if fl.get("remove_unused", True) else "--no-remove-unused",
                        "--add-mandatory" if fl.get("add_mandatory", True) else "--no-add-mandatory"]
        r = subprocess.run(cmd, env=env, cwd=d, capture_output=True, timeout=120)
        with open(f, "rb") as fh:
            back = fh.read()
        if r.returncode != 0 and back == data:
            raise RuntimeError("cli refused: " + r.stderr.decode("utf-8", "replace")[-200:])
        return back.decode(enc)
    finally:
        shutil.rmtree(d, ignore_errors=True)


# --------------------------------------------------------------------------- independent text helpers

def _line_offsets(text):
    offs = [0]
    for l in text.split("\n")[:-1]:
        offs.append(offs[-1] + len(l) + 1)
    return offs


def import_ranges(text):
    """
    [(start, end, optnl)] character ranges owned by top-level import statements, computed with stdlib ast only:
    the statement itself, a following ';' separator with its blanks, a trailing comment when nothing else follows
    on the line, and — if the import begins its line — the newline (whole lines come and go with the import).
    For an import that follows another statement on its line the newline stays with the line.
    optnl: another statement follows the import on the same line, so a rewriter that re-renders the import
    (always newline-terminated) may leave a line break at this junction.
    """
    src = text if text.endswith("\n") else text + "\n"
    tree = ast.parse(src)
    lines = src.split("\n")
    offs = _line_offsets(src)
    out = []
    L = len(text)
    for n in tree.body:
        if not isinstance(n, (ast.Import, ast.ImportFrom)):
            continue
        s = offs[n.lineno - 1] + gen_source.char_col(lines[n.lineno - 1], n.col_offset)
        e = offs[n.end_lineno - 1] + gen_source.char_col(lines[n.end_lineno - 1], n.end_col_offset)
        # (whitespace in front of the import on its line — it takes a form feed for that to compile — is text of its
        # own: like a statement in front of the import it keeps the line's newline when the import goes away)
        at_line_start = text[offs[n.lineno - 1]:s] == "" or (
            bool(out) and out[-1][1] == s and out[-1][3])   # directly after an import that began the line
        j = e
        while j < L and text[j] in " \t\f":
            j += 1
        if j < L and text[j] == ";":
            j += 1
            while j < L and text[j] in " \t\f":
                j += 1
        optnl = False
        if j >= L:
            e = L
        elif text[j] == "#":
            k = text.find("\n", j)
            e = L if k < 0 else (k + 1 if at_line_start else k)
        elif text[j] == "\n":
            e = j + 1 if at_line_start else j
        elif text[j] == "\\" and text[j + 1:j + 2] == "\n":
            e = j
        else:
            e = j  # another statement follows on the same line
            optnl = True
        out.append((s, min(e, L), optnl, at_line_start))
    return [r[:3] for r in out], tree


def outside_imports(text):
    """(text with the top-level import ranges removed, ranges, tree)"""
    rngs, tree = import_ranges(text)
    parts, pos = [], 0
    for s, e, _ in rngs:
        parts.append(text[pos:s])
        pos = e
    parts.append(text[pos:])
    return "".join(parts), rngs, tree


def outside_variants(text, limit=5):
    """
    All readings of `outside_imports(text)` in which each junction flagged optnl carries or does not carry a
    line break: [(outside_text, prologue_offset)].
    """
    rngs, tree = import_ranges(text)
    p_abs = _prologue_end_abs(text, tree)
    segs, pos = [], 0
    for s, e, o in rngs:
        segs.append((text[pos:s], o, s))
        pos = e
    tail = text[pos:]
    flagged = [i for i, (_, o, _) in enumerate(segs) if o][:limit]
    out = []
    for mask in range(1 << len(flagged)):
        chosen = {flagged[b] for b in range(len(flagged)) if mask >> b & 1}
        buf, p = [], None
        length = 0
        for i, (seg, o, s) in enumerate(segs):
            if p is None and p_abs <= s:
                # prologue ends inside this segment (or at its end)
                seg_start_abs = s - len(seg)
                p = length + max(0, p_abs - seg_start_abs)
            buf.append(seg)
            length += len(seg)
            if i in chosen:
                buf.append("\n")
                length += 1
        if p is None:
            p = length + max(0, min(p_abs, len(text)) - pos)
        buf.append(tail)
        out.append(("".join(buf), p))
    return out


def _prologue_end_abs(text, tree):
    """
    Absolute offset directly after the leading comment / blank / docstring prologue: the start of the first
    top-level statement other than the docstring (an import *is* such a statement).
    """
    src = text if text.endswith("\n") else text + "\n"
    lines = src.split("\n")
    offs = _line_offsets(src)
    for i, n in enumerate(tree.body):
        # only the first statement can be the docstring (a str, not bytes)
        if i == 0 and isinstance(n, ast.Expr) and isinstance(n.value, ast.Constant) and isinstance(n.value.value, str):
            continue
        ln, co = n.lineno, n.col_offset
        cc = gen_source.char_col(lines[ln - 1], co)
        if getattr(n, "decorator_list", None):
            ln, cc = gen_source.decorator_at(lines, n.decorator_list[0])
        elif not isinstance(n, (ast.Import, ast.ImportFrom)) and cc and not lines[ln - 1][:cc].strip(" \t\f"):
            cc = 0      # whitespace (a form feed) in front of the first token belongs to the statement
        return min(offs[ln - 1] + cc, len(text))
    return len(text)


def top_imports(text):
    """multiset (sorted list) of (module, level, name, asname) of top-level imports"""
    src = text if text.endswith("\n") else text + "\n"
    tree = ast.parse(src)
    out = []
    for n in tree.body:
        if isinstance(n, ast.Import):
            for a in n.names:
                out.append((None, 0, a.name, a.asname))
        elif isinstance(n, ast.ImportFrom):
            for a in n.names:
                out.append((n.module, n.level, a.name, a.asname))
    return sorted(out, key=repr)


def compiles(text):
    try:
        compile(text if text.endswith("\n") else text + "\n", "<out>", "exec", dont_inherit=True)
        return None
    except SyntaxError as e:
        return "%s (line %s)" % (e.msg, e.lineno)
    except ValueError as e:
        return "ValueError: %s" % e


# --------------------------------------------------------------------------- block-level trace for the Lean Blocks model

def _stmt_json(s):
    from pyflyby._parse import _ast_str_literal_value
    from pyflyby._importstmt import ImportStatement
    if s.is_comment_or_blank:
        kind = "comment"
    elif isinstance(_ast_str_literal_value(s.ast_node), str):
        kind = "docstr"
    else:
        kind = "other"
    imps = []
    if s.is_import:
        imps = [[i.fullname, i.import_as] for i in ImportStatement(s).imports]
    return dict(text=s.text.joined, kind=kind, is_import=bool(s.is_import), imports=imps, line=s.startpos.lineno,
                col=s.startpos.colno)


def _blocks_json(transformer):
    from pyflyby import _imports2s as I
    out = []
    for b in transformer.blocks:
        if isinstance(b, I.SourceToSourceImportBlockTransformation):
            out.append(dict(kind="imports", imports=sorted([i.fullname, i.import_as] for i in b.importset._importset)))
        else:
            out.append(dict(kind="verbatim", text=b._output.text.joined))
    return out


def block_trace(case):
    with black_env(case):
        return _block_trace(case)


def _block_trace(case):
    """
    Run reformat / tidy on the real code and record what the Lean Blocks model needs and predicts:
    the statements the transformer was built from, the scan result, the database, and the final block list.
    """
    from pyflyby._parse import PythonBlock
    from pyflyby._file import FileText
    from pyflyby import _imports2s as I
    params = make_params(case.get("params", {}))
    blk = (PythonBlock(FileText(case["text"], filename=case["filename"])) if case.get("filename")
           else PythonBlock(FileText(case["text"])))
    rec = dict(transformers=[], scans=[])
    orig_output = I.SourceToSourceFileImportsTransformation.output
    orig_scan = I.scan_for_import_issues

    def output(self, params=None):
        rec["transformers"].append(self)
        r = orig_output(self, params=params)
        rec["last_out"] = r.text.joined
        return r

    def scan(codeblock, *a, **kw):
        r = orig_scan(codeblock, *a, **kw)
        rec["scans"].append((codeblock, [(ln, str(ident)) for ln, ident in r[0]],
                             [(ln, imp.fullname, imp.import_as) for ln, imp in r[1]]))
        return r

    I.SourceToSourceFileImportsTransformation.output = output
    I.scan_for_import_issues = scan
    tr = dict(tool=case["tool"])
    try:
        if case["tool"] == "reformat":
            I.reformat_import_statements(blk, params=params)
        else:
            db = make_db(case.get("known", []), case.get("mandatory", []))
            f = case.get("flags", {})
            tr["known"] = sorted([i.fullname, i.import_as] for i in db.known_imports._importset)
            tr["mandatory"] = [[i.fullname, i.import_as] for i in db.mandatory_imports.imports]
            I.fix_unused_and_missing_imports(blk, add_missing=f.get("add_missing", True),
                                             remove_unused=f.get("remove_unused", True),
                                             add_mandatory=f.get("add_mandatory", True), db=db, params=params)
    except Exception as e:
        tr["err"] = type(e).__name__
    finally:
        I.SourceToSourceFileImportsTransformation.output = orig_output
        I.scan_for_import_issues = orig_scan
    if "err" not in tr and "last_out" in rec:
        tr["out_text"] = rec["last_out"]
    if case["tool"] == "reformat":
        if rec["transformers"]:
            t = rec["transformers"][0]
            tr["stmts"] = [_stmt_json(s) for s in t.input.statements]
            tr["blocks"] = _blocks_json(t)
            if "out_text" in tr:
                # what the second pass will see: the real statement splitter on the real output (premise `reparse`
                # of the Lean fixed-point theorems C03_reformat_idem_*)
                try:
                    tr["out_stmts"] = [_stmt_json(s) for s in PythonBlock(FileText(tr["out_text"])).statements]
                except Exception as e:
                    tr["out_stmts_err"] = type(e).__name__
        return tr
    if rec["scans"]:
        codeblock, missing, unused = rec["scans"][0]
        tr["stmts"] = [_stmt_json(s) for s in codeblock.statements]
        tr["missing"] = [[ln, name.split(".")[0]] for ln, name in sorted(missing, key=lambda m: (m[1], m[0]))]
        tr["unused"] = [[ln, f, a] for ln, f, a in unused]
    if len(rec["transformers"]) >= 2 and "err" not in tr:
        tr["blocks"] = _blocks_json(rec["transformers"][-1])
    return tr


def block_requests(case, tr):
    if "stmts" not in tr:
        return []
    if case["tool"] == "reformat":
        return [dict(op="reformat", stmts=tr["stmts"])]
    f = case.get("flags", {})
    ru = f.get("remove_unused", True)
    if ru == "AUTOMATIC":
        # the documented default: off for __init__.py and for files under a .pyflyby directory
        fn = case.get("filename") or ""
        ru = not (fn and (fn.rsplit("/", 1)[-1] == "__init__.py" or ".pyflyby" in fn.split("/")))
    return [dict(op="tidy2", stmts=tr["stmts"], unused=tr.get("unused", []), missing=tr.get("missing", []),
                 known=tr["known"], mandatory=tr["mandatory"], add_missing=f.get("add_missing", True),
                 remove_unused=bool(ru), add_mandatory=f.get("add_mandatory", True))]


def block_compare(case, tr, resps):
    r = resps[0]
    if "err" in tr:
        if "err" in r:
            return None if r["err"] == tr["err"] else f"impl raised {tr['err']}, model error {r['err']}"
        return f"impl raised {tr['err']}, model returned blocks"
    if "err" in r:
        return f"model error {r['err']}, impl returned blocks"
    if "blocks" not in tr:
        return None
    got = [(b["kind"], b.get("text") if b["kind"] == "verbatim" else [tuple(i) for i in b["imports"]]) for b in tr["blocks"]]
    want = [(b["kind"], b.get("text") if b["kind"] == "verbatim" else [tuple(i) for i in b["imports"]]) for b in r["ok"]]
    if got != want:
        for i, (g, w) in enumerate(zip(got, want)):
            if g != w:
                return f"block {i}: impl={g!r} model={w!r}"
        return f"block count impl={len(got)} model={len(want)}: impl={got!r} model={want!r}"
    return None


# --------------------------------------------------------------------------- real-world corpus

def file_corpus_cases(limit, rng=None, max_len=80000):
    """stdlib / site-packages modules as rewriter inputs (reformat and tidy with an empty database)"""
    import glob
    import os
    import sysconfig
    std = sysconfig.get_paths()["stdlib"]
    files = sorted(glob.glob(os.path.join(std, "*.py")) + glob.glob(os.path.join(std, "*", "*.py")))
    files = [f for f in files if "/test/" not in f and "site-packages" not in f and "lib2to3" not in f]
    sp = sysconfig.get_paths()["purelib"]
    files += sorted(glob.glob(os.path.join(sp, "*", "*.py")))[:800]
    if rng is not None:
        files = rng.sample(files, min(len(files), limit))
    out = []
    for f in files[:limit]:
        try:
            text = open(f, encoding="utf-8").read()
            if len(text) > max_len or not text.strip():
                continue
            compile(text, f, "exec", dont_inherit=True)
        except Exception:
            continue
        for tool in ("reformat", "tidy"):
            out.append(dict(text=text, tool=tool, params={}, known=[], mandatory=[], file=f,
                            flags=dict(add_missing=False, remove_unused=(tool == "tidy"), add_mandatory=False)))
    return out


# --------------------------------------------------------------------------- text-level correspondence (Blocks + C11 formatter)

def params_json(p):
    """ImportFormatParams fields in the encoding of the C11 / Compose drivers (defaults as in pyflyby)"""
    al = p.get("align_imports", True)
    if al is True or al is False:
        alj = dict(t="bool", b=al)
    elif isinstance(al, int):
        alj = dict(t="col", n=al)
    else:
        alj = dict(t="cols", l=list(al))
    return dict(width=p.get("max_line_length"), align=alj, from_spaces=p.get("from_spaces", 1),
                hanging=p.get("hanging_indent", "never"), indent=p.get("indent", 4),
                sep_from=p.get("separate_from_imports", True), align_future=p.get("align_future", False), d2fix=True)


def text_requests(case, tr):
    """requests for Driver/Compose.lean: the model's complete output text"""
    if "stmts" not in tr or case["tool"] not in ("reformat", "tidy") or (case.get("params") or {}).get("use_black"):
        return []      # (black's own formatting is not modelled: block structure only)
    pj = params_json(case.get("params", {}))
    if case["tool"] == "reformat":
        return [dict(op="reformat_text", stmts=tr["stmts"], params=pj)]
    br = block_requests(case, tr)
    if not br:
        return []
    r = dict(br[0])
    r["op"] = "tidy_text"
    r["params"] = pj
    return [r]


def text_compare(case, tr, resps):
    r = resps[0]
    if "err" in tr:
        if "err" in r:
            return None if r["err"] == tr["err"] else f"impl raised {tr['err']}, model error {r['err']}"
        return f"impl raised {tr['err']}, model returned text"
    if "err" in r:
        return f"model error {r['err']}, impl returned text"
    if "out_text" not in tr:
        return None
    if r["ok"] != tr["out_text"]:
        a, b = tr["out_text"], r["ok"]
        i = next((k for k in range(min(len(a), len(b))) if a[k] != b[k]), min(len(a), len(b)))
        return f"output text differs at offset {i}: impl={a[max(0,i-30):i+40]!r} model={b[max(0,i-30):i+40]!r}"
    return None


# --------------------------------------------------------------------------- reparse (premise of C03_reformat_idem_*)

def reparse_requests(case, tr):
    if case["tool"] != "reformat" or "stmts" not in tr or "out_stmts" not in tr or (case.get("params") or {}).get("use_black"):
        return []
    return [dict(op="reparse_text", stmts=tr["stmts"], params=params_json(case.get("params", {})))]


def _merge_comments(stmts):
    """adjacent comment/blank statements are one statement for the splitter; the model keeps the input's pieces"""
    out = []
    for s in stmts:
        if not s["text"]:
            continue
        if out and out[-1]["kind"] == "comment" and s["kind"] == "comment":
            out[-1] = dict(out[-1], text=out[-1]["text"] + s["text"])
        else:
            out.append(dict(s))
    return [(s["text"], s["kind"], bool(s["is_import"]), sorted(map(tuple, s["imports"])), s["line"], s["col"]) for s in out]


def reparse_compare(case, tr, resps):
    r = resps[0]
    if "err" in r:
        return None if "err" in tr else f"reparse: model error {r['err']}, impl returned text"
    got, want = _merge_comments(tr["out_stmts"]), _merge_comments(r["ok"])
    if got != want:
        for i, (g, w) in enumerate(zip(got, want)):
            if g != w:
                return f"reparse: statement {i} of the output: splitter={g!r} model={w!r}"
        return f"reparse: statement count splitter={len(got)} model={len(want)}"
    return None
