"""dev aid: python harness/dbg.py Cxx N [seed] — categorise oracle failures and K disagreements"""
import sys, os, json, random, collections
sys.path.insert(0, os.path.dirname(os.path.abspath(__file__)))
import importlib, vcommon
vcommon.setup_repo_path()
prop = importlib.import_module(sys.argv[1].lower()).PROP
n = int(sys.argv[2]); seed = sys.argv[3] if len(sys.argv) > 3 else "0"
rng = random.Random(f"{seed}:{prop.id}")
prop.setup("quick", rng)
cases = [dict(c, _src="ex") for c in (prop.exhaustive_cases("quick", rng) if "--noex" not in sys.argv else [])]
cases += [dict(prop.gen_case(rng, i, "quick"), _src="gen") for i in range(n)]
cat = collections.defaultdict(list)
results = []
for c in cases:
    obs, fails, herr = vcommon._worker((prop, c))
    if herr: cat["HARNESS " + herr[:80]].append((c, herr)); continue
    results.append((c, obs))
    for f in fails:
        cat[f["what"]].append((c, f))
for k, v in sorted(cat.items(), key=lambda kv: -len(kv[1])):
    print("==", len(v), k)
    v.sort(key=lambda cf: len(json.dumps(cf[0])))
    for c, f in v[:3]:
        print("   case:", json.dumps(c)[:500]); print("   fail:", json.dumps(f, default=str)[:700])
if prop.driver and "--nok" not in sys.argv:
    reqs, spans = [], []
    for c, o in results:
        r = prop.model_requests(c, o); spans.append((len(reqs), len(reqs)+len(r))); reqs += r
    resps = vcommon.lean_batch(prop.driver, reqs)
    dis = []
    for (c, o), (a, b) in zip(results, spans):
        if a == b: continue
        d = prop.compare(c, o, resps[a:b])
        if d: dis.append((c, d))
    print("K disagreements:", len(dis), "of", len(results))
    dis.sort(key=lambda cd: len(json.dumps(cd[0])))
    for c, d in dis[:6]:
        print("   case:", json.dumps(c)[:400]); print("   diff:", d[:600])
prop.teardown()
