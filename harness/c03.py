"""C03 — Rewriter output always compiles and is a fixed point."""
from __future__ import annotations

import ast

from vcommon import Prop
import rewriters as R


class C03(Prop):
    id = "C03"
    driver = "Compose"
    lean_modules = ["Pfb.C03.Props", "Pfb.C03.Lines", "Pfb.C03.Idem", "Pfb.C04.NoUnusedLeft", "Pfb.C04.NoUnusedLeftC"]
    theorems = [
        "Pfb.C03.C03_future_first",
        "Pfb.C03.C03_future_joins_future_block",
        "Pfb.C03.prefixMatch_pos_head",
        "Pfb.C03.C03_new_block_after_prologue",
        "Pfb.C03.C03_new_block_before_first_import",
        "Pfb.C03.C03_future_block_takes_import",
        "Pfb.C03.C03_new_block_only_without_leading_future",
        "Pfb.C03.C03_add_total",
        "Pfb.C03.C03_remove_unique_as",
        "Pfb.C03.fromImportsShadow_unique",
        "Pfb.C03.C03_no_ambiguity",
        "Pfb.C03.C03_remove_not_ambiguous",
        "Pfb.C03.ranges_sorted",
        "Pfb.C03.C03_shadow_idem",
        "Pfb.C03.C03_shadow_perm",
        "Pfb.C03.fromImportsShadow_free",
        "Pfb.C03.fromImportsShadow_of_free",
        "Pfb.C03.C03_reformat_idem_blocks",
        "Pfb.C03.c11Fmt_ok",
        "Pfb.C03.C03_reformat_idem_text",
        "Pfb.C03.C03_tidy_second_pass_noop",
        "Pfb.C03.addImport_of_alreadyPresent",
        "Pfb.C03.C03_add_then_present",
        "Pfb.C03.C03_add_idem",
        # the remove stage is a fixed point of the analysis (PyCore models): fragment B outright, fragment C under rebindOK;
        # the excluded family is the listed finding D69
        "Pfb.C04.C04_no_unused_left_fragB",
        "Pfb.C04.C04_no_unused_left_fragC_partial",
        "Pfb.C04.witness_deferred_names_fragC",
    ]
    anchors = [
        ("lib/python/pyflyby/_imports2s.py", "SourceToSourceFileImportsTransformation.select_import_block_by_closest_prefix_match"),
        ("lib/python/pyflyby/_imports2s.py", "SourceToSourceFileImportsTransformation.insert_new_blocks_after_comments"),
        ("lib/python/pyflyby/_imports2s.py", "SourceToSourceFileImportsTransformation.find_import_block_by_lineno"),
        ("lib/python/pyflyby/_imports2s.py", "fix_unused_and_missing_imports"),
        ("lib/python/pyflyby/_imports2s.py", "transform_imports"),
        ("lib/python/pyflyby/_importclns.py", "ImportSet.get_statements"),
        ("lib/python/pyflyby/_importclns.py", "ImportSet.pretty_print"),
        ("lib/python/pyflyby/_importstmt.py", "ImportStatement.pretty_print"),
        ("lib/python/pyflyby/_format.py", "pyfill"),
        ("lib/python/pyflyby/_format.py", "fill"),
    ]
    quick_cases = 1500
    thorough_cases = 40000
    rule = ("compilable modules (prologue-only files, files without final newline, imports after code, imports sharing a "
            "line with other statements, long dotted names) x rewriter x format params x flags x databases with/without "
            "mandatory __future__ imports; each case runs the tool twice; non-trivial = first pass changed the text")
    trusted_base = ["CPython `compile` defines 'compiles'; `ast.get_docstring` defines the docstring"]
    assumptions = ["transform idempotence is claimed only for maps that do not apply (C18 covers renames)"]

    def exhaustive_cases(self, tier, rng):
        # real-world corpus: stdlib / site-packages modules through reformat and tidy
        out = R.file_corpus_cases(700 if tier == "thorough" else 12, rng)
        # the real command line tool, run twice on a temp file (database through PYFLYBY_PATH)
        for i in range(150 if tier == "thorough" else 6):
            c = R.gen_rewriter_case(rng, tool="tidy")
            c["cli"] = True
            c["params"] = {}
            out.append(c)
        return out

    def gen_case(self, rng, i, tier):
        r = rng.random()
        kw = {}
        if r < 0.15:
            kw = dict(max_items=0, prologue=True)
        elif r < 0.3:
            kw = dict(final_newline=False)
        c = R.gen_rewriter_case(rng, **{k: v for k, v in kw.items() if k != "max_items"})
        return c

    def _run_cli(self, case):
        """bin/tidy-imports --replace, twice, on a temp copy; returns obs in the same shape as the in-process run"""
        import os, shutil, subprocess, sys, tempfile
        from vcommon import REPO
        d = tempfile.mkdtemp(prefix="pfbverif_c03cli_")
        obs = {}
        try:
            f = os.path.join(d, "mod.py")
            open(f, "w").write(case["text"])
            dbf = os.path.join(d, "db.py")
            src = "".join(s + "\n" for s in case.get("known", []))
            if case.get("mandatory"):
                src += "__mandatory_imports__ = %r\n" % (list(case["mandatory"]),)
            open(dbf, "w").write(src)
            env = dict(os.environ, PYFLYBY_PATH=dbf, PYTHONPATH=os.path.join(REPO, "lib", "python"), PYFLYBY_LOG_LEVEL="ERROR")
            fl = case.get("flags", {})
            args = [sys.executable, os.path.join(REPO, "bin", "tidy-imports"), "--replace", "--quiet",
                    "--add-missing" if fl.get("add_missing", True) else "--no-add-missing",
                    "--remove-unused" if fl.get("remove_unused", True) else "--no-remove-unused",
                    "--add-mandatory" if fl.get("add_mandatory", True) else "--no-add-mandatory", f]
            p = subprocess.run(args, env=env, stdout=subprocess.PIPE, stderr=subprocess.PIPE, text=True, timeout=120)
            if p.returncode != 0:
                obs["err"] = "cli-exit-%d" % p.returncode
                obs["errmsg"] = p.stderr[-300:]
                return obs
            obs["out"] = open(f).read()
            p = subprocess.run(args, env=env, stdout=subprocess.PIPE, stderr=subprocess.PIPE, text=True, timeout=120)
            if p.returncode != 0:
                obs["err2"] = "cli-exit-%d" % p.returncode
                obs["errmsg2"] = p.stderr[-300:]
            else:
                obs["out2"] = open(f).read()
            return obs
        finally:
            shutil.rmtree(d, ignore_errors=True)

    def run_impl(self, case):
        if case.get("cli"):
            return self._run_cli(case)
        obs = {}
        try:
            obs["out"] = R.run_tool(case)
        except Exception as e:
            obs["err"] = type(e).__name__
            obs["errmsg"] = str(e)[:300]
            return obs
        try:
            obs["out2"] = R.run_tool(case, text=obs["out"])
        except Exception as e:
            obs["err2"] = type(e).__name__
            obs["errmsg2"] = str(e)[:300]
        if case["tool"] in ("reformat", "tidy"):
            obs["trace"] = R.block_trace(case)
        return obs

    def model_requests(self, case, obs):
        if "trace" not in obs or R.layout_family(case["text"]):
            return []
        b = R.block_requests(case, obs["trace"])
        return b + R.text_requests(case, obs["trace"]) + R.reparse_requests(case, obs["trace"]) if b else []

    def compare(self, case, obs, resps):
        d = R.block_compare(case, obs["trace"], resps[:1])
        if d is None and len(resps) > 1:
            d = R.text_compare(case, obs["trace"], resps[1:2])
        if d is None and len(resps) > 2:
            d = R.reparse_compare(case, obs["trace"], resps[2:3])
        return d

    def oracle(self, case, obs):
        text = case["text"]
        ctx = dict(tool=case["tool"], text=text[:500], params=case.get("params"), flags=case.get("flags"),
                   known=case.get("known"), mandatory=case.get("mandatory"))
        if "err" in obs:
            if (obs["err"] == "ConflictingImportsError" or (obs["err"].startswith("cli-exit") and "ConflictingImportsError" in obs.get("errmsg", ""))) \
                    and _real_conflict(case):
                # a deliberate refusal ("Refusing to pretty-print because of conflicting imports"), not an internal
                # error: the import the database asks for binds a name that one of the file's own top-level imports
                # binds to something else (confirmed here independently of pyflyby)
                return []
            return [dict(what="rewriter raised", err=obs["err"], msg=obs["errmsg"], **ctx)]
        out = obs["out"]
        fails = []
        c = R.compiles(out)
        if c is not None:
            fails.append(dict(what="output does not compile", compile_error=c, out=out[:500], **ctx))
            return fails
        src = text if text.endswith("\n") else text + "\n"
        doc_in = ast.get_docstring(ast.parse(src), clean=False)
        # "the module docstring stays the docstring": claimed for modules that have one
        if doc_in is not None and doc_in != ast.get_docstring(ast.parse(out if out.endswith("\n") else out + "\n"), clean=False):
            fails.append(dict(what="module docstring changed", out=out[:500], **ctx))
        if "err2" in obs:
            fails.append(dict(what="second pass raised", err=obs["err2"], msg=obs["errmsg2"], out=out[:500], **ctx))
        elif obs["out2"] != out:
            fails.append(dict(what="not a fixed point", out=out[:500], out2=obs["out2"][:500], **ctx))
        return fails

    def nontrivial_key(self, case, obs):
        if obs.get("out") is not None and obs["out"] != case["text"]:
            return repr(sorted(case.items(), key=lambda kv: kv[0]))
        return None

    def sample_repr(self, case, obs):
        return dict(tool=case["tool"], text=case["text"][:200], out=(obs.get("out") or obs.get("err"))[:200])

    def stats(self, case, obs, acc):
        acc["tool_" + case["tool"]] = acc.get("tool_" + case["tool"], 0) + 1
        if "out" in obs and obs["out"] != case["text"]:
            acc["changed"] = acc.get("changed", 0) + 1
        if not case["text"].endswith("\n"):
            acc["no_final_newline"] = acc.get("no_final_newline", 0) + 1

    families = {"lone_cr": R.fam_lone_cr, "backslash_line": R.fam_backslash_line, "deep_nesting": R.fam_deep_nesting,
                "dotted_imports_rebound_after_deferred_read": lambda case, fl: fam_d69(case, fl)}


def fam_d69(case, fl):
    """D69: the second pass removes one more import.  Narrow family: a def/lambda body reads a name n; later the module
    holds two (or more) plain dotted imports of the package n (`import n.x`, `import n.x.y`) and, after them, a
    module-level store that rebinds n.  (Found by the proof attempt C04_no_unused_left_fragC: witness_deferred_names_fragC.)"""
    if fl.get("what") != "not a fixed point" or case.get("tool") != "tidy":
        return False
    try:
        tree = ast.parse(case["text"] if case["text"].endswith("\n") else case["text"] + "\n")
    except (SyntaxError, ValueError):
        return False
    deferred = set()
    for n in ast.walk(tree):
        if isinstance(n, (ast.FunctionDef, ast.AsyncFunctionDef, ast.Lambda)):
            body = n.body if isinstance(n.body, list) else [n.body]
            for b in body:
                deferred.update(x.id for x in ast.walk(b) if isinstance(x, ast.Name) and isinstance(x.ctx, ast.Load))
    dotted = {}
    for st in tree.body:
        if isinstance(st, ast.Import):
            for a in st.names:
                if a.asname is None and "." in a.name:
                    dotted.setdefault(a.name.split(".")[0], []).append(st.lineno)
    for n, lines in dotted.items():
        if len(lines) >= 2 and n in deferred:
            for st in tree.body:
                if st.lineno > max(lines) and any(isinstance(x, ast.Name) and isinstance(x.ctx, ast.Store) and x.id == n
                                                 for x in ast.walk(st)):
                    return True
    return False


def _real_conflict(case):
    if case.get("tool") != "tidy":
        return False
    def bound(stmts_text):
        out = {}
        try:
            for m, lvl, nm, asn in R.top_imports(stmts_text):
                full = "." * lvl + ((m + ".") if m else "") + nm
                name = asn or (nm if m is not None or lvl else nm.split(".")[0])
                key = (full, asn) if (m is not None or lvl or asn) else (nm, None)   # `import a.b` and `import a.c` both bind a, no conflict
                out.setdefault(name, set()).add(full if (m is not None or lvl or asn) else "import:" + nm.split(".")[0])
        except SyntaxError:
            pass
        return out
    have = bound(case["text"])
    cands = bound("".join(k + "\n" for k in list(case.get("known", [])) + list(case.get("mandatory", []))))
    for name, fulls in cands.items():
        if name in have and (fulls - have[name]):
            return True
    return False


PROP = C03()
