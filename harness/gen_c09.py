"""
gen_c09 — case generator and tree builder for C09 (tidy-imports / reformat-imports /
transform-imports command lines on real temp trees).

A case is a JSON object

  tool      "tidy-imports" | "reformat-imports" | "transform-imports"
  extra     extra argv tokens of the tool (e.g. ["--transform=aa=aa.bb"])
  opts      structured option list, in command-line order:
              ["actions", ["PRINT","REPLACE",...]]  --actions=PRINT,REPLACE,...
              ["print"] ["diff"] ["replace"] ["diff-replace"] ["interactive"]
              ["symlinks", "error"|"follow"|"skip"|"replace"|<bad value>]
  tree      {relative name: ["file", text] | ["link", target string] | ["dir"]}
            (texts are str; bytes >= 0x80 that are not UTF-8 are kept with surrogateescape)
  args      relative names given on the command line (may name nothing)
  answers   lines fed to QUERY prompts
  after     number of options placed after the file arguments (0 = all first)

All random choices come from the `rng` passed in.
"""
from __future__ import annotations

import os

TOOLS = [("tidy-imports", []), ("reformat-imports", []), ("transform-imports", ["--transform=aa=aa.bb"])]
ACTION_NAMES = ["PRINT", "REPLACE", "IFCHANGED", "QUERY", "DIFF", "EXIT1", "EXECUTE:true", "EXECUTE:echo"]
POLICIES = ["error", "follow", "skip", "replace"]
SHORTCUTS = {"print": ["PRINT"], "diff": ["DIFF"], "replace": ["IFCHANGED", "REPLACE"],
             "diff-replace": ["IFCHANGED", "DIFF", "REPLACE"],
             "interactive": ["IFCHANGED", "DIFF", "QUERY", "REPLACE"]}
SHORT_FLAGS = {"print": ["--print", "-p"], "diff": ["--diff", "-d"], "replace": ["--replace", "-r"],
               "diff-replace": ["--diff-replace", "-R"], "interactive": ["--interactive", "-i"]}
ANSWERS = ["y", "n", "", "yes", "Y", " y ", "no", "q", "N", "YES", "maybe", "\tY"]


def content(kind, k):
    """Text of pool content `kind` with the unique marker k."""
    if kind == "C":      # every tool rewrites it (two imports on one line, unsorted)
        return "import sys, os\nprint(os, sys)\nv = %d\n" % k
    if kind == "U":      # already tidy
        return "import os\nprint(os)\nv = %d\n" % k
    if kind == "X":      # does not parse
        return "def (:\nv = %d\n" % k
    if kind == "T":      # rewritten again and again by transform-imports aa=aa.bb; tidy for the other tools
        return "import aa\nprint(aa)\nv = %d\n" % k
    if kind == "B":      # not UTF-8
        return "v = %d # \udcff\udcfe\n" % k
    if kind == "E":
        return ""
    raise ValueError(kind)


def render_opts(opts, rng=None):
    out = []
    for o in opts:
        if o[0] == "actions":
            out.append("--actions=" + ",".join(o[1]))
        elif o[0] == "symlinks":
            out.append("--symlinks=" + o[1])
        else:
            fl = SHORT_FLAGS[o[0]]
            out.append(fl[0] if rng is None else rng.choice(fl))
    return out


def argv_of(case):
    toks = render_opts(case["opts"])
    n_after = min(int(case.get("after", 0)), len(toks))
    first, last = toks[:len(toks) - n_after], toks[len(toks) - n_after:]
    return list(case.get("extra", [])) + first + list(case["args"]) + last


def build_tree(root, tree):
    names = sorted(tree, key=lambda n: (n.count("/"), n))
    for n in names:
        node = tree[n]
        p = os.path.join(root, n)
        if node[0] == "dir":
            os.makedirs(p, exist_ok=True)
    for n in names:
        node = tree[n]
        p = os.path.join(root, n)
        os.makedirs(os.path.dirname(p), exist_ok=True)
        if node[0] == "file":
            with open(p, "wb") as f:
                f.write(node[1].encode("utf-8", "surrogateescape"))
        elif node[0] == "link":
            os.symlink(node[1], p)


def gen_actions(rng, maxlen=4):
    n = rng.choice([1, 2, 2, 3, 3, 4][:max(1, maxlen + 2)])
    n = min(n, maxlen)
    r = rng.random()
    if r < 0.55:
        # biased: REPLACE somewhere, guards before/after it
        acts = [rng.choice(ACTION_NAMES) for _ in range(n - 1)]
        acts.insert(rng.randint(0, len(acts)), "REPLACE")
    else:
        acts = [rng.choice(ACTION_NAMES) for _ in range(n)]
    return acts


def gen_opts(rng):
    n_act = rng.choice([0, 1, 1, 1, 1, 2])
    n_sym = rng.choice([0, 0, 1, 1, 1, 2])
    opts = []
    for _ in range(n_act):
        if rng.random() < 0.65:
            opts.append(["actions", gen_actions(rng)])
        else:
            opts.append([rng.choice(["print", "diff", "replace", "replace", "diff-replace", "interactive"])])
    for _ in range(n_sym):
        opts.append(["symlinks", rng.choice(POLICIES)])
    rng.shuffle(opts)
    return opts


def gen_tree(rng, tool, nfiles=None):
    """Returns (tree, args)."""
    tree, args = {}, []
    n = nfiles or rng.choice([1, 2, 2, 3, 3, 4, 5])
    kinds_file = ["C", "C", "C", "U", "U", "X", "X"] + (["T", "T"] if tool == "transform-imports" else ["T"]) + ["B", "E"]
    mark = [0]

    def newc(kind=None):
        mark[0] += 1
        return content(kind or rng.choice(kinds_file), 100 + mark[0])

    for i in range(n):
        r = rng.random()
        if r < 0.40:
            nm = "f%d.py" % i
            tree[nm] = ["file", newc()]
            args.append(nm)
        elif r < 0.62:
            # symlink to a regular file; the target may or may not be an argument too
            tn = "t%d.py" % i
            if rng.random() < 0.25 and any(v[0] == "file" and "/" not in k for k, v in tree.items()):
                tn = rng.choice(sorted(k for k, v in tree.items() if v[0] == "file" and "/" not in k))
            else:
                tree[tn] = ["file", newc(rng.choice(["C", "C", "U", "X", "T"]))]
            ln = "l%d.py" % i
            tree[ln] = ["link", tn]
            if rng.random() < 0.15:   # chain
                ln2 = "k%d.py" % i
                tree[ln2] = ["link", ln]
                ln = ln2
            args.append(ln)
            if rng.random() < 0.2 and tn not in args:
                args.insert(rng.randint(0, len(args)), tn)
        elif r < 0.70:
            nm = "g%d.py" % i
            tree[nm] = ["link", "nowhere%d.py" % i]
            args.append(nm)
        elif r < 0.80:
            args.append("m%d.py" % i)
        elif r < 0.93:
            d = "d%d" % i
            tree[d] = ["dir"]
            for j, ch in enumerate(rng.sample(["a.py", "b.py", "c.txt", ".h.py", "k.py", "s", "__pycache__"], rng.randint(0, 4))):
                if ch == "k.py":
                    tn = "t%d.py" % i
                    if tn not in tree:
                        tree[tn] = ["file", newc("C")]
                    tree[d + "/k.py"] = ["link", "../" + tn]
                elif ch == "s":
                    tree[d + "/s"] = ["dir"]
                    tree[d + "/s/z.py"] = ["file", newc()]
                elif ch == "__pycache__":
                    tree[d + "/__pycache__"] = ["dir"]
                    tree[d + "/__pycache__/p.py"] = ["file", newc("C")]
                else:
                    tree[d + "/" + ch] = ["file", newc("C" if ch != "b.py" else None)]
            args.append(d)
        else:
            # the same file twice
            files = [a for a in args if tree.get(a, [""])[0] in ("file", "link")]
            if files:
                args.append(rng.choice(files))
            else:
                nm = "f%d.py" % i
                tree[nm] = ["file", newc()]
                args.extend([nm, nm])
    return tree, args


def tree_of_kinds(kinds, tool="tidy-imports"):
    """Deterministic tree for a sequence of argument kinds:
    C/U/X/T/B/E regular file with that content; LC/LU/LX symlink to such a file (the target is not an
    argument); G dangling symlink; M missing; D directory holding a.py (C), k.py -> ../t (C), .h.py, c.txt."""
    tree, args = {}, []
    for i, k in enumerate(kinds):
        m = 200 + 10 * i
        if k in ("C", "U", "X", "T", "B", "E"):
            tree["f%d.py" % i] = ["file", content(k, m)]
            args.append("f%d.py" % i)
        elif k in ("LC", "LU", "LX", "LT"):
            tree["t%d.py" % i] = ["file", content(k[1], m)]
            tree["l%d.py" % i] = ["link", "t%d.py" % i]
            args.append("l%d.py" % i)
        elif k == "G":
            tree["g%d.py" % i] = ["link", "nowhere%d.py" % i]
            args.append("g%d.py" % i)
        elif k == "M":
            args.append("m%d.py" % i)
        elif k == "D":
            d = "d%d" % i
            tree[d] = ["dir"]
            tree[d + "/a.py"] = ["file", content("C", m + 1)]
            tree["t%d.py" % i] = ["file", content("C", m + 2)]
            tree[d + "/k.py"] = ["link", "../t%d.py" % i]
            tree[d + "/.h.py"] = ["file", content("C", m + 3)]
            tree[d + "/c.txt"] = ["file", content("C", m + 4)]
            args.append(d)
        else:
            raise ValueError(k)
    return tree, args


def gen_case(rng):
    tool, extra = rng.choice(TOOLS + [TOOLS[0]])
    opts = gen_opts(rng)
    tree, args = gen_tree(rng, tool)
    nq = rng.choice([0, 1, 2, 3, 5])
    answers = [rng.choice(ANSWERS) for _ in range(nq)]
    if rng.random() < 0.3:
        answers = ["y"] * rng.randint(1, 6)
    after = rng.choice([0, 0, 0, 1, 2])
    if rng.random() < 0.03:
        opts.insert(rng.randint(0, len(opts)), ["symlinks", "bogus"])
    return dict(tool=tool, extra=list(extra), opts=opts, tree=tree, args=args, answers=answers, after=after)
