"""
gen_c09 — case generator and tree builder for C09 (tidy-imports / reformat-imports /
transform-imports command lines on real temp trees).

A case is a JSON object

  tool      "tidy-imports" | "reformat-imports" | "transform-imports"
  extra     extra argv tokens of the tool (e.g. ["--transform=aa=aa.bb"])
  opts      structured option list, in command-line order:
              ["actions", ["PRINT","REPLACE",...]]  --actions=PRINT,REPLACE,...
              ["print"] ["diff"] ["replace"] ["diff-replace"] ["interactive"]
              ["symlinks", "error"|"follow"|"skip"|"replace"|<bad value>]
  tree      {relative name: ["file", text] | ["link", target string] | ["dir"]}
            (texts are str; bytes >= 0x80 that are not UTF-8 are kept with surrogateescape)
  args      relative names given on the command line (may name nothing)
  answers   lines fed to QUERY prompts
  after     number of options placed after the file arguments (0 = all first)
  noisy     (optional) "verbose": `--verbose` is put first on the command line; "env": the run is made with
            PYFLYBY_LOG_LEVEL=DEBUG (both are documented as noise only; only --debug is documented as fail-fast)
  faults    (optional) {"write": {name: errno name}, "rw": {name: exception name}, "list": {dir name: errno name}}

All random choices come from the `rng` passed in.
"""
from __future__ import annotations

import os

TOOLS = [("tidy-imports", []), ("reformat-imports", []), ("transform-imports", ["--transform=aa=aa.bb"])]
ACTION_NAMES = ["PRINT", "REPLACE", "IFCHANGED", "QUERY", "DIFF", "EXIT1", "EXECUTE:true", "EXECUTE:echo"]
POLICIES = ["error", "follow", "skip", "replace"]
SHORTCUTS = {"print": ["PRINT"], "diff": ["DIFF"], "replace": ["IFCHANGED", "REPLACE"],
             "diff-replace": ["IFCHANGED", "DIFF", "REPLACE"],
             "interactive": ["IFCHANGED", "DIFF", "QUERY", "REPLACE"]}
SHORT_FLAGS = {"print": ["--print", "-p"], "diff": ["--diff", "-d"], "replace": ["--replace", "-r"],
               "diff-replace": ["--diff-replace", "-R"], "interactive": ["--interactive", "-i"]}
ANSWERS = ["y", "n", "", "yes", "Y", " y ", "no", "q", "N", "YES", "maybe", "\tY", "yikes no", "yup", "nay"]


def content(kind, k):
    """Text of pool content `kind` with the unique marker k."""
    if kind == "C":      # every tool rewrites it (two imports on one line, unsorted)
        return "import sys, os\nprint(os, sys)\nv = %d\n" % k
    if kind == "U":      # already tidy
        return "import os\nprint(os)\nv = %d\n" % k
    if kind == "X":      # does not parse
        return "def (:\nv = %d\n" % k
    if kind == "T":      # rewritten again and again by transform-imports aa=aa.bb; tidy for the other tools
        return "import aa\nprint(aa)\nv = %d\n" % k
    if kind == "B":      # not UTF-8
        return "v = %d # \udcff\udcfe\n" % k
    if kind == "E":
        return ""
    if kind == "Un":     # already tidy, last line without a newline: the output is the input, byte for byte
        return "import os\nprint(os)\nv = %d" % k
    if kind == "Cn":     # rewritten, last line without a newline
        return "import sys, os\nprint(os, sys)\nv = %d" % k
    if kind == "Uc":     # already tidy, ends in a comment without newline
        return "import os\nprint(os)\n# end %d" % k
    raise ValueError(kind)


def render_opts(opts, rng=None):
    out = []
    for o in opts:
        if o[0] == "actions":
            out.append("--actions=" + ",".join(o[1]))
        elif o[0] == "symlinks":
            out.append("--symlinks=" + o[1])
        else:
            fl = SHORT_FLAGS[o[0]]
            out.append(fl[0] if rng is None else rng.choice(fl))
    return out


def argv_of(case, root=None):
    """argv of the case; with `root`, file arguments become absolute paths (a name may start with '-')."""
    toks = render_opts(case["opts"])
    n_after = min(int(case.get("after", 0)), len(toks))
    first, last = toks[:len(toks) - n_after], toks[len(toks) - n_after:]
    args = list(case["args"]) if root is None else [os.path.join(root, a) for a in case["args"]]
    noisy = ["--verbose"] if case.get("noisy") == "verbose" else []
    return noisy + list(case.get("extra", [])) + first + args + last


# ---------------------------------------------------------------------------------------------
# hostile file names (round 3): `Filename` accepts only [a-zA-Z0-9_=+{}/.,~@-] (and no '~' at the start
# of a component); everything else is refused with UnsafeFilenameError.  That whitelist is what keeps the
# unquoted shell command line of DIFF / EXECUTE harmless.
# ---------------------------------------------------------------------------------------------
import re as _re
import string as _string

HOSTILE_CHARS = [c for c in _string.punctuation if c != "/"] + [" ", "\t", "\n", "\r", "\x7f", "\x01", "\u00e9",
                                                                "\u65e5", "\u202e", "\U0001f600", "\u00a0"]
LONG_NAME = "m" * 247 + ".py"          # '<name>.tmp.<pid>' exceeds NAME_MAX: the write fails for root too


def documented_safe(path):
    """The documented clean behaviour: names outside the whitelist are refused."""
    return bool(path) and _re.search("[^a-zA-Z0-9_=+{}/.,~@-]", path) is None and _re.search("(^|/)~", path) is None


def hostile_forms(ch):
    """File names built around one character, next to a precious file 'v2.py'."""
    return ["v1-%sv2.py" % ch, "%sv2.py" % ch, "a%s%sv2.py" % (ch, ch), "x.py%s" % ch, "v1%s.py" % ch]


HOSTILE_CONFIGS = [["diff"], ["print"], ["actions", ["EXECUTE:echo"]], ["actions", ["IFCHANGED", "DIFF"]],
                   ["replace"], ["diff-replace"], ["actions", ["EXECUTE:true", "PRINT"]], ["actions", ["DIFF", "REPLACE"]]]


def hostile_case(name, cfg, tool="tidy-imports", extra=(), where="arg", k=0):
    """One hostile name, as an argument or as a directory child, in a tree that also holds v2.py, other.py."""
    tree = {"v2.py": ["file", content("C", 900 + k)], "other.py": ["file", content("C", 901 + k)]}
    if where == "arg":
        tree[name] = ["file", content("C", 902 + k)]
        args = [name, "other.py"] if k % 2 else ["other.py", name]
    else:
        tree["d"] = ["dir"]
        tree["d/" + name] = ["file", content("C", 902 + k)]
        tree["d/ok.py"] = ["file", content("C", 903 + k)]
        args = ["d"]
    return dict(tool=tool, extra=list(extra), opts=[cfg], tree=tree, args=args, answers=["y", "y"], after=k % 2)


def hostile_exhaustive(tier, rng):
    """Every character of the hostile alphabet x action configurations x name forms (quick: one form and
    two configurations per character, rotating, --diff always among them for the redirection characters)."""
    out, k = [], 0
    specials = ["-x.py", "--replace.py", "-", "~x.py", "x~y.py", "...py", LONG_NAME, "a" * 120 + ".py",
                "v1-v2.py", "{a,b}.py", "a=b.py", "@x.py", "a+b,c.py"]
    for ch in HOSTILE_CHARS:
        forms = hostile_forms(ch)
        for fi, form in enumerate(forms):
            for ci, cfg in enumerate(HOSTILE_CONFIGS):
                k += 1
                if tier != "thorough" and not ((fi == k % len(forms) and ci in (0, (k // 5) % len(HOSTILE_CONFIGS)))
                                               or (ch in "><|&;" and fi < 3 and ci in (0, 3))):
                    continue
                tool, extra = TOOLS[k % 3]
                out.append(hostile_case(form, cfg, tool, extra, "arg" if (k // 3) % 3 else "child", k))
    for si, nm in enumerate(specials):
        for ci, cfg in enumerate(HOSTILE_CONFIGS):
            k += 1
            if tier != "thorough" and ci not in (si % len(HOSTILE_CONFIGS), 4):
                continue
            out.append(hostile_case(nm, cfg, "tidy-imports", (), "arg" if k % 2 else "child", k))
    return out


def safename_probe():
    """K for the model's `safeName`: every printable ASCII character and the hostile alphabet in three
    positions, plus special shapes."""
    names = []
    chars = [chr(i) for i in range(1, 128)] + HOSTILE_CHARS[-5:]
    for c in chars:
        if c == "/":
            continue
        names += ["/tmp/w/a%sb.py" % c, "/tmp/w/%sb.py" % c, "/tmp/w/d%s/b.py" % c]
    names += ["/", "/tmp/~x", "/tmp/x~", "/~", "/tmp/a/~b/c.py", "/tmp/a~/b", "/tmp/" + "m" * 300, "/tmp/w/a b",
              "/tmp/w/{a,b}.py", "/tmp/w/-r", "/tmp/w/a=b,c+d@e.py"]
    return dict(probe="safename", names=names)


# ---------------------------------------------------------------------------------------------
# failure injection (round 3): one file of a multi-file run fails in each possible way
# ---------------------------------------------------------------------------------------------
WRITE_FAULTS = ["EACCES", "EROFS", "ENOSPC", "EDQUOT"]
# "SystemExit0" = sys.exit(0) inside the rewriter (what --replace-star-imports does when the star-imported
# package's __init__ calls sys.exit(0)): candidate C09-4
RW_FAULTS = ["RuntimeError", "MemoryError", "RecursionError", "SystemExit", "KeyboardInterrupt", "SystemExit0"]
# "list:<errno>": os.listdir of a directory (the argument itself, or a sub-directory met while recursing) fails
LIST_FAULTS = ["list:EACCES", "sublist:EACCES", "list:EIO"]
FAULT_KINDS = (["long"] + ["write:" + w for w in WRITE_FAULTS] + ["rw:" + r for r in RW_FAULTS]
               + ["unparsable", "undecodable", "missing", "dangling"] + LIST_FAULTS)
FAULT_CONFIGS = [["replace"], ["diff-replace"], ["actions", ["REPLACE"]], ["actions", ["PRINT", "REPLACE"]],
                 ["actions", ["IFCHANGED", "REPLACE", "PRINT"]], ["actions", ["REPLACE", "EXIT1"]],
                 ["actions", ["EXECUTE:echo", "IFCHANGED", "REPLACE"]], ["actions", ["REPLACE", "REPLACE"]]]


def fault_case(kind, pos, n, cfg, tool="tidy-imports", extra=(), pol=None, k=0):
    """n regular files (changed / unchanged alternating) with the failing one at position `pos`."""
    tree, args, faults = {}, [], {"write": {}, "rw": {}}
    if kind.startswith(("list:", "sublist:")):
        faults["list"] = {}
    for i in range(n):
        if i != pos:
            nm = "f%d.py" % i
            tree[nm] = ["file", content("C" if (i + k) % 3 else "U", 700 + 10 * i + k % 7)]
            args.append(nm)
            continue
        nm = "bad%d.py" % i
        if kind == "long":
            nm = LONG_NAME
            tree[nm] = ["file", content("C", 799)]
        elif kind.startswith("write:"):
            tree[nm] = ["file", content("C", 799)]
            faults["write"][nm] = kind[6:]
        elif kind.startswith("rw:"):
            tree[nm] = ["file", content("C", 799)]
            faults["rw"][nm] = kind[3:]
        elif kind == "unparsable":
            tree[nm] = ["file", content("X", 799)]
        elif kind == "undecodable":
            tree[nm] = ["file", content("B", 799)]
        elif kind == "dangling":
            tree[nm] = ["link", "nowhere.py"]
        elif kind.startswith(("list:", "sublist:")):
            nm = "bd%d" % i
            tree[nm] = ["dir"]
            tree[nm + "/a.py"] = ["file", content("C", 797)]
            if kind.startswith("sublist:"):
                tree[nm + "/locked"] = ["dir"]
                tree[nm + "/locked/z.py"] = ["file", content("C", 798)]
                faults["list"][nm + "/locked"] = kind.split(":")[1]
            else:
                faults["list"][nm] = kind.split(":")[1]
        args.append(nm)
    opts = [cfg] + ([["symlinks", pol]] if pol else [])
    return dict(tool=tool, extra=list(extra), opts=opts, tree=tree, args=args, answers=[], after=k % 2, faults=faults)


def fault_exhaustive(tier, rng):
    out, k = [], 0
    for ki, kind in enumerate(FAULT_KINDS):
        for pi, (n, pos) in enumerate(((3, 1), (3, 0), (3, 2), (5, 2), (2, 0))):
            for ci, cfg in enumerate(FAULT_CONFIGS):
                k += 1
                if tier != "thorough" and not (ci == (ki + pi) % len(FAULT_CONFIGS) or (ci == 0 and pos == 1)):
                    continue
                tool, extra = TOOLS[k % 3]
                pol = [None, None, "skip", "follow", "replace"][k % 5]
                out.append(fault_case(kind, pos, n, cfg, tool, extra, pol, k))
    return out


UNSAFE_SHAPES = ["direct", "chain", "mid", "child", "twice"]
UNSAFE_CONFIGS = [["replace"], ["print"], ["actions", ["REPLACE", "PRINT"]], ["actions", ["EXECUTE:echo", "IFCHANGED", "REPLACE"]]]


def unsafe_target_case(shape, pol, cfg, dropped=False, k=0):
    """f0.py, <a symlink whose resolved path Filename refuses, in one of five shapes>, f2.py."""
    hd = ["My Project", "a (copy)", "q&a", "x;y"][k % 4]
    tree = {"f0.py": ["file", content("C", 600 + k)], "f2.py": ["file", content("C" if k % 3 else "U", 601 + k)],
            hd: ["dir"], hd + "/t.py": ["file", content("C" if k % 2 else "Cn", 602 + k)]}
    mid = ["h.py"]
    tree["h.py"] = ["link", hd + "/t.py"]
    if shape == "chain":
        tree["k.py"] = ["link", "h.py"]
        mid = ["k.py"]
    elif shape == "mid":       # the refused name is only on the way; the real path is fine: followed normally
        tree["t.py"] = ["file", content("C", 603 + k)]
        tree[hd + "/mid.py"] = ["link", "../t.py"]
        tree["h.py"] = ["link", hd + "/mid.py"]
    elif shape == "child":
        del tree["h.py"]
        tree["e"] = ["dir"]
        tree["e/a.py"] = ["file", content("C", 604 + k)]
        tree["e/k.py"] = ["link", "../" + hd + "/t.py"]
        mid = ["e"]
    elif shape == "twice":
        tree["k.py"] = ["link", "h.py"]
        mid = ["h.py", "k.py", "h.py"]
    opts = [cfg]
    if pol:
        opts = ([["symlinks", pol]] + opts) if dropped else (opts + [["symlinks", pol]])
    return dict(tool=TOOLS[k % 3][0], extra=list(TOOLS[k % 3][1]), opts=opts, tree=tree,
                args=["f0.py"] + mid + ["f2.py"], answers=[], after=k % 2)


def unsafe_target_exhaustive(tier, rng):
    out, k = [], 0
    for shape in UNSAFE_SHAPES:
        for pol in POLICIES + [None]:
            for ci, cfg in enumerate(UNSAFE_CONFIGS):
                k += 1
                if tier != "thorough" and pol != "follow" and ci != (k // len(UNSAFE_CONFIGS)) % len(UNSAFE_CONFIGS):
                    continue
                out.append(unsafe_target_case(shape, pol, cfg, False, k))
        out.append(unsafe_target_case(shape, "follow", ["replace"], True, k))   # policy dropped (D4)
    return out


def build_tree(root, tree):
    names = sorted(tree, key=lambda n: (n.count("/"), n))
    for n in names:
        node = tree[n]
        p = os.path.join(root, n)
        if node[0] == "dir":
            os.makedirs(p, exist_ok=True)
    for n in names:
        node = tree[n]
        p = os.path.join(root, n)
        os.makedirs(os.path.dirname(p), exist_ok=True)
        if node[0] == "file":
            with open(p, "wb") as f:
                f.write(node[1].encode("utf-8", "surrogateescape"))
        elif node[0] == "link":
            os.symlink(node[1], p)


def gen_actions(rng, maxlen=4):
    n = rng.choice([1, 2, 2, 3, 3, 4][:max(1, maxlen + 2)])
    n = min(n, maxlen)
    r = rng.random()
    if r < 0.55:
        # biased: REPLACE somewhere, guards before/after it
        acts = [rng.choice(ACTION_NAMES) for _ in range(n - 1)]
        acts.insert(rng.randint(0, len(acts)), "REPLACE")
    else:
        acts = [rng.choice(ACTION_NAMES) for _ in range(n)]
    return acts


def gen_opts(rng):
    n_act = rng.choice([0, 1, 1, 1, 1, 2])
    n_sym = rng.choice([0, 0, 1, 1, 1, 2])
    opts = []
    for _ in range(n_act):
        if rng.random() < 0.65:
            opts.append(["actions", gen_actions(rng)])
        else:
            opts.append([rng.choice(["print", "diff", "replace", "replace", "diff-replace", "interactive"])])
    for _ in range(n_sym):
        opts.append(["symlinks", rng.choice(POLICIES)])
    rng.shuffle(opts)
    return opts


# symlinks with an ordinary name whose resolved path `Filename` refuses (the model covers them: Env.realSafe,
# ErrKind.unsafeTarget); PFB_C09_UNSAFE_TARGET=0 switches the branch off
UNSAFE_TARGETS = os.environ.get("PFB_C09_UNSAFE_TARGET", "1") != "0"


# symlinks to directories (candidate C09-3); PFB_C09_DIRLINKS=0 switches the branches off
DIRLINKS = os.environ.get("PFB_C09_DIRLINKS", "1") != "0"

DIRLINK_SHAPES = ["arg", "child", "arg+real", "chain", "file-through", "nested-arg"]
DIRLINK_CONFIGS = [["replace"], ["print"], ["actions", ["REPLACE"]], ["actions", ["IFCHANGED", "REPLACE", "PRINT"]]]


def dirlink_case(shape, pol, cfg, k=0):
    """f0.py, <files reached through a symlinked directory, in one of six shapes>, f2.py."""
    tree = {"f0.py": ["file", content("C", 500 + k)], "f2.py": ["file", content("C" if k % 3 else "U", 501 + k)],
            "r": ["dir"], "r/e.py": ["file", content("C" if k % 4 else "U", 502 + k)],
            "r/s": ["dir"], "r/s/z.py": ["file", content("C", 503 + k)]}
    if shape == "arg":
        tree["ld"] = ["link", "r"]
        mid = ["ld"]
    elif shape == "child":
        tree["d"] = ["dir"]
        tree["d/a.py"] = ["file", content("C", 504 + k)]
        tree["d/v"] = ["link", "../r"]
        mid = ["d"]
    elif shape == "arg+real":
        tree["ld"] = ["link", "r"]
        mid = ["ld", "r"] if k % 2 else ["r", "ld"]
    elif shape == "chain":
        tree["ld2"] = ["link", "r"]
        tree["ld"] = ["link", "ld2"]
        mid = ["ld"]
    elif shape == "file-through":
        tree["ld"] = ["link", "r"]
        mid = ["ld/e.py"]
    else:  # the link points at a sub-directory of a directory that is an argument as well
        tree["ld"] = ["link", "r/s"]
        mid = ["ld", "r"]
    opts = [cfg] + ([["symlinks", pol]] if pol else [])
    tool, extra = TOOLS[k % 3]
    return dict(tool=tool, extra=list(extra), opts=opts, tree=tree, args=["f0.py"] + mid + ["f2.py"],
                answers=[], after=k % 2)


def dirlink_exhaustive(tier, rng):
    out, k = [], 0
    for shape in DIRLINK_SHAPES:
        for pol in POLICIES + [None]:
            for ci, cfg in enumerate(DIRLINK_CONFIGS):
                k += 1
                if tier != "thorough" and ci not in (0, 1 + k % 3):
                    continue
                out.append(dirlink_case(shape, pol, cfg, k))
    return out


# candidate C09-2: the same failing-file runs with noise switched on (--verbose / PYFLYBY_LOG_LEVEL=DEBUG)
NOISY_KINDS = ["unparsable", "undecodable", "missing", "dangling", "write:EACCES", "rw:RuntimeError", "long"]


def noisy_exhaustive(tier, rng):
    out, k = [], 0
    for kind in NOISY_KINDS:
        for n, pos in ((3, 1), (3, 0), (3, 2), (2, 0)):
            for ci, cfg in enumerate(FAULT_CONFIGS):
                k += 1
                if tier != "thorough" and ci != k % len(FAULT_CONFIGS) and not (ci == 0 and pos <= 1):
                    continue
                tool, extra = TOOLS[k % 3]
                c = fault_case(kind, pos, n, cfg, tool, extra, [None, "skip", "follow"][k % 3], k)
                c["noisy"] = "verbose" if k % 3 else "env"
                out.append(c)
    return out


def gen_tree(rng, tool, nfiles=None):
    """Returns (tree, args)."""
    tree, args = {}, []
    n = nfiles or rng.choice([1, 2, 2, 3, 3, 4, 5])
    kinds_file = ["C", "C", "C", "U", "U", "X", "X"] + (["T", "T"] if tool == "transform-imports" else ["T"]) + ["B", "E", "Un", "Un", "Cn", "Uc"]
    mark = [0]

    def newc(kind=None):
        mark[0] += 1
        return content(kind or rng.choice(kinds_file), 100 + mark[0])

    for i in range(n):
        r = rng.random()
        if r < 0.40:
            nm = "f%d.py" % i
            tree[nm] = ["file", newc()]
            args.append(nm)
        elif r < 0.62:
            # symlink to a regular file; the target may or may not be an argument too
            tn = "t%d.py" % i
            if rng.random() < 0.25 and any(v[0] == "file" and "/" not in k for k, v in tree.items()):
                tn = rng.choice(sorted(k for k, v in tree.items() if v[0] == "file" and "/" not in k))
            else:
                tree[tn] = ["file", newc(rng.choice(["C", "C", "U", "X", "T", "Un", "Cn"]))]
            ln = "l%d.py" % i
            tree[ln] = ["link", tn]
            if rng.random() < 0.15:   # chain
                ln2 = "k%d.py" % i
                tree[ln2] = ["link", ln]
                ln = ln2
            args.append(ln)
            if rng.random() < 0.2 and tn not in args:
                args.insert(rng.randint(0, len(args)), tn)
        elif r < 0.66 and UNSAFE_TARGETS:
            # a symlink with an ordinary name whose TARGET lives under a directory name that `Filename` refuses
            # (a blank, parentheses, ...): following it cannot be done safely
            hd = rng.choice(["My Project", "a (copy)", "q&a", "x;y"]) + str(i)
            tree[hd] = ["dir"]
            tree[hd + "/t.py"] = ["file", newc(rng.choice(["C", "C", "U", "Cn"]))]
            ln = "h%d.py" % i
            tree[ln] = ["link", hd + "/t.py"]
            r2 = rng.random()
            if r2 < 0.2:      # a chain ending there
                tree["k%d.py" % i] = ["link", ln]
                ln = "k%d.py" % i
            elif r2 < 0.35:   # only an INTERMEDIATE link lives under the refused name; the real path is acceptable
                tree["t%d.py" % i] = ["file", newc("C")]
                tree[hd + "/mid.py"] = ["link", "../t%d.py" % i]
                tree[ln] = ["link", hd + "/mid.py"]
            elif r2 < 0.5:    # reached through a directory argument
                tree["e%d" % i] = ["dir"]
                tree["e%d/a.py" % i] = ["file", newc("C")]
                tree["e%d/k.py" % i] = ["link", "../" + hd + "/t.py"]
                del tree[ln]
                ln = "e%d" % i
            args.append(ln)
        elif r < 0.70:
            nm = "g%d.py" % i
            tree[nm] = ["link", "nowhere%d.py" % i]
            args.append(nm)
        elif r < 0.80:
            args.append("m%d.py" % i)
        elif r < 0.83 and DIRLINKS:
            # a symlink to a DIRECTORY as argument (the files below it are reached through the link); sometimes the
            # real directory or a file named through the link is an argument too
            rd = "r%d" % i
            tree[rd] = ["dir"]
            tree[rd + "/e.py"] = ["file", newc(rng.choice(["C", "C", "U", "X"]))]
            if rng.random() < 0.4:
                tree[rd + "/s"] = ["dir"]
                tree[rd + "/s/z.py"] = ["file", newc("C")]
            ld = "ld%d" % i
            tree[ld] = ["link", rd]
            if rng.random() < 0.2:
                tree["le%d" % i] = ["link", ld]
                ld = "le%d" % i
            r2 = rng.random()
            args.append(ld if r2 < 0.75 else ld + "/e.py")
            if r2 < 0.12:
                args.append(rd)
        elif r < 0.93:
            d = "d%d" % i
            tree[d] = ["dir"]
            for j, ch in enumerate(rng.sample(["a.py", "b.py", "c.txt", ".h.py", "k.py", "s", "__pycache__"] + (["v"] if DIRLINKS else []), rng.randint(0, 4))):
                if ch == "v":     # a symlink to a directory met while recursing
                    rd = "r%d" % i
                    tree[rd] = ["dir"]
                    tree[rd + "/e.py"] = ["file", newc("C")]
                    tree[d + "/v"] = ["link", "../" + rd]
                elif ch == "k.py":
                    tn = "t%d.py" % i
                    if tn not in tree:
                        tree[tn] = ["file", newc("C")]
                    tree[d + "/k.py"] = ["link", "../" + tn]
                elif ch == "s":
                    tree[d + "/s"] = ["dir"]
                    tree[d + "/s/z.py"] = ["file", newc()]
                elif ch == "__pycache__":
                    tree[d + "/__pycache__"] = ["dir"]
                    tree[d + "/__pycache__/p.py"] = ["file", newc("C")]
                else:
                    tree[d + "/" + ch] = ["file", newc("C" if ch != "b.py" else None)]
            args.append(d)
        else:
            # the same file twice
            files = [a for a in args if tree.get(a, [""])[0] in ("file", "link")]
            if files:
                args.append(rng.choice(files))
            else:
                nm = "f%d.py" % i
                tree[nm] = ["file", newc()]
                args.extend([nm, nm])
    return tree, args


def tree_of_kinds(kinds, tool="tidy-imports"):
    """Deterministic tree for a sequence of argument kinds:
    C/U/X/T/B/E regular file with that content; LC/LU/LX symlink to such a file (the target is not an
    argument); G dangling symlink; M missing; D directory holding a.py (C), k.py -> ../t (C), .h.py, c.txt."""
    tree, args = {}, []
    for i, k in enumerate(kinds):
        m = 200 + 10 * i
        if k in ("C", "U", "X", "T", "B", "E"):
            tree["f%d.py" % i] = ["file", content(k, m)]
            args.append("f%d.py" % i)
        elif k in ("LC", "LU", "LX", "LT"):
            tree["t%d.py" % i] = ["file", content(k[1], m)]
            tree["l%d.py" % i] = ["link", "t%d.py" % i]
            args.append("l%d.py" % i)
        elif k == "G":
            tree["g%d.py" % i] = ["link", "nowhere%d.py" % i]
            args.append("g%d.py" % i)
        elif k == "M":
            args.append("m%d.py" % i)
        elif k == "D":
            d = "d%d" % i
            tree[d] = ["dir"]
            tree[d + "/a.py"] = ["file", content("C", m + 1)]
            tree["t%d.py" % i] = ["file", content("C", m + 2)]
            tree[d + "/k.py"] = ["link", "../t%d.py" % i]
            tree[d + "/.h.py"] = ["file", content("C", m + 3)]
            tree[d + "/c.txt"] = ["file", content("C", m + 4)]
            args.append(d)
        else:
            raise ValueError(k)
    return tree, args


def gen_case(rng):
    tool, extra = rng.choice(TOOLS + [TOOLS[0]])
    opts = gen_opts(rng)
    tree, args = gen_tree(rng, tool)
    nq = rng.choice([0, 1, 2, 3, 5])
    answers = [rng.choice(ANSWERS) for _ in range(nq)]
    if rng.random() < 0.3:
        answers = ["y"] * rng.randint(1, 6)
    after = rng.choice([0, 0, 0, 1, 2])
    if rng.random() < 0.03:
        opts.insert(rng.randint(0, len(opts)), ["symlinks", "bogus"])
    case = dict(tool=tool, extra=list(extra), opts=opts, tree=tree, args=args, answers=answers, after=after)
    if rng.random() < 0.15:
        case["noisy"] = rng.choice(["verbose", "verbose", "env"])
    r = rng.random()
    if r < 0.10:
        # a hostile name among ordinary arguments (or inside a directory argument)
        ch = rng.choice(HOSTILE_CHARS)
        nm = rng.choice(hostile_forms(ch) + ["-%s.py" % ch, LONG_NAME])
        tree.setdefault("v2.py", ["file", content("C", 990)])
        dirs = [a for a in args if tree.get(a, [""])[0] == "dir"]
        if dirs and rng.random() < 0.5:
            tree[dirs[0] + "/" + nm] = ["file", content("C", 991)]
        else:
            tree[nm] = ["file", content("C", 991)]
            args.insert(rng.randint(0, len(args)), nm)
    elif r < 0.22:
        # a write / rewriter fault on one regular file argument
        files = [a for a in args if tree.get(a, [""])[0] == "file"]
        dirs = sorted(n for n, v in tree.items() if v[0] == "dir" and documented_safe(n)
                      and (n in args or n.split("/")[0] in args))
        if dirs and rng.random() < 0.3:
            # os.listdir of a directory argument (or of a sub-directory below one) fails
            case["faults"] = {"write": {}, "rw": {}, "list": {rng.choice(dirs): rng.choice(["EACCES", "EIO"])}}
        elif files:
            a = rng.choice(files)
            faults = {"write": {}, "rw": {}}
            if rng.random() < 0.6:
                faults["write"][a] = rng.choice(WRITE_FAULTS)
            else:
                faults["rw"][a] = rng.choice(RW_FAULTS)
            case["faults"] = faults
    return case
