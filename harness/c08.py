"""C08 — In-place file replacement is all-or-nothing.

Every case runs the *real* `pyflyby._file.atomic_write_file` (or `bin/tidy-imports --replace`)
in a forked child whose file-system calls on a scratch directory are numbered call boundaries
(harness/gen_c08.py).  Kinds of case:

  crash  the k-th call is replaced by os._exit(9)           (true process death)
  fault  the k-th call raises an injected OSError
  faultcrash  the k-th call raises an injected OSError and the process dies at a later boundary j > k
         (in crash/fault/faultcrash runs the child also reads the target after EVERY call: the observer at any instant)
  sched  two children (distinct pids) stepped by a token scheduler, target observed after each step
  strace (thorough) the unpatched `bin/tidy-imports --replace` under `strace -f`, optionally with a
         kernel-level injected error / SIGKILL at chmod, chown or rename

O (model-independent): the bytes and permission bits of the target that survive.
K: the Lean model (`Pfb.C08`) is given the same scenario and must predict the recorded call
sequence, the outcome and the surviving target / temp file exactly.
"""
from __future__ import annotations

import errno as _errno
import itertools
import os
import re
import runpy
import shutil
import subprocess
import sys
import tempfile

from vcommon import Prop, REPO
import gen_c08 as G

TARGET = "t.py"
SIZES = [0, 1, 8191, 8192, 8193, 102400]
# target names near NAME_MAX (255): "<name>.tmp.<pid>" fits up to about 243..245 characters, then not at all
NAME_LENS = [240, 243, 244, 245, 246, 247, 248, 249, 250, 251, 252, 253, 254, 255]
MODES = ["0600", "0644", "0755", "0444"]
# modes with set-user-ID / set-group-ID / sticky bits (H1: chown(2) after chmod(2) clears 04000 and, for a
# group-executable file, 02000; "2644" and "1755" are controls the kernel leaves alone)
SMODES = ["2755", "4755", "6755", "4711", "2750", "2644", "1755", "6644"]
MODE_FAIL = "permission bits of the original not carried by the target"


def _mode(s):
    return int(s, 8)


def kill_sugid(m):
    """what Linux chown(2) leaves of the mode bits `m` of a regular file"""
    m1 = m & ~0o4000
    if (m1 & 0o2000) and (m1 & 0o010):
        m1 &= ~0o2000
    return m1


IPY_TARGET = "ipython/profile_default/ipython_config.py"
IPY_REAL = "dotfiles/ipython_config.py"
IPY_LAYOUTS = ["file", "link", "chain", "missing"]
# what the stand-in `ipython profile create` (layout "missing") writes
IPY_STUB = "# Configuration file for ipython.\n\nc = get_config()  #noqa\n\n"
_RUNKEYS = ("kind", "k", "j", "errno", "sched", "limit", "_src")


def cfgkey(case):
    """the configuration of a case without its crash point / fault / schedule"""
    return repr(sorted((k, str(v)) for k, v in case.items() if k not in _RUNKEYS))


def tname(case):
    """target file name (relative to the scratch root); `name_len` asks for a name of exactly that many characters (near NAME_MAX the temp
    name <target>.tmp.<pid> no longer fits: the real code must fail with ENAMETOOLONG and leave the target alone)"""
    if case.get("via") == "ipyconfig":
        return IPY_TARGET
    n = case.get("name_len")
    if not n:
        return TARGET
    return "t" * (n - 3) + ".py"


class C08(Prop):
    id = "C08"
    driver = "C08"
    lean_modules = ["Pfb.C08.Props"]
    theorems = [
        "Pfb.C08.C08_crash",
        "Pfb.C08.C08_fault",
        "Pfb.C08.C08_fault_outcome",
        "Pfb.C08.C08_mode_partial",
        "Pfb.C08.C08_mode_strict",
        "Pfb.C08.C08_mode_false_witness",
        "Pfb.C08.C08_mode_sugid_witness",
        "Pfb.C08.C08_two_writers",
        "Pfb.C08.C08_two_writers_final",
        "Pfb.C08.C08_ops_trace",
        "Pfb.C08.C08_name_too_long",
        "Pfb.C08.tmpName_inj",
        "Pfb.C08.tmpName_ne_target",
    ]
    anchors = [
        ("lib/python/pyflyby/_file.py", "atomic_write_file"),
        ("lib/python/pyflyby/_file.py", "write_file"),
        ("lib/python/pyflyby/_cmdline.py", "action_replace"),
        ("lib/python/pyflyby/_interactive.py", "_install_in_ipython_config_file_40"),
    ]
    quick_cases = 900
    thorough_cases = 9000
    quick_deadline_s = 60
    thorough_deadline_s = 600
    rule = ("(previous file absent | size x mode) x new size x write chunking (short writes) x stale temp file x "
            "entry (atomic_write_file | bin/tidy-imports --replace | install_in_ipython_config_file with the config a file/"
            "symlink/symlink chain/missing) x target names up to NAME_MAX x same-Filename-object-then-chmod sequences x "
            "{crash at call k, OSError at call k, OSError then crash, RLIMIT_FSIZE, two-writer schedule} + source audit of "
            "write sites; sizes {0,1,8191,8192,8193,102400}, modes {0600,0644,0755,0444} + set-uid/set-gid/sticky modes "
            "{2755,4755,6755,4711,2750,2644,1755,6644}; injected errnos {EIO,ENOSPC,EACCES,EPERM,EROFS,EDQUOT,ESTALE,ENOENT}; non-trivial = the child reached "
            "at least one intercepted call; distinct by the whole case")
    trusted_base = [
        "the kernel's rename(2) atomicity, open(O_CREAT|O_TRUNC) and chmod/chown semantics (modelled, not verified)",
        "CPython's io stack issues exactly the recorded write(2)/close(2) calls (cross-checked with strace in the thorough tier)",
        "crash model = process death at a system-call boundary; power-loss reordering is out of scope (as the property says)",
        "harness/gen_c08.py interception layer (call boundaries, token scheduler)",
    ]
    assumptions = [
        "two concurrent writers have distinct pids (the temp name is <target>.tmp.<pid>)",
        "only open() checks NAME_MAX in the model (a target whose temp name does not fit: ENAMETOOLONG, target untouched)",
        "no third party touches the target or the temp files during the replacement",
        "the target is a regular file or absent (symlinks are C09's subject)",
        "a failed write(2) has no effect on the temp file in the model; the temp file after a failed write/close is only "
        "compared up to 'prefix of the new contents' (CPython retries the flush when the with-block closes the file)",
    ]

    # ------------------------------------------------------------------ setup
    def setup(self, tier, rng):
        # one scratch parent per run, removed in teardown() even when pool workers are terminated mid-case
        self.teardown()
        self.scratch = tempfile.mkdtemp(prefix="pfbverif.c08.")
        self._scratch_owner = os.getpid()
        try:    # a check that is terminated (timeout of a caller) must not leave its scratch directory behind
            import signal

            def _term(signum, frame):
                self.teardown()
                os._exit(2)
            signal.signal(signal.SIGTERM, _term)
        except (ValueError, OSError):
            pass
        self._pool = None
        self._nc = {}
        self._ref = {}
        um = os.umask(0)
        os.umask(um)
        self.dflt = 0o666 & ~um
        try:
            self.name_max = os.pathconf(self.scratch, "PC_NAME_MAX")
        except (OSError, ValueError):
            self.name_max = 255
        self.root_user = (os.geteuid() == 0)
        self.old_gid = 4242 if self.root_user else os.getegid()
        self._strict = None
        self._cf = None

    def teardown(self):
        d = getattr(self, "scratch", None)
        if d and getattr(self, "_scratch_owner", None) == os.getpid():
            shutil.rmtree(d, ignore_errors=True)
            self.scratch = None

    def env(self):
        if not getattr(self, "scratch", None):
            self.setup("quick", None)
            import atexit
            atexit.register(self.teardown)
        return self

    def _mkroot(self):
        return os.path.realpath(tempfile.mkdtemp(prefix="r", dir=self.env().scratch))

    def strict(self):
        """Which exception policy does the implementation have?  Probed once on the real code:
        an OSError injected at chmod either is swallowed (the tree as found) or propagates (after fix D6)."""
        self.env()
        if self._strict is None:
            base = dict(via="func", old=dict(size=1, mode="0600"), new_size=1, cap=None, stale=None)
            ops = [c["op"] for c in self.run_impl(dict(base, kind="crash", k=10 ** 6))["calls"]]
            case = dict(base, kind="fault", k=ops.index("chmod") if "chmod" in ops else 4, errno="EIO")
            obs = self.run_impl(case)
            self._strict = obs["fin"] != "returned"
        return self._strict

    def chown_first(self):
        """In which order does the implementation copy mode and group?  Probed once on the real code (fault-free
        run): chmod then chown (the tree as found, H1) or chown then chmod (fixes/C08-H1.diff).  Selects the
        model's program (`atomicWriteOps` / `atomicWriteOpsCF`)."""
        self.env()
        if self._cf is None:
            case = dict(kind="crash", via="func", old=dict(size=1, mode="0600"), new_size=1, cap=None, stale=None,
                        k=10 ** 6)
            ops = [c["op"] for c in self.run_impl(case)["calls"]]
            self._cf = ("chown" in ops and "chmod" in ops and ops.index("chown") < ops.index("chmod"))
        return self._cf

    # ------------------------------------------------------------ scenarios
    @staticmethod
    def _old_bytes(case):
        if case.get("via") == "ipyconfig":
            if case.get("layout") == "missing":
                return IPY_STUB.encode()
            return ("c = get_config()\n" + G.content("old", case["old"]["size"])).encode()
        if case.get("old") is None:
            return None
        if case.get("via") == "cmdline":
            return G.py_source("old", case["old"]["size"]).encode()
        return G.content("old", case["old"]["size"]).encode()

    @staticmethod
    def _new_text(case, who="A"):
        if who == "A":
            return G.content("new", case["new_size"])
        return G.content("newB", case["new_size_b"])

    def _old_mode(self, case):
        """permission bits of the original just before it is replaced (octal string) or None"""
        if case.get("via") == "ipyconfig" and case.get("layout") == "missing":
            return "%04o" % self.env().dflt
        if case.get("old") is None:
            return None
        return case.get("chmod_to") or case["old"]["mode"]

    def _old_gid(self, case):
        if case.get("via") == "ipyconfig" and case.get("layout") == "missing":
            return os.getegid()
        return self.old_gid

    def _populate_ipy(self, root, case):
        """IPYTHONDIR with profile_default/ipython_config.py as a regular file, a symlink into a dotfiles
        checkout, a chain of two symlinks, or missing (then a stand-in `ipython profile create` makes it)"""
        prof = os.path.join(root, "ipython", "profile_default")
        os.makedirs(prof)
        os.makedirs(os.path.join(root, "dotfiles"))
        os.makedirs(os.path.join(root, "bin"))
        config = os.path.join(root, IPY_TARGET)
        layout = case.get("layout", "file")
        with open(os.path.join(root, "bin", "ipython"), "w") as f:
            f.write("#!/bin/sh\nprintf '%s' > \"$IPYTHONDIR/profile_default/ipython_config.py\"\n"
                    % IPY_STUB.replace("\n", "\\n"))
        os.chmod(os.path.join(root, "bin", "ipython"), 0o755)
        if layout == "missing":
            return config
        real = config if layout == "file" else os.path.join(root, IPY_REAL)
        with open(real, "wb") as f:
            f.write(self._old_bytes(case))
        if self.root_user:
            os.chown(real, -1, self.old_gid)
        os.chmod(real, _mode(case["old"]["mode"]))       # (after the chown, which clears set-uid/set-gid bits)
        if layout == "link":
            os.symlink(real, config)
        elif layout == "chain":
            mid = os.path.join(root, "dotfiles", "link2.py")
            os.symlink("ipython_config.py", mid)          # relative link inside the checkout
            os.symlink(mid, config)
        return config

    def _populate(self, root, case):
        if case.get("via") == "ipyconfig":
            return self._populate_ipy(root, case)
        ob = self._old_bytes(case)
        path = os.path.join(root, tname(case))
        if ob is not None:
            with open(path, "wb") as f:
                f.write(ob)
            if self.root_user:
                os.chown(path, -1, self.old_gid)
            os.chmod(path, _mode(case["old"]["mode"]))   # (after the chown, which clears set-uid/set-gid bits)
        return path

    def _prepare(self, root, stale, tag, name=TARGET):
        if not stale:
            return None

        def prep(pid):
            p = os.path.join(root, "%s.tmp.%d" % (name, pid))
            if len(os.path.basename(p)) > self.name_max:
                return          # such a stale file cannot exist
            with open(p, "wb") as f:
                f.write(G.content(tag, stale["size"]).encode())
            os.chmod(p, _mode(stale["mode"]))
        return prep

    def _entry_and_prepare(self, case, root, path):
        """single-writer entry + what runs in the child before the tracer is installed"""
        stale = self._prepare(root, case.get("stale"), "staleA", tname(case))
        if case.get("via") != "func" or not case.get("pre"):
            return self._entry(case, path), stale
        # the SAME Filename object is looked at first (as the command line's argument expansion does, or an
        # earlier replacement in a long-lived session) and used for the replacement later
        from pyflyby._file import Filename, atomic_write_file, expand_py_files_from_args
        data = self._new_text(case)
        old_text = self._old_bytes(case).decode()
        holder = {}

        def prep(pid):
            pre = case["pre"]
            fn = Filename(path)
            if pre == "isfile":
                fn.isfile
            elif pre == "expand":
                fn = expand_py_files_from_args([fn])[0]
            elif pre == "expanddir":
                fn = [f for f in expand_py_files_from_args([Filename(os.path.dirname(path))]) if str(f) == path][0]
            elif pre == "write":
                atomic_write_file(fn, old_text)
            holder["fn"] = fn
            if stale:
                stale(pid)       # (after the earlier replacement, which would have used up a stale temp file)

        def entry():
            atomic_write_file(holder["fn"], data)
        return entry, prep

    def _entry(self, case, path, who="A"):
        if case.get("via") == "ipyconfig":
            root = path[: -len(IPY_TARGET) - 1]
            import IPython  # noqa  (imported before the fork)

            def entry():
                os.environ["IPYTHONDIR"] = os.path.join(root, "ipython")
                os.environ["PATH"] = os.path.join(root, "bin") + os.pathsep + os.environ.get("PATH", "")
                from pyflyby._interactive import install_in_ipython_config_file
                install_in_ipython_config_file()
            return entry
        if case.get("via") == "cmdline":
            def entry():
                script = os.path.join(REPO, "bin", "tidy-imports")
                sys.argv = [script, "--replace", path]
                runpy.run_path(script, run_name="__main__")
            return entry
        from pyflyby._file import Filename, atomic_write_file
        data = self._new_text(case, who)

        def entry():
            atomic_write_file(Filename(path), data)
        return entry

    def _plan(self, case, who="A", watch=None):
        """`watch`: the child reads the target (bytes + mode) right after every call it makes —
        the observer at any instant (single-writer runs; the scheduler observes for pairs)"""
        cap = case.get("cap") if who == "A" else case.get("cap_b")
        extra = dict(cap=cap, watch=watch)
        if case.get("chmod_to") and watch:
            extra["chmod_at_arm"] = [watch, _mode(case["chmod_to"])]
        if case["kind"] == "crash":
            return dict(kind="crash", k=case["k"], **extra)
        if case["kind"] == "fault":
            return dict(kind="fault", k=case["k"], errno=case["errno"], **extra)
        if case["kind"] == "faultcrash":      # OSError at call k, process death at the later boundary j
            return dict(kind="faultcrash", k=case["k"], errno=case["errno"], j=case["j"], **extra)
        if case["kind"] == "fsize":           # RLIMIT_FSIZE: the kernel cuts the write short, then EFBIG
            return dict(kind=None, fsize=case["limit"], **extra)
        return dict(kind=None, cap=cap)

    def _reference_new(self, case):
        """complete new contents for the command-line / IPython-config entries = what a fault-free run leaves"""
        key = (case["via"], case.get("layout") == "missing", (case.get("old") or {}).get("size"))
        if key not in self._ref:
            c = dict(case, kind="crash", k=10 ** 9, cap=None, stale=None, name_len=None, chmod_to=None)
            if c.get("layout") in ("link", "chain"):
                c["layout"] = "file"
            root = self._mkroot()
            try:
                path = self._populate(root, c)
                G.run_single(self._entry(c, path), root, dict(kind=None))
                with open(path, "rb") as f:
                    self._ref[key] = f.read()
            finally:
                shutil.rmtree(root, ignore_errors=True)
        return self._ref[key]

    def _new_bytes(self, case, who="A"):
        if case.get("via") in ("cmdline", "ipyconfig"):
            return self._reference_new(case)
        return self._new_text(case, who).encode()

    def ncalls(self, case):
        """number of call boundaries of a fault-free run of this configuration (recorded on the real code)"""
        self.env()
        key = cfgkey(case)
        if key not in self._nc:
            obs = self.run_impl(dict(case, kind="crash", k=10 ** 9))
            self._nc[key] = len(obs["calls"])
        return self._nc[key]

    def ncalls_fault(self, case, k, errno):
        """number of call boundaries when call k raises `errno` (recorded on the real code): the crash points
        j > k of a fault-then-crash case"""
        self.env()
        key = ("F", cfgkey(case), k)
        if key not in self._nc:
            obs = self.run_impl(dict(case, kind="fault", k=k, errno=errno))
            self._nc[key] = len(obs["calls"])
        return self._nc[key]

    # ------------------------------------------------------------ generators
    def _cap_for(self, rng, size):
        if size <= 1 or rng.random() < 0.45:
            return None
        if size <= 64:
            return rng.choice([1, 3, size - 1])
        lo = max(1, size // 24)
        return rng.choice([lo, size // 2, size // 2 + 1, size - 1, 4096, 4097, 5000, lo + 7])

    def _rmode(self, rng):
        """a permission mode; one in four carries set-user-ID / set-group-ID / sticky bits"""
        return rng.choice(SMODES) if rng.random() < 0.25 else rng.choice(MODES)

    def _rerrno(self, rng):
        """errno of an injected OSError; ENOENT (which `stat` reports for a file that is gone) one time in six"""
        return "ENOENT" if rng.random() < 1 / 6 else rng.choice(G.ERRNOS)

    def _rand_config(self, rng, via=None):
        if via is None:
            r = rng.random()
            via = "cmdline" if r < 0.12 else ("ipyconfig" if r < 0.17 else "func")
        if via == "cmdline":
            old = dict(size=rng.choice([40, 200, 8191, 8192, 8193, 20000]), mode=self._rmode(rng))
            cfg = dict(via=via, old=old, new_size=None, cap=self._cap_for(rng, old["size"]),
                       stale=None if rng.random() < 0.8 else dict(size=rng.choice([0, 50]), mode=rng.choice(MODES)))
            if rng.random() < 0.25:     # chmod between the argument expansion and the replacement
                cfg["chmod_to"] = rng.choice([m for m in MODES + ["0640"] if m != old["mode"]])
            return cfg
        if via == "ipyconfig":
            return dict(via=via, layout=rng.choice(IPY_LAYOUTS), old=dict(size=rng.choice([0, 300, 8193, 20000]),
                        mode=self._rmode(rng)), new_size=None, cap=rng.choice([None, None, 100, 4096]), stale=None)
        old = None if rng.random() < 0.12 else dict(size=rng.choice(SIZES), mode=self._rmode(rng))
        ns = rng.choice(SIZES + [2, 100, 4096, 4097, 12289])
        stale = None if rng.random() < 0.75 else dict(size=rng.choice([0, 1, 50, 9000]), mode=rng.choice(MODES))
        cfg = dict(via=via, old=old, new_size=ns, cap=self._cap_for(rng, ns), stale=stale)
        r = rng.random()
        if r < 0.15:
            cfg["name_len"] = rng.choice(NAME_LENS)
        elif r < 0.3 and old is not None:
            # the same Filename object is looked at, the owner changes the mode, then the file is replaced
            cfg["pre"] = rng.choice(["isfile", "expand", "expanddir", "write"])
            cfg["chmod_to"] = rng.choice([m for m in MODES + ["0640", "0400", "2755", "4755"] if m != old["mode"]])
        return cfg

    def _rand_sched(self, rng, base=None):
        c = base or dict(via="func",
                         old=None if rng.random() < 0.1 else dict(size=rng.choice([0, 1, 100, 8193]), mode=self._rmode(rng)),
                         new_size=rng.choice([0, 1, 60, 8191, 8193, 20000]),
                         new_size_b=rng.choice([0, 2, 70, 8192, 9000, 30000]),
                         stale=None if rng.random() < 0.8 else dict(size=40, mode=rng.choice(MODES)),
                         stale_b=None if rng.random() < 0.8 else dict(size=0, mode="0600"))
        c = dict(c)
        if base is None and rng.random() < 0.15:
            c["name_len"] = rng.choice(NAME_LENS)
        c.setdefault("cap", self._cap_for(rng, c["new_size"]))
        c.setdefault("cap_b", self._cap_for(rng, c["new_size_b"]))
        na = self.ncalls(dict(via="func", old=c["old"], new_size=c["new_size"], cap=c["cap"], stale=None))
        nb = self.ncalls(dict(via="func", old=c["old"], new_size=c["new_size_b"], cap=c["cap_b"], stale=None))
        toks = list("A" * na + "B" * nb)
        rng.shuffle(toks)
        r = rng.random()
        if r < 0.15:
            toks = toks[: rng.randint(0, len(toks))]     # both die there
        elif r < 0.3:
            toks += rng.choice(["AB", "BA", "AABB"])        # tokens for finished writers are no-ops
        c.update(kind="sched", sched="".join(toks))
        return c

    def gen_case(self, rng, i, tier):
        self.env()
        # Random configurations are drawn into a pool first (each needs one recording run on the real code
        # to learn its number of call boundaries); the cases vary crash point / fault / schedule over the pool.
        if getattr(self, "_pool", None) is None or i == 0:
            n = 160 if tier == "thorough" else 40
            self._pool = [self._rand_config(rng) for _ in range(n)]
            self._spool = []
            for _ in range(n // 2):
                c = self._rand_sched(rng)
                c.pop("sched"), c.pop("kind")
                self._spool.append(c)
        r = rng.random()
        if r < 0.3:
            return self._rand_sched(rng, rng.choice(self._spool))
        cfg = rng.choice(self._pool)
        n = self.ncalls(cfg)
        k = rng.randint(0, n)
        if cfg["via"] in ("func", "ipyconfig") and cfg.get("layout") != "missing" and rng.random() < 0.08:
            return dict(cfg, kind="fsize", limit=rng.choice([1, 100, 4096, 8192, 8193, 50000]))
        if r < 0.58:
            return dict(cfg, kind="crash", k=k)
        k = min(k, max(0, n - 1))
        en = self._rerrno(rng)
        if r < 0.84:
            return dict(cfg, kind="fault", k=k, errno=en)
        if cfg["via"] == "ipyconfig":
            return dict(cfg, kind="fault", k=k, errno=en)      # (fault-then-crash of the installer: exhaustive scope)
        m = self.ncalls_fault(cfg, k, en)
        if m <= k + 1:
            return dict(cfg, kind="fault", k=k, errno=en)      # nothing is called after this error
        return dict(cfg, kind="faultcrash", k=k, errno=en, j=rng.randint(k + 1, m - 1))

    def _site_cases(self, thorough):
        """cases that drive the call sites other than atomic_write_file(Filename, str) itself: the source audit, the
        IPython config installer in every layout, the same-Filename-object sequences, the CLI with a chmod in between"""
        out = []
        def all_points(cfg, faultcrash=True):
            n = self.ncalls(cfg)
            for k in range(n + 1):
                out.append(dict(cfg, kind="crash", k=k))
            for k in range(n):
                en = G.ERRNOS[(k + len(out)) % len(G.ERRNOS)]
                out.append(dict(cfg, kind="fault", k=k, errno=en))
                if faultcrash:
                    for j in range(k + 1, self.ncalls_fault(cfg, k, en)):
                        out.append(dict(cfg, kind="faultcrash", k=k, errno=en, j=j))
        # source audit: the set of call sites that write / rename / remove files by name
        out.append(dict(kind="audit"))
        # the other call site of the atomic writer: the IPython config installer, config file regular / symlink /
        # symlink chain / missing; every crash point and fault position, RLIMIT_FSIZE short writes
        for layout in IPY_LAYOUTS:
            for size, mode in ([(9000, "0600")] if not thorough else [(0, "0644"), (9000, "0600"), (20000, "0444")]):
                cfg = dict(via="ipyconfig", layout=layout, old=dict(size=size, mode=mode), new_size=None, cap=None, stale=None)
                all_points(cfg, faultcrash=thorough or layout == "link")
                for limit in ([4096] if not thorough else [1, 4096, 8192, 9100]):
                    if layout != "missing":     # (the limit would also cut the stand-in `ipython profile create`)
                        out.append(dict(cfg, kind="fsize", limit=limit))
        for size, limit in ((8193, 4096), (102400, 8192), (100, 1)):
            out.append(dict(via="func", old=dict(size=100, mode="0600"), new_size=size, cap=None, stale=None,
                            kind="fsize", limit=limit))
        # the same Filename object before and after a chmod; the command line: expand arguments -> chmod -> replace
        pairs = [("0644", "0600"), ("0600", "0644"), ("0755", "0644"), ("0444", "0640")]
        for pi, pre in enumerate(["isfile", "expand", "expanddir", "write"]):
            for qi, (m0, m1) in enumerate(pairs):
                cfg = dict(via="func", old=dict(size=100, mode=m0), new_size=60, cap=None, stale=None, pre=pre, chmod_to=m1)
                if thorough or qi == pi:
                    all_points(cfg, faultcrash=False)
                else:
                    out.append(dict(cfg, kind="crash", k=10 ** 6))
        for qi, (m0, m1) in enumerate(pairs):
            cfg = dict(via="cmdline", old=dict(size=200, mode=m0), new_size=None, cap=None, stale=None, chmod_to=m1)
            if thorough or qi == 0:
                all_points(cfg, faultcrash=False)
            else:
                out.append(dict(cfg, kind="crash", k=10 ** 6))
        return out

    def _bits_cases(self, thorough):
        """H1: previous modes with set-user-ID / set-group-ID / sticky bits — every crash point, every fault position
        (so also an error at chown, after which the bits survive in either order), fault-then-crash, all entries, two
        writers.  H3: ENOENT injected at every call position (at `stat` it is taken for "no previous file")."""
        out = []
        def all_points(cfg, errnos=None, faultcrash=True):
            n = self.ncalls(cfg)
            for k in range(n + 1):
                out.append(dict(cfg, kind="crash", k=k))
            for k in range(n):
                en = errnos[k % len(errnos)] if errnos else G.ERRNOS[(k + len(out)) % len(G.ERRNOS)]
                out.append(dict(cfg, kind="fault", k=k, errno=en))
                if faultcrash:
                    for j in range(k + 1, self.ncalls_fault(cfg, k, en)):
                        out.append(dict(cfg, kind="faultcrash", k=k, errno=en, j=j))
        for i, m in enumerate(SMODES):
            cfg = dict(via="func", old=dict(size=100, mode=m), new_size=[60, 8193, 0][i % 3], cap=None, stale=None)
            all_points(cfg, faultcrash=thorough or i < 2)
            if thorough or i in (0, 1):
                all_points(dict(via="cmdline", old=dict(size=200, mode=m), new_size=None, cap=None, stale=None),
                           faultcrash=thorough)
            if thorough or i == 2:
                all_points(dict(via="ipyconfig", layout="file" if i % 2 == 0 else "link", old=dict(size=300, mode=m),
                                new_size=None, cap=None, stale=None), faultcrash=False)
            # a stale temp file that itself carries the bits; the owner sets the bits right before the replacement
            out.append(dict(via="func", old=dict(size=100, mode="0644"), new_size=60, cap=None,
                            stale=dict(size=50, mode=m), kind="crash", k=10 ** 6))
            out.append(dict(via="func", old=dict(size=100, mode="0755"), new_size=60, cap=None, stale=None,
                            pre="isfile", chmod_to=m, kind="crash", k=10 ** 6))
            out.append(dict(via="func", old=dict(size=100, mode=m), new_size=60, new_size_b=70, cap=None, cap_b=None,
                            stale=None, stale_b=None, kind="sched", sched="ABABABABABABAB"))
            out.append(dict(via="func", old=dict(size=100, mode=m), new_size=60, new_size_b=70, cap=None, cap_b=None,
                            stale=None, stale_b=None, kind="sched", sched="AAAABBBBBBBAAA"))
        # ENOENT as the injected errno, at every position
        for cfg in [dict(via="func", old=dict(size=100, mode="0600"), new_size=60, cap=None, stale=None),
                    dict(via="func", old=dict(size=100, mode="4755"), new_size=8193, cap=None, stale=None),
                    dict(via="func", old=None, new_size=60, cap=None, stale=None),
                    dict(via="cmdline", old=dict(size=200, mode="0600"), new_size=None, cap=None, stale=None),
                    dict(via="ipyconfig", layout="file", old=dict(size=300, mode="0600"), new_size=None, cap=None, stale=None)]:
            all_points(cfg, errnos=["ENOENT"], faultcrash=thorough or cfg["via"] == "func")
        return out

    def exhaustive_cases(self, tier, rng):
        self.env()
        out = []
        thorough = tier == "thorough"
        olds = [None] + [dict(size=s, mode=m) for s in SIZES for m in MODES]
        configs = [dict(via="func", old=o, new_size=ns, cap=None, stale=None) for o in olds for ns in SIZES]
        if not thorough:
            # every (new size, mode) and every (old size, new size) pair at least once
            keep = [c for c in configs if c["old"] is None
                    or (SIZES.index(c["old"]["size"]) + MODES.index(c["old"]["mode"])) % 4 == SIZES.index(c["new_size"]) % 4]
            configs = keep
        for cfg in configs:
            n = self.ncalls(cfg)
            for k in range(n + 1):
                out.append(dict(cfg, kind="crash", k=k))
            for k in range(n):
                en = G.ERRNOS[(k + len(out)) % len(G.ERRNOS)]
                out.append(dict(cfg, kind="fault", k=k, errno=en))
                # disk-full-then-kill: every later boundary the process still reaches after the error
                for j in range(k + 1, self.ncalls_fault(cfg, k, en)):
                    out.append(dict(cfg, kind="faultcrash", k=k, errno=en, j=j))
        # the command-line entry, every crash point / fault position for a few files
        for size, mode in ([(200, "0600"), (8192, "0755")] if not thorough else
                           [(s, m) for s in (40, 8191, 8192, 8193, 102400) for m in MODES]):
            cfg = dict(via="cmdline", old=dict(size=size, mode=mode), new_size=None, cap=None, stale=None)
            n = self.ncalls(cfg)
            for k in range(n + 1):
                out.append(dict(cfg, kind="crash", k=k))
            for k in range(n):
                en = G.ERRNOS[k % len(G.ERRNOS)]
                out.append(dict(cfg, kind="fault", k=k, errno=en))
                for j in range(k + 1, self.ncalls_fault(cfg, k, en)):
                    out.append(dict(cfg, kind="faultcrash", k=k, errno=en, j=j))
        # target names near NAME_MAX: every crash point / fault position / fault-then-crash, both entries
        for nl in NAME_LENS:
            cfgs = [dict(via="func", old=dict(size=100, mode="0600"), new_size=60, cap=None, stale=None, name_len=nl)]
            if thorough or nl in (250, 255):
                cfgs.append(dict(via="func", old=None, new_size=8193, cap=None, stale=None, name_len=nl))
                cfgs.append(dict(via="cmdline", old=dict(size=200, mode="0755"), new_size=None, cap=None, stale=None, name_len=nl))
            for cfg in cfgs:
                n = self.ncalls(cfg)
                for k in range(n + 1):
                    out.append(dict(cfg, kind="crash", k=k))
                for k in range(n):
                    en = G.ERRNOS[(k + nl) % len(G.ERRNOS)]
                    out.append(dict(cfg, kind="fault", k=k, errno=en))
                    for j in range(k + 1, self.ncalls_fault(cfg, k, en)):
                        out.append(dict(cfg, kind="faultcrash", k=k, errno=en, j=j))
        out.extend(self._site_cases(thorough))
        out.extend(self._bits_cases(thorough))
        # two writers: all interleavings of the two 7-call skeletons (thorough) / a sample (quick)
        base = dict(via="func", old=dict(size=100, mode="0600"), new_size=60, new_size_b=70, cap=None, cap_b=None,
                    stale=None, stale_b=None)
        na = self.ncalls(dict(via="func", old=base["old"], new_size=60, cap=None, stale=None))
        nb = self.ncalls(dict(via="func", old=base["old"], new_size=70, cap=None, stale=None))
        import math
        if math.comb(na + nb, na) <= 20000:
            combos = list(itertools.combinations(range(na + nb), na))
            if not thorough:
                combos = rng.sample(combos, min(150, len(combos)))
        else:   # (only when the implementation issues more calls than the 7-call skeleton)
            combos = [tuple(sorted(rng.sample(range(na + nb), na))) for _ in range(3432 if thorough else 150)]
        for pos in combos:
            s = ["B"] * (na + nb)
            for p in pos:
                s[p] = "A"
            out.append(dict(base, kind="sched", sched="".join(s)))
        # two writers of a target with a long name (schedules of the full 7-call skeletons: if the implementation
        # does not fail at `open`, its interleavings are exercised)
        for nl in NAME_LENS:
            for pos in rng.sample(combos, min(len(combos), 60 if thorough else 8)):
                s = ["B"] * (na + nb)
                for p in pos:
                    s[p] = "A"
                out.append(dict(base, kind="sched", sched="".join(s), name_len=nl))
        if thorough:
            for syscall in (None, "chmod", "chown", "rename"):
                for action in ((None,) if syscall is None else ("error=EPERM", "error=EIO", "signal=KILL")):
                    for size, mode in ((200, "0600"), (8193, "0755"), (102400, "0444")):
                        out.append(dict(kind="strace", via="cmdline", old=dict(size=size, mode=mode), new_size=None,
                                        cap=None, stale=None, inject=None if syscall is None else [syscall, action]))
        # the audit and the other call sites first (they are few, and a truncated run must not skip them)
        out.sort(key=lambda c: 0 if c.get("kind") == "audit" else 1 if c.get("via") == "ipyconfig"
                 else 2 if (c.get("pre") or c.get("chmod_to")) else 3 if (c.get("old") or {}).get("mode") in SMODES
                 or c.get("errno") == "ENOENT" else 4)
        return out

    def search_cases(self, rng, disagreeing, budget):
        """failing-input search when T or K is broken.  A changed set of write sites (audit) is pursued by driving
        every entry point that can reach a file replacement, in all layouts, at every crash point / fault position."""
        out = []
        if any(c.get("kind") == "audit" for c in disagreeing):
            out = [c for c in self._site_cases(True) if c.get("kind") != "audit"]
        return [dict(c, _src="search") for c in out][:budget]

    # -------------------------------------------------------- implementation
    def _observe(self, root, case):
        """the surviving directory of the target: {path relative to root: {len, sha, mode, gid}}; the target
        itself as a reader sees it (symlinks followed)"""
        t = tname(case)
        d = os.path.dirname(t)
        files = {}
        for n, v in G.snapshot(os.path.join(root, d) if d else root).items():
            files[(d + "/" + n) if d else n] = v
        tf = G.read_follow(os.path.join(root, t))
        files.pop(t, None)
        if tf is not None:
            files[t] = tf
        if case.get("via") == "ipyconfig" and case.get("layout") in ("link", "chain"):
            files["<real>"] = G.read_follow(os.path.join(root, IPY_REAL))
            files["<islink>"] = os.path.islink(os.path.join(root, t))
        return files

    def run_impl(self, case):
        self.env()
        if case["kind"] == "audit":
            import gen_c08_sites
            return dict(gen_c08_sites.audit(REPO), kind="audit")
        if case["kind"] == "strace":
            return self._run_strace(case)
        root = self._mkroot()
        try:
            path = self._populate(root, case)
            envd = dict(dflt="%04o" % self.dflt, egid=os.getegid(), old_gid=self.old_gid, name_max=self.name_max)
            if case["kind"] == "sched":
                r = G.run_pair([self._entry(case, path, "A"), self._entry(case, path, "B")], root,
                               [self._plan(case, "A"), self._plan(case, "B")], case["sched"], tname(case),
                               (self._prepare(root, case.get("stale"), "staleA", tname(case)),
                                self._prepare(root, case.get("stale_b"), "staleB", tname(case))))
                return dict(A=r["A"], B=r["B"], snaps=r["snaps"], files=G.snapshot(root), env=envd)
            entry, prep = self._entry_and_prepare(case, root, path)
            r = G.run_single(entry, root, self._plan(case, watch=path), prep)
            obs = dict(pid=r["pid"], calls=r["calls"], fin=r["fin"], exit=r["exit"], files=self._observe(root, case), env=envd)
            if case.get("via") in ("cmdline", "ipyconfig"):
                nb = self._reference_new(case)
                obs["ref_new"] = dict(len=len(nb), sha=G.sha(nb))
            return obs
        finally:
            shutil.rmtree(root, ignore_errors=True)

    _SYS = re.compile(r"^(\d+)\s+(\w+)\((.*)\)\s+=\s+(-?\d+|\?)(?:\s+(E\w+))?")

    def _run_strace(self, case):
        """the unpatched interpreter running bin/tidy-imports --replace under strace"""
        root = self._mkroot()
        try:
            path = self._populate(root, case)
            log = os.path.join(root, ".strace")
            cmd = ["strace", "-f", "-o", log, "-s", "0", "-e",
                   "trace=openat,open,creat,write,close,stat,lstat,newfstatat,chmod,fchmod,fchmodat,chown,fchown,fchownat,"
                   "lchown,rename,renameat,renameat2,unlink,unlinkat,link,linkat,truncate,ftruncate"]
            if case.get("inject"):
                cmd += ["-e", "inject=%s:%s:when=1" % tuple(case["inject"])]
            env = dict(os.environ, PYTHONPATH=os.path.join(REPO, "lib", "python"))
            p = subprocess.run(cmd + [sys.executable, os.path.join(REPO, "bin", "tidy-imports"), "--replace", path],
                               stdout=subprocess.DEVNULL, stderr=subprocess.DEVNULL, env=env, timeout=120)
            calls, fds, armed = [], {}, False
            for line in open(log, errors="replace"):
                m = self._SYS.match(line)
                if not m:
                    continue
                _, name, args, ret, en = m.groups()
                res = "ok" if not en else en
                paths = [q[len(root) + 1:] for q in re.findall(r'"([^"]*)"', args) if q.startswith(root + "/")]
                if name in ("openat", "open", "creat"):
                    if paths and ret not in ("?",) and not en:
                        if "O_WRONLY" in args or "O_RDWR" in args or name == "creat":
                            fds[ret] = paths[0]
                            armed = True
                            calls.append(dict(op="open", path=paths[0], res="ok"))
                    elif paths and en and ("O_WRONLY" in args or "O_RDWR" in args):
                        armed = True
                        calls.append(dict(op="open", path=paths[0], res=en))
                    continue
                fd = args.split(",")[0].strip()
                if name == "write":
                    if fd in fds:
                        calls.append(dict(op="write", path=fds[fd], n=int(ret) if not en else 0,
                                          res=("ok:%s" % ret) if not en else en))
                    continue
                if name == "close":
                    if fd in fds:
                        calls.append(dict(op="close", path=fds.pop(fd), res=res))
                    continue
                if not paths:
                    continue
                if name in ("stat", "lstat", "newfstatat"):
                    if armed:
                        calls.append(dict(op="stat", paths=paths, res=res))
                    continue
                opn = {"fchmodat": "chmod", "fchownat": "chown", "renameat": "rename", "renameat2": "rename",
                       "unlinkat": "unlink", "linkat": "link"}.get(name, name)
                armed = True
                calls.append(dict(op=opn, paths=paths, res=res if ret != "?" else "killed"))
            os.unlink(log)
            fin = "returned" if p.returncode == 0 else ("killed" if p.returncode in (-9, 137) else "raised:SystemExit")
            obs = dict(pid=None, calls=calls, fin=fin, exit="exit:%d" % p.returncode, files=G.snapshot(root),
                       env=dict(dflt="%04o" % self.dflt, egid=os.getegid(), old_gid=self.old_gid, name_max=self.name_max))
            # pid of the writer = suffix of the temp name it opened
            for c in calls:
                mm = re.match(re.escape(tname(case)) + r"\.tmp\.(\d+)$", c.get("path", ""))
                if c["op"] == "open" and mm:
                    obs["pid"] = int(mm.group(1))
            nb = self._reference_new(case)
            obs["ref_new"] = dict(len=len(nb), sha=G.sha(nb))
            return obs
        finally:
            shutil.rmtree(root, ignore_errors=True)

    # ----------------------------------------------------------------- oracle
    def _judge(self, f, old_b, old_mode, news, where):
        """all-or-nothing + permission bits for one observation `f` of the target"""
        fails = []
        if f is None:
            if old_b is not None:
                fails.append(dict(what="target path is missing although a previous file existed", at=where))
            return fails, None
        if "sha" not in f:
            return [dict(what="target is not a regular file", at=where, got=f)], None
        which = None
        if old_b is not None and f["sha"] == G.sha(old_b) and f["len"] == len(old_b):
            which = "old"
        for name, nb in news.items():
            if f["sha"] == G.sha(nb) and f["len"] == len(nb):
                which = name if which is None else which + "=" + name
        if which is None:
            fails.append(dict(what="target holds neither the complete previous nor the complete new contents",
                              at=where, got_len=f["len"], old_len=None if old_b is None else len(old_b),
                              new_len={k: len(v) for k, v in news.items()}))
        if old_mode is not None and f["mode"] != old_mode:
            fails.append(dict(what=MODE_FAIL, at=where, got=f["mode"], want=old_mode, content=which))
        return fails, which

    def oracle(self, case, obs):
        if case["kind"] == "audit":
            return []          # a changed set of write sites is an obligation (see compare), not yet a failing input
        old_b = self._old_bytes(case)
        old_mode = self._old_mode(case)
        if case["kind"] == "sched":
            news = dict(newA=self._new_bytes(case, "A"), newB=self._new_bytes(case, "B"))
            fails = []
            for i, s in enumerate(obs["snaps"]):
                fl, _ = self._judge(s, old_b, old_mode, news, "after %d scheduler steps of %s" % (i, case["sched"]))
                fails.extend(fl)
                if fails:
                    break
            fl, which = self._judge(obs["files"].get(tname(case)), old_b, old_mode, news, "final")
            fails.extend(fl)
            done = [X for X in "AB" if obs[X]["fin"] == "returned"]
            if done and not fl and (which is None or not any(w in ("newA", "newB") for w in which.split("="))):
                fails.append(dict(what="a writer returned normally but the target is not one writer's complete output",
                                  returned=done, content=which))
            return fails[:3]
        if obs["fin"] is not None and str(obs["fin"]).startswith("harness:"):
            raise RuntimeError(obs["fin"])
        news = dict(new=self._new_bytes(case))
        k = case.get("k")
        where = "%s k=%s" % (case["kind"], k if case["kind"] != "strace" else case.get("inject"))
        if case["kind"] == "faultcrash":
            where += " then crash j=%s" % case["j"]
        fails = []
        # an observer at any instant: the target right after every call the process made
        for i, c in enumerate(obs["calls"]):
            if "snap" in c:
                fl, _ = self._judge(c["snap"], old_b, old_mode, news,
                                    "%s: observer after call %d (%s %s)" % (where, i, c["op"], c.get("path") or c.get("paths")))
                if fl:
                    fails.extend(fl)
                    break
        fl, which = self._judge(obs["files"].get(tname(case)), old_b, old_mode, news, where + ": survivor")
        fails.extend(fl)
        if "<real>" in obs["files"]:
            # the file the symlinked config points to is a user's file too
            fl2, _ = self._judge(obs["files"]["<real>"], old_b, old_mode, news, where + ": survivor, file behind the symlink")
            fails.extend(fl2)
        fault_op = None
        if case["kind"] in ("fault", "faultcrash") and k is not None and k < len(obs["calls"]):
            fault_op = obs["calls"][k]["op"]
        if case["kind"] == "strace" and case.get("inject"):
            fault_op = case["inject"][0]
        for fl in fails:
            fl["fault_op"] = fault_op
            fl["fin"] = obs["fin"]
        if obs["fin"] == "returned" and which is not None and "new" not in which.split("="):
            fails.append(dict(what="the call returned normally but the target does not hold the new contents",
                              at=where, content=which, fault_op=fault_op))
        return fails[:3]

    # known-finding family: D6 — an OSError at stat/chmod is swallowed, the replacement goes ahead with the
    # temp file's own permission bits.  Narrow: injected fault exactly at stat or chmod, the call returned normally,
    # the content is the complete new content, and the only complaint is the permission bits.
    @staticmethod
    def _fam_d6(case, fl):
        return (case.get("kind") in ("fault", "strace") and fl.get("what") == MODE_FAIL
                and fl.get("fault_op") in ("stat", "chmod") and fl.get("fin") == "returned"
                and fl.get("content") in ("new", "old=new"))

    # known-finding family H1 — chmod(tmp, st_mode) is followed by chown(tmp, -1, st_gid), and chown(2) clears the
    # set-user-ID bit and (for a group-executable file) the set-group-ID bit.  Narrow: the ONLY complaint is the mode, the
    # previous mode had such a bit, what the target carries is exactly what chown(2) leaves of the previous mode, and the
    # target holds the complete new contents (the replacement happened).
    @staticmethod
    def _fam_h1(case, fl):
        if fl.get("what") != MODE_FAIL or not fl.get("want") or not fl.get("got"):
            return False
        want, got = _mode(fl["want"]), _mode(fl["got"])
        return (want != got and got == kill_sugid(want) and fl.get("content") is not None
                and any(w.startswith("new") for w in str(fl["content"]).split("=")))

    # known-finding family H3 — a single injected ENOENT at the `stat` of the target is taken for "there was no previous
    # file": the replacement goes ahead with the temp file's own bits.  Narrow: the injected errno is ENOENT, it hit
    # `stat`, the target holds the complete new contents, the only complaint is the mode.
    @staticmethod
    def _fam_h3(case, fl):
        return (case.get("kind") in ("fault", "faultcrash") and case.get("errno") == "ENOENT"
                and fl.get("what") == MODE_FAIL and fl.get("fault_op") == "stat"
                and fl.get("content") in ("new", "old=new"))

    families = {"D6_mode_dropped_on_stat_or_chmod_error": _fam_d6.__func__,
                "H1_sugid_bits_cleared_by_chown_after_chmod": _fam_h1.__func__,
                "H3_mode_dropped_on_injected_ENOENT_at_stat": _fam_h3.__func__}

    # ------------------------------------------------------------------ model
    @staticmethod
    def _chunks(calls, total, tmpname):
        """accepted byte counts of the writes to the temp file, completed by one chunk for the rest"""
        ch, faulted = [], None
        for c in calls:
            if c["op"] == "write" and c.get("path") == tmpname:
                r = c.get("res")
                if r is None or not str(r).startswith("ok"):
                    if faulted is None and r is not None:
                        faulted = len(ch)
                        ch.append(c["n"])       # the attempted chunk (the model's failed write has no effect)
                    break
                ch.append(int(str(r).split(":")[1]))
        done = sum(ch)
        if done < total:
            ch.append(total - done)
        return [c for c in ch if c > 0]

    def _filej(self, size, mode, gid, tok):
        return dict(c=[tok] if size > 0 else [], mode=_mode(mode), gid=gid)

    def model_requests(self, case, obs):
        if case["kind"] == "audit":
            return [dict(op="run", strict=False, cf=False, target="t", dflt=420, dgid=0, namemax=255, old=None, pid=1, chunks=[],
                         stale=None, fuel=0, fault=None)]
        e = obs["env"]
        ob = self._old_bytes(case)
        base = dict(strict=self.strict(), cf=self.chown_first(), target=tname(case), dflt=_mode(e["dflt"]), dgid=e["egid"], namemax=e["name_max"],
                    old=None if ob is None else
                    self._filej(len(ob), self._old_mode(case), self._old_gid(case), 0))
        if case["kind"] == "sched":
            req = dict(base, op="sched", sched=[0 if t == "A" else 1 for t in case["sched"]])
            for X, off, st in (("A", 0, case.get("stale")), ("B", 1000, case.get("stale_b"))):
                pid = obs[X]["pid"]
                total = len(self._new_bytes(case, X))
                ch = self._chunks(obs[X]["calls"], total, "%s.tmp.%d" % (tname(case), pid))
                req[X] = dict(pid=pid, chunks=[[off + i + 1] for i in range(len(ch))], sizes=ch,
                              stale=None if (not st or len("%s.tmp.%d" % (tname(case), pid)) > e["name_max"])
                              else self._filej(st["size"], st["mode"], e["egid"], 900 + off))
            return [req]
        if obs.get("pid") is None:
            return []
        total = len(self._new_bytes(case))
        ch = self._chunks(obs["calls"], total, "%s.tmp.%d" % (tname(case), obs["pid"]))
        st = case.get("stale")
        req = dict(base, op="run", pid=obs["pid"], chunks=[[i + 1] for i in range(len(ch))], sizes=ch,
                   stale=None if (not st or len("%s.tmp.%d" % (tname(case), obs["pid"])) > e["name_max"])
                   else self._filej(st["size"], st["mode"], e["egid"], 900),
                   fuel=None, fault=None)
        if case["kind"] == "crash":
            req["fuel"] = case["k"]
        elif case["kind"] == "fault":
            req["fault"] = dict(at=case["k"], errno=getattr(_errno, case["errno"]))
        elif case["kind"] == "faultcrash":
            req["fault"] = dict(at=case["k"], errno=getattr(_errno, case["errno"]))
            req["fuel"] = case["j"]
        elif case["kind"] == "fsize":
            # the kernel's own EFBIG is the fault of the plan
            for i, c in enumerate(obs["calls"]):
                if c.get("res") == "EFBIG":
                    req["fault"] = dict(at=i, errno=_errno.EFBIG)
                    break
        elif case["kind"] == "strace" and case.get("inject"):
            sysc, action = case["inject"]
            idx = ({"chown": 3, "chmod": 4, "rename": 5} if self.chown_first() else
                   {"chmod": 3, "chown": 4, "rename": 5})[sysc] + len(ch)
            if action.startswith("error="):
                req["fault"] = dict(at=idx, errno=getattr(_errno, action.split("=")[1]))
            else:
                req["fuel"] = idx
        return [req]

    @staticmethod
    def _norm_call(c):
        p = c.get("path")
        if p is None:
            p = ",".join(c.get("paths", []))
        r = c.get("res")
        if r is not None and str(r).startswith("ok"):
            r = "ok"
        return [c["op"], p, r]

    def _detok(self, toks, case, sizes_by_off, stale_by_tok):
        """tokens of the model -> bytes"""
        out = b""
        for t in toks:
            if t == 0:
                out += self._old_bytes(case)
            elif t in stale_by_tok:
                out += stale_by_tok[t]
            else:
                off = 1000 if t > 1000 else 0
                who = "B" if off else "A"
                sizes = sizes_by_off[off]
                i = t - off - 1
                nb = self._new_bytes(case, who)
                s = sum(sizes[:i])
                out += nb[s:s + sizes[i]]
        return out

    def _same_file(self, got, want, case, sizes_by_off, stale_by_tok, what, loose=False):
        if want is None or got is None:
            if (want is None) != (got is None):
                return "%s: model %s, implementation %s" % (what, "absent" if want is None else "present",
                                                           "absent" if got is None else "present")
            return None
        wb = self._detok(want["c"], case, sizes_by_off, stale_by_tok)
        if loose:
            # after a failed write/close: model content must be a prefix of the real one
            if got["len"] < len(wb):
                return "%s: implementation kept %d bytes, model %d" % (what, got["len"], len(wb))
        elif got["len"] != len(wb) or got["sha"] != G.sha(wb):
            return "%s: content differs (implementation %d bytes, model %d bytes %r)" % (what, got["len"], len(wb), want["c"][:8])
        if _mode(got["mode"]) != want["mode"]:
            return "%s: mode implementation %s model %04o" % (what, got["mode"], want["mode"])
        if got["gid"] != want["gid"]:
            return "%s: gid implementation %s model %s" % (what, got["gid"], want["gid"])
        return None

    @staticmethod
    def _out_name(o):
        if o.startswith("raised:"):
            n = int(o.split(":")[1])
            return "raised:" + _errno.errorcode.get(n, str(n))
        return o

    def _cmp_trace(self, real_calls, model_trace, fault_at=None, allow_killed_tail=False):
        real = [self._norm_call(c) for c in real_calls]
        model = [[t[0], t[1], t[2]] for t in model_trace]
        model = [[o, p, (None if r == "pending" else ("ok" if r == "ok" else _errno.errorcode.get(int(r), r)))]
                 for o, p, r in model]
        if fault_at is not None and fault_at < len(real) and real[fault_at][0] in ("open", "write", "close"):
            # after a failed open/write/close the with-block may issue further write/close calls on the temp file
            extra = real[len(model):]
            tmp = real[fault_at][1]
            if any(e[0] not in ("write", "close") or e[1] != tmp for e in extra):
                return "calls after the failed %s touch more than the temp file: %r" % (real[fault_at][0], extra[:4])
            real = real[:len(model)]
        if allow_killed_tail and real and real[-1][2] == "killed":
            real[-1][2] = None
        if real != model:
            for i, (a, b) in enumerate(zip(real, model)):
                if a != b:
                    return "call %d: implementation %r, model %r" % (i, a, b)
            return "call sequence length: implementation %d %r, model %d %r" % (len(real), real[-2:], len(model), model[-2:])
        return None

    def compare(self, case, obs, resps):
        if case["kind"] == "audit":
            if obs["new"] or obs["gone"]:
                return ("the set of call sites that write/rename/remove files by name differs from the audited baseline: "
                        "new %r; gone %r" % (obs["new"][:4], obs["gone"][:4]))
            return None
        r = resps[0]
        e = obs["env"]
        if case["kind"] == "sched":
            sizes = {off: self._chunks(obs[X]["calls"], len(self._new_bytes(case, X)), "%s.tmp.%d" % (tname(case), obs[X]["pid"]))
                     for X, off in (("A", 0), ("B", 1000))}
            stale = {}
            if case.get("stale"):
                stale[900] = G.content("staleA", case["stale"]["size"]).encode()
            if case.get("stale_b"):
                stale[1900] = G.content("staleB", case["stale_b"]["size"]).encode()
            if len(r["snaps"]) != len(obs["snaps"]):
                return "snapshot count %d vs model %d" % (len(obs["snaps"]), len(r["snaps"]))
            for i, (g, w) in enumerate(zip(obs["snaps"], r["snaps"])):
                d = self._same_file(g, w, case, sizes, stale, "target after %d steps" % i)
                if d:
                    return d
            for X in "AB":
                d = self._cmp_trace(obs[X]["calls"], r[X]["trace"])
                if d:
                    return "writer %s: %s" % (X, d)
                want = self._out_name(r[X]["out"])
                got = obs[X]["fin"] or "running"
                if want != got:
                    return "writer %s outcome: implementation %s, model %s" % (X, got, want)
                d = self._same_file(obs["files"].get(r[X]["tmpname"]), r[X]["tmp"], case, sizes, stale, "temp file of " + X)
                if d:
                    return d
            return None
        sizes = {0: self._chunks(obs["calls"], len(self._new_bytes(case)), "%s.tmp.%d" % (tname(case), obs["pid"]))}
        stale = {}
        if case.get("stale"):
            stale[900] = G.content("staleA", case["stale"]["size"]).encode()
        fault_at = case["k"] if case["kind"] in ("fault", "faultcrash") else None
        if case["kind"] == "fsize":
            fault_at = next((i for i, c in enumerate(obs["calls"]) if c.get("res") == "EFBIG"), None)
        failed_io = (fault_at is not None and fault_at < len(obs["calls"])
                     and obs["calls"][fault_at]["op"] in ("write", "close", "open"))
        strace_kill = case["kind"] == "strace" and case.get("inject") and case["inject"][1].startswith("signal")
        calls = obs["calls"]
        if case.get("via") == "ipyconfig":
            # the installer looks for the legacy startup file afterwards (os.stat of another path): not part of the replacement
            calls = [c for c in calls if not (c["op"] in ("stat", "lstat", "access")
                                              and not any(q.startswith(tname(case)) for q in c.get("paths", [])))]
        if case["kind"] == "strace":
            calls = [c for c in calls if not (c["op"] == "stat" and c is calls[0])]
        d = self._cmp_trace(calls, r["trace"], fault_at, allow_killed_tail=strace_kill)
        if d:
            return d
        want = self._out_name(r["out"])
        got = obs["fin"] or "running"
        if got == "killed":
            got = "running"
        if case.get("via") == "cmdline" and got.startswith("raised") and want.startswith("raised"):
            got = want          # the command line reports every error as SystemExit
        if (case.get("via") == "ipyconfig" and got == "running" and want == "returned" and obs["calls"]
                and obs["calls"][-1] not in calls and obs["calls"][-1].get("res") is None):
            got = want          # died in the installer's epilogue (legacy startup file lookup), after the replacement
        if case["kind"] == "faultcrash" and failed_io and got == "running" and want.startswith("raised"):
            got = want          # died among the flush/close calls CPython issues while the error propagates
        if want != got:
            return "outcome: implementation %s, model %s" % (got, want)
        d = self._same_file(obs["files"].get(tname(case)), r["target"], case, sizes, stale, "target")
        if d:
            return d
        # the observer's view after every call = the model's target after the same number of steps
        for i, c in enumerate(obs["calls"]):
            if "snap" in c and i + 1 < len(r.get("tsnaps", [])):
                d = self._same_file(c["snap"], r["tsnaps"][i + 1], case, sizes, stale, "target as observed after call %d" % i)
                if d:
                    return d
        loose = failed_io
        return self._same_file(obs["files"].get(r["tmpname"]), r["tmp"], case, sizes, stale, "temp file", loose=loose)

    # ------------------------------------------------------------- reporting
    def nontrivial_key(self, case, obs):
        if case["kind"] == "audit":
            return "audit"
        if case["kind"] == "sched":
            if obs["A"]["calls"] and obs["B"]["calls"]:
                return repr(sorted((k, str(v)) for k, v in case.items() if not k.startswith("_")))
            return None
        if not obs["calls"]:
            return None
        return repr(sorted((k, str(v)) for k, v in case.items() if not k.startswith("_")))

    def sample_repr(self, case, obs):
        c = {k: v for k, v in case.items() if not k.startswith("_")}
        if case["kind"] == "audit":
            return dict(case=c, sites=obs["sites"], new=obs["new"], gone=obs["gone"])
        if case["kind"] == "sched":
            return dict(case=c, final=obs["files"].get(tname(case)), finA=obs["A"]["fin"], finB=obs["B"]["fin"])
        return dict(case=c, calls=[self._norm_call(x) for x in obs["calls"]][:12], fin=obs["fin"], exit=obs["exit"],
                    target=obs["files"].get(tname(case)))

    def stats(self, case, obs, acc):
        def inc(k):
            acc[k] = acc.get(k, 0) + 1
        inc("kind_" + case["kind"])
        if case["kind"] == "audit":
            acc["write_sites_audited"] = obs["sites"]
            return
        if case.get("layout"):
            inc("ipyconfig_" + case["layout"])
        if case.get("pre") or case.get("chmod_to"):
            inc("seq_%s_then_chmod" % (case.get("pre") or "cli"))
        inc("via_" + str(case.get("via")))
        if case.get("name_len"):
            inc("long_name_%d" % case["name_len"])
        inc("src_" + case.get("_src", "?"))
        if case["kind"] == "sched":
            inc("sched_len_%d" % (len(case["sched"]) // 5 * 5))
            return
        inc("old_" + ("absent" if case.get("old") is None else "%d/%s" % (case["old"]["size"], case["old"]["mode"])))
        inc("new_size_%s" % case.get("new_size"))
        if case.get("cap"):
            inc("short_writes")
        if (case.get("old") or {}).get("mode") in SMODES or case.get("chmod_to") in SMODES:
            inc("sugid_or_sticky_mode")
        if case.get("errno") == "ENOENT":
            inc("errno_ENOENT")
        if case.get("stale"):
            inc("stale_temp")
        k = case.get("k")
        if case["kind"] == "faultcrash" and case["j"] < len(obs["calls"]):
            inc("faultcrash_dies_at_%s" % obs["calls"][case["j"]]["op"])
        if k is not None and k < len(obs["calls"]):
            inc("%s_at_%s" % (case["kind"], obs["calls"][k]["op"]))
        elif k is not None:
            inc("%s_none(ran to completion)" % case["kind"])
        inc("outcome_" + str(obs["fin"]))


PROP = C08()
