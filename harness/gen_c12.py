"""
gen_c12 — generator of database worlds for C12 (import database: composition, forgetting, cache).

A *world* is an abstract directory tree rooted at "/" (materialised by the check under a
temp dir), with database files whose contents are given twice: abstractly (`stmts`, the
parsed meaning: known / mandatory / canonical / forget imports in file order) and as the
rendered text (`text`, the thing pyflyby reads).  The renderer chooses between equivalent
spellings (`import a.b as c` / `from a import b as c`, bare dotted identifiers inside the
directive lists, several names per statement, comments and blank lines).

Every random choice comes from the `rng` passed in.

JSON shape of a node:  dir  {"dev": n, "ch": [[name, node], ...]}   (children sorted by name)
                       file {"text": str, "stmts": [stmt, ...], "syn": bool}
stmt: {"k": [[fullname, import_as], ...]} | {"m": [...]} | {"f": [...]} | {"c": [[key, value], ...]} | {"bad": 1}
"""
from __future__ import annotations

import re

# ---------------------------------------------------------------------------------------------
# imports pool (abstract: [fullname, import_as])
# ---------------------------------------------------------------------------------------------
KNOWN_POOL = [
    ["os", "os"], ["xml.dom.minidom", "xml.dom.minidom"], ["xml.dom", "xml.dom"], ["xml", "xml"],
    ["p.m.f", "f"], ["p.m.g", "g"], ["p.m.f", "ff"], ["p.m", "m"], ["p.m", "p.m"], ["p", "p"],
    ["p.m.n.h", "h"], ["p.m.n", "p.m.n"], ["q.r", "r"], ["q.r", "q.r"], ["q", "q"], ["q", "p"],
    ["numpy", "np"], ["q.r.f", "f"], ["xml.dom.minidom.parse", "parse"], ["p.m.n.h", "g"],
]
RARE_POOL = [["p.*", "*"], [".rel.x", "x"], ["..up", "up"], ["q.r.*", "*"]]
MAND_POOL = [["__future__.division", "division"], ["__future__.annotations", "annotations"],
             ["os", "os"], ["p.m.f", "f"], ["q.r", "r"], ["p.m", "p.m"], ["numpy", "np"]]
STAR_FORGET = [["p.*", "*"], ["p.m.*", "*"], ["q.*", "*"], ["xml.*", "*"], ["xml.dom.*", "*"], ["os.*", "*"], ["old.*", "*"]]
CANON_NAMES = ["p.m.f", "q.r", "old.name", "new.name", "p.m", "os.path.join", "q.r.f", "numpy", "np2", "xml.dom", "os", "p.m.g"]


def _pick(rng, pool, lo, hi):
    n = rng.randint(lo, hi)
    return [list(rng.choice(pool)) for _ in range(n)]


def dotted_parents(fullname):
    parts = fullname.split(".")
    return [".".join(parts[:i]) for i in range(1, len(parts))]


def d15_prone(imp):
    """`import K` where K is a proper dotted prefix of some pool fullname: forgetting it is the known finding D15."""
    fn, ia = imp
    return fn == ia and any(k[0].startswith(fn + ".") for k in KNOWN_POOL + MAND_POOL)


_EXACT_POOL = [i for i in KNOWN_POOL + MAND_POOL if not d15_prone(i)]


def gen_forget(rng):
    out = []
    for _ in range(rng.randint(1, 3)):
        r = rng.random()
        if r < 0.50:
            out.append(list(rng.choice(_EXACT_POOL)))
        elif r < 0.66:
            out.append(list(rng.choice(STAR_FORGET)))
        elif r < 0.68:
            # a (possibly derived) parent-package entry: D15 territory, kept at a low rate
            fn = rng.choice(KNOWN_POOL)[0]
            ps = dotted_parents(fn)
            if ps:
                p = rng.choice(ps)
                out.append([p, p])
            else:
                out.append([fn, fn])
        elif r < 0.90:
            # the Import a canonical key/value stands for: Import("a.b") == from a import b
            # … or, for a dotted name, `import a.b` (C12-4: the canonical map must lose the entry for both spellings)
            n = rng.choice(CANON_NAMES)
            imp = [n, n.split(".")[-1]]
            if "." in n and rng.random() < 0.4:
                imp = [n, n]
            out.append(imp if not d15_prone(imp) else list(rng.choice(_EXACT_POOL)))
        else:
            out.append(list(rng.choice(RARE_POOL)))
    return out


def gen_stmts(rng, rich=False):
    stmts = []
    n = rng.choice([0, 1, 1, 2, 2, 3, 4, 5]) if not rich else rng.randint(2, 6)
    for _ in range(n):
        r = rng.random()
        if r < 0.45:
            imps = _pick(rng, KNOWN_POOL, 1, 3)
            if rng.random() < 0.06:
                imps.append(list(rng.choice(RARE_POOL)))
            stmts.append({"k": imps})
        elif r < 0.58:
            stmts.append({"m": _pick(rng, MAND_POOL, 0 if rng.random() < 0.05 else 1, 2)})
        elif r < 0.74:
            pairs = []
            for _ in range(rng.randint(1, 2)):
                pairs.append([rng.choice(CANON_NAMES), rng.choice(CANON_NAMES)])
            stmts.append({"c": pairs})
        else:
            stmts.append({"f": gen_forget(rng) if rng.random() >= 0.04 else []})
    return stmts


# ---------------------------------------------------------------------------------------------
# rendering
# ---------------------------------------------------------------------------------------------
def render_import(rng, imp, allow_ident=False):
    """One abstract import as a statement string (or a bare dotted identifier when allowed)."""
    fn, ia = imp
    if ia == "*":
        return "from %s import *" % fn[:-2]
    if fn.startswith("."):
        lvl = len(fn) - len(fn.lstrip("."))
        rest = fn[lvl:]
        if "." in rest:
            mod, mem = rest.rsplit(".", 1)
        else:
            mod, mem = "", rest
        s = "from %s%s import %s" % ("." * lvl, mod, mem)
        return s if ia == mem else s + " as " + ia
    if fn == ia:
        if allow_ident and "." not in fn and rng.random() < 0.5:
            return fn                       # Import("a") == import a
        return "import " + fn
    if "." not in fn:
        return "import %s as %s" % (fn, ia)
    mod, mem = fn.rsplit(".", 1)
    if ia == mem:
        if allow_ident and rng.random() < 0.4:
            return fn                       # Import("a.b") == from a import b
        return rng.choice(["from %s import %s", "from  %s  import  %s"]) % (mod, mem)
    return rng.choice(["from %s import %s as %s" % (mod, mem, ia), "import %s as %s" % (fn, ia)])


def render_known(rng, imps):
    """Statements for a list of known imports; merges neighbours into multi-name statements."""
    lines = []
    i = 0
    while i < len(imps):
        a = imps[i]
        if i + 1 < len(imps) and rng.random() < 0.5:
            b = imps[i + 1]
            sa, sb = render_import(rng, a), render_import(rng, b)
            if sa.startswith("import ") and sb.startswith("import "):
                lines.append(sa + ", " + sb[len("import "):])
                i += 2
                continue
            if (sa.startswith("from ") and sb.startswith("from ") and "*" not in sa + sb
                    and sa.split(" import ")[0].split() == sb.split(" import ")[0].split()):
                lines.append(sa + ", " + sb.split(" import ", 1)[1].strip())
                i += 2
                continue
            lines.append(sa)
            i += 1
            continue
        lines.append(render_import(rng, a))
        i += 1
    lines = [widen(rng, ln) if rng.random() < WIDEN_RATE else ln for ln in lines]
    if len(lines) >= 2 and rng.random() < 0.08:
        j = rng.randrange(len(lines) - 1)
        lines[j:j + 2] = [lines[j] + rng.choice(["; ", " ;  "]) + lines[j + 1]]
    return lines


_IDENT = re.compile(r"[A-Za-z_][A-Za-z0-9_]*")
_KEYWORDS = ("import", "from", "as")


def widen(rng, text):
    """Another spelling of the same import: one identifier of `text` written with FULLWIDTH LATIN letters.
    Python's parser normalises identifiers to NFKC, so `from p.m import ｆ` binds (and imports) `f`; the
    abstract import (the ground truth) keeps the ASCII spelling."""
    toks = [m for m in _IDENT.finditer(text) if m.group(0) not in _KEYWORDS and re.search("[a-z]", m.group(0))]
    if not toks:
        return text
    m = rng.choice(toks)
    w = m.group(0)
    if rng.random() < 0.5:
        i = rng.choice([j for j, c in enumerate(w) if "a" <= c <= "z"])
        w2 = w[:i] + chr(0xFF41 + ord(w[i]) - 97) + w[i + 1:]
    else:
        w2 = "".join(chr(0xFF41 + ord(c) - 97) if "a" <= c <= "z" else c for c in w)
    return text[:m.start()] + w2 + text[m.end():]


WIDEN_RATE = 0.03


def render_items(rng, imps):
    """The string items of a directive list for a list of abstract imports.  One item may name several imports
    (`from a import b, c`, `import a; import b`, statements on several lines with a comment between them), may carry
    leading blanks / a trailing comment / a final newline, and empty strings may stand between the items."""
    items = []
    i = 0
    while i < len(imps):
        a = render_import(rng, imps[i], allow_ident=True)
        if i + 1 < len(imps) and rng.random() < 0.35:
            sa = a if " " in a else render_import(rng, imps[i])
            sb = render_import(rng, imps[i + 1])
            if (sa.startswith("from ") and sb.startswith("from ") and "*" not in sa + sb
                    and sa.split(" import ")[0].split() == sb.split(" import ")[0].split() and rng.random() < 0.6):
                items.append(sa + ", " + sb.split(" import ", 1)[1].strip())
            elif sa.startswith("import ") and sb.startswith("import ") and rng.random() < 0.4:
                items.append(sa + ", " + sb[len("import "):])
            else:
                items.append(sa + rng.choice(["; ", "\n", "\n# and\n", "\n\n", " ;  "]) + sb)
            i += 2
            continue
        if " " in a and rng.random() < 0.12:
            a = rng.choice(["  %s", "%s  # why", "\n%s\n", "%s\n", "%s ;"]) % a
        items.append(a)
        i += 1
    if rng.random() < 0.05:
        items.insert(rng.randint(0, len(items)), rng.choice(["", "# nothing", "\n"]))
    return [widen(rng, it) if rng.random() < WIDEN_RATE else it for it in items]


def render_list(rng, name, imps):
    items = render_items(rng, imps)
    if not items:
        return "%s = %s" % (name, rng.choice(["[]", "()", "''", "['']"]))
    if len(items) == 1 and rng.random() < 0.3:
        return "%s = %r" % (name, items[0])
    if len(items) >= 2 and rng.random() < 0.3:
        return "%s = [\n%s]" % (name, "".join("    %r,\n" % it for it in items))
    if rng.random() < 0.2:
        return "%s = (%s,)" % (name, ", ".join(repr(it) for it in items))
    return "%s = [%s]" % (name, ", ".join(repr(it) for it in items))


# statements a database file must not contain: each of them makes the load fail with a ValueError
BAD_LINES = ["x = 3", "__mandatory_imports__ = [3]", "__canonical_imports__ = ['a']", "__forget_imports__ = {'a': 'b'}",
             "__all__ = []", "__canonical_imports__ = 'a.b'", "__canonical_imports__ = {1: 'a.b'}",
             "__canonical_imports__ = {'a.b': 1}", "__canonical_imports__ = {'a.b': None}", "__forget_imports__ = [['import os']]",
             "__forget_imports__ = None", "__forget_imports__ += ['import os']", "__mandatory_imports__ = ['import os'] + []",
             "x: int = 3", "__forget_imports__: list = ['import os']", "__forget_imports__ = __mandatory_imports__ = ['import os']",
             "if 1:\n  import os", "try:\n  import os\nexcept ImportError:\n  pass", '"""a docstring"""', "pass",
             "__mandatory_imports__ = ['import os', 3]", "__forget_imports__ = 3"]


def render_file(rng, stmts, syn=False):
    lines = []
    for st in stmts:
        if rng.random() < 0.2:
            lines.append(rng.choice(["", "# a comment", "   ", "# import commented.out"]))
        if "k" in st:
            lines.extend(render_known(rng, st["k"]))
        elif "m" in st:
            lines.append(render_list(rng, "__mandatory_imports__", st["m"]))
        elif "f" in st:
            lines.append(render_list(rng, "__forget_imports__", st["f"]))
        elif "c" in st:
            lines.append("__canonical_imports__ = {%s}" % ", ".join("%r: %r" % (k, v) for k, v in st["c"]))
        elif "bad" in st:
            lines.append(rng.choice(BAD_LINES))
    if syn:
        lines.insert(rng.randint(0, len(lines)), "def (:")
    text = "\n".join(lines)
    if lines and rng.random() < 0.9:
        text += "\n"
    return text


def mkfile(rng, stmts=None, poison=None, rich=False, allow_bad=True):
    syn = False
    if poison is not None:
        stmts = [{"k": [["POISON%d" % poison, "POISON%d" % poison]]}]
    elif stmts is None:
        stmts = gen_stmts(rng, rich=rich)
        if allow_bad and rng.random() < 0.02:
            stmts.insert(rng.randint(0, len(stmts)), {"bad": 1})
        if allow_bad and rng.random() < 0.01:
            syn = True
    return {"text": render_file(rng, stmts, syn), "stmts": stmts, "syn": syn}


# ---------------------------------------------------------------------------------------------
# trees
# ---------------------------------------------------------------------------------------------


class _Ctr:
    def __init__(self):
        self.n = 0

    def next(self):
        self.n += 1
        return self.n


# directory names: the name of an intermediate directory must not matter (dots, several "extensions",
# names ending in .py, upper case, digits) — only hidden names and __pycache__ are not descended into
SUBDIR_NAMES = ["sub", "nested", "A", "conf.d", "py3.12", "v1.2", "known.imports", "x.py.bak", "pkg.py", "a.b",
                "UP.D", "site-packages", "d.py", "lib.pyc", "t.txt", "local"]
# regular files that must be read (…*.py, whatever comes before) / must not be read
PY_NAMES = ["a.py", "b.py", "z.py", "m.n.py", "UPPER.py", "_u.py", "10.py", "9.py", "c.py", "a.b.py", "c.d.e.py",
            "py.py", "x.bak.py", "__pycache__.py", "forget.py"]
NONPY_NAMES = ["notes.txt", "py", "x.pyc", "y.py~", "x.py.bak", "noext", "setup.cfg", "a.py.orig", "README", "b.PY", "c.pyi",
               "a b.py", "~t.py", "ü.py", ".hidden.py", ".a.py"]
STORE = "/store"


def gen_store(rng, dev, ctr, allow_bad):
    """Targets of the symbolic links: one file, one directory with a dotted sub-directory."""
    pkg = {"dev": dev, "ch": [
        ["a.py", mkfile(rng, allow_bad=allow_bad)],
        ["notes.txt", mkfile(rng, poison=ctr.next())],
        ["v1.2", {"dev": dev, "ch": [["sub", {"dev": dev, "ch": [["deep.py", mkfile(rng, allow_bad=allow_bad)]]}]]}],
    ]}
    return {"dev": dev, "ch": [["pkg", pkg], ["real.py", mkfile(rng, rich=True, allow_bad=allow_bad)],
                               ["real.txt", mkfile(rng, poison=ctr.next())]]}


def _link(store, target):
    """A symbolic link to STORE/<target>: for the model and the oracle a copy of the target node."""
    import copy
    node = store
    for c in target.split("/"):
        node = dict(node["ch"])[c]
    node = copy.deepcopy(node)
    node["ln"] = STORE + "/" + target
    return node


def gen_dbdir(rng, dev, ctr, depth=0, allow_bad=True, store=None):
    ch = {}
    for nm in rng.sample(PY_NAMES, rng.randint(0 if depth else 1, 3)):
        ch[nm] = mkfile(rng, allow_bad=allow_bad)
    for nm in NONPY_NAMES:
        if rng.random() < 0.08:
            ch[nm] = mkfile(rng, poison=ctr.next())
    opts = [
        (".hid", lambda: {"dev": dev, "ch": [["x.py", mkfile(rng, poison=ctr.next())]]}),
        (".conf.d", lambda: {"dev": dev, "ch": [["x.py", mkfile(rng, poison=ctr.next())]]}),
        ("__pycache__", lambda: {"dev": dev, "ch": [["c.py", mkfile(rng, poison=ctr.next())]]}),
        ("empty", lambda: {"dev": dev, "ch": []}),
        ("empty.d", lambda: {"dev": dev, "ch": []}),
        ("a b", lambda: {"dev": dev, "ch": [["x.py", mkfile(rng, poison=ctr.next())]]}),
    ]
    for nm, mk in opts:
        if rng.random() < 0.08:
            ch[nm] = mk()
    if store is not None:
        links = [("ln.py", "real.py"), ("lnk", "real.py"), ("ln.txt", "real.py"), ("lnd", "pkg"), ("ln.d", "pkg"),
                 ("lnd.py", "pkg"), (".lnd", "pkg"), ("lnt.py", "real.txt"), ("deep.lnk", "pkg/v1.2")]
        for nm, tgt in links:
            if rng.random() < 0.05:
                ch[nm] = _link(store, tgt)
        if rng.random() < 0.04:
            ch["broken.py"] = {"ln": "/nowhere/gone.py", "broken": True, "text": "", "stmts": [], "syn": False}
    # sub-directories: up to depth 4, mostly with a dot somewhere in the name
    if depth < 4:
        n = rng.choice([0, 1, 1, 2] if depth < 2 else [0, 0, 1])
        for nm in rng.sample(SUBDIR_NAMES, n):
            ch[nm] = gen_dbdir(rng, dev, ctr, depth + 1, allow_bad, store)
    return {"dev": dev, "ch": [[k, ch[k]] for k in sorted(ch)]}


SKELETON = ["proj", "proj/sub", "proj/sub/deep", "home", "home/u", "mnt", "mnt/x", "etc", "etc/pyflyby", "proj/db"]
DB_SPOTS = ["", "proj", "proj/sub", "proj/sub/deep", "home/u", "mnt", "mnt/x"]


def _get(root, path):
    node = root
    for c in [c for c in path.split("/") if c]:
        for nm, ch in node["ch"]:
            if nm == c:
                node = ch
                break
        else:
            return None
    return node


def _put(root, path, name, node):
    d = _get(root, path)
    d["ch"] = sorted([[n, c] for n, c in d["ch"] if n != name] + [[name, node]], key=lambda nc: nc[0])


def gen_tree(rng, allow_bad=True):
    ctr = _Ctr()
    root = {"dev": 0, "ch": []}
    nextdev = [3]
    for p in SKELETON:
        parent, _, nm = p.rpartition("/")
        pdev = _get(root, parent)["dev"]
        dev = pdev
        if rng.random() < 0.2:
            # a mount point; the device may be one already seen higher up (bind mount)
            dev = rng.choice([0, 1, 2, nextdev[0]])
            nextdev[0] += 1
        _put(root, parent, nm, {"dev": dev, "ch": []})
    if rng.random() < 0.15:
        _put(root, "proj", "a b", {"dev": _get(root, "proj")["dev"], "ch": []})
    # targets of symbolic links (half of the worlds have links)
    store = None
    if rng.random() < 0.5:
        store = gen_store(rng, 0, ctr, allow_bad)
        _put(root, "", "store", store)
    # search-path material
    for spot in DB_SPOTS:
        d = _get(root, spot)
        for nm, prob in ((".pyflyby", 0.55), (".cfg", 0.2)):
            if rng.random() < prob:
                if rng.random() < 0.5:
                    _put(root, spot, nm, mkfile(rng, rich=rng.random() < 0.5, allow_bad=allow_bad))
                else:
                    _put(root, spot, nm, gen_dbdir(rng, d["dev"], ctr, allow_bad=allow_bad, store=store))
    _put(root, "proj", "db", gen_dbdir(rng, _get(root, "proj/db")["dev"], ctr, allow_bad=allow_bad, store=store))
    if rng.random() < 0.7:
        _put(root, "etc", "pyflyby", gen_dbdir(rng, _get(root, "etc/pyflyby")["dev"], ctr, allow_bad=allow_bad, store=store))
    if rng.random() < 0.3:
        _put(root, "proj", "rel", gen_dbdir(rng, _get(root, "proj")["dev"], ctr, allow_bad=allow_bad, store=store))
    # a few ordinary files that must never be read
    _put(root, "proj/sub", "x.py", mkfile(rng, poison=ctr.next()))
    if rng.random() < 0.5:
        _put(root, "proj", "x.py", mkfile(rng, poison=ctr.next()))
    return root


TARGETS = ["/proj/sub/deep/t.py", "/proj/sub/deep", "/proj/sub/x.py", "/proj/x.py", "/proj/sub/nope/n2/x.py",
           "/mnt/x/t.py", "/home/u/t.py", "/", "/dev/null", "/proj/a b/t.py", "/proj/sub/deep/",
           "/proj/.pyflyby/a.py", "/proj/sub/../x.py", "/proj/db", "/mnt/t.py", "/proj/sub/x.py/under",
           "/home/u", "/proj/sub/./deep//t.py", "/devel/x.py", "/proj/sub/ü/t.py", "/proj/dev/t.py", "/dev/stdin",
           "/proj/a b", "/proj/sub/deep/dev/null", "/dev-tools/t.py"]

PP_VALUES = [None, None, "", "-", "EMPTY", "/proj/db", "/proj/db:-", "-:/proj/db", ".../.pyflyby", ".../.cfg:~/.pyflyby",
             "./rel", "~/.pyflyby", "/proj/db/a.py", "/nonexistent", "bad", "-:-", "/proj/db:/proj/db", "EMPTY:/proj/db",
             "/proj/db/", "/proj/./sub/../db", "/pro j", ".../.pyflyby:/proj/db/sub", "/proj/db/sub:/proj/db",
             ".../.pyflyby/a.py", ".../.cfg", "/proj/db/.hidden.py:/proj/db/notes.txt", "/proj/db/.hid", ":/proj/db::",
             ".../.pyf lyby:.../.pyflyby", "~/.pyflyby:.../.pyflyby", "/etc/pyflyby:-", ".../sub/../.pyflyby", "/proj/db/d.py",
             "~", "~u/.pyflyby", "./", "/proj/db/__pycache__", ".../.pyflyby:.../.pyflyby", "/mnt/.pyflyby:/.pyflyby"]
OLD_VALUES = [None, None, None, None, "/proj/db", "-", ""]


def gen_query(rng, targets, pps):
    return {"t": rng.choice(targets), "env": [rng.choice(pps), rng.choice(OLD_VALUES), rng.choice(OLD_VALUES)]}


UNSAFE_DIR = "/proj/a b"           # a directory pyflyby's Filename refuses (blank in the name)

# Other ways of naming a target (harness/c12.py `call_target`):
#   None                 get_default(None): the current directory
#   "FN:" + path         a pyflyby Filename object instead of a str
#   "IA:" + target       through ImportDB.interpret_arg(None, target), the entry point of tidy-imports & co.
#   a relative path      resolved against the current directory
REL_TARGETS = ["t.py", "sub/t.py", ".", "./", "", "sub/../x.py", "./sub/deep/t.py", "nope/t.py", "dev/null", "x.py", ".pyflyby",
               "a b/t.py", "db/a.py"]
REL_UP_TARGETS = ["../t.py", "..", "../sub/t.py"]           # only when the current directory is not "/"


def gen_target_forms(rng, targets, cwd):
    """Replace some of the chosen targets by another form of naming a target."""
    out = []
    for t in targets:
        r = rng.random()
        if r < 0.08:
            out.append(None)
        elif r < 0.20:
            out.append(rng.choice(REL_TARGETS + (REL_UP_TARGETS if cwd != "/" else [])))
        elif r < 0.30 and re.match(r"^[a-zA-Z0-9_=+{}/.,~@-]*$", t):
            out.append("FN:" + t)
        elif r < 0.38:
            out.append("IA:" + t)
        else:
            out.append(t)
    # distinct, order kept
    seen, uniq = set(), []
    for t in out:
        if t not in seen:
            seen.add(t)
            uniq.append(t)
    return uniq


def gen_world(rng, n_hist=6, allow_bad=True):
    tree = gen_tree(rng, allow_bad=allow_bad)
    cwd = rng.choice(["/proj", "/proj", "/proj/sub", "/", "/home/u"])
    home = rng.choice(["/home/u", "/home/u", "/home/u", "/home/nobody", "/mnt/x"])
    etc = rng.choice([["/etc/pyflyby"], ["/etc/pyflyby"], [], ["/etc/pyflyby", "/proj/db/sub"]])
    targets = rng.sample(TARGETS, rng.randint(2, 4))
    if rng.random() < 0.10:
        # the process runs in (or the user's home is) a directory whose name pyflyby refuses: `./x` and `~/x` entries cannot
        # be represented, a /dev... target (stdin) cannot fall back to the current directory
        if _get(tree, UNSAFE_DIR) is None:
            _put(tree, "proj", "a b", {"dev": _get(tree, "proj")["dev"], "ch": []})
        if rng.random() < 0.75:
            cwd = UNSAFE_DIR
            if rng.random() < 0.6 and "/dev/null" not in targets:
                targets[rng.randrange(len(targets))] = rng.choice(["/dev/null", "/dev/stdin", "/devel/x.py"])
        else:
            home = UNSAFE_DIR
    targets = gen_target_forms(rng, targets, cwd)
    pps = rng.sample(PP_VALUES, rng.randint(2, 4))
    hist = []
    for _ in range(n_hist):
        n = rng.choice([1, 2, 2, 3, 3, 4, 4])
        h = []
        for _ in range(n):
            if h and rng.random() < 0.25:
                q = dict(rng.choice(h))                      # repeat an earlier query
            elif h and rng.random() < 0.3:
                q = dict(h[-1])
                q["t"] = rng.choice(targets)                 # same env, other target
            elif h and rng.random() < 0.3:
                q = dict(h[-1])
                q["env"] = [rng.choice(pps), q["env"][1], q["env"][2]]   # same target, other PYFLYBY_PATH
            else:
                q = gen_query(rng, targets, pps)
            h.append(q)
        hist.append(h)
    # one world in eight is materialised below /dev/shm (if the machine has one): every absolute target then starts
    # with the four characters "/dev" without being a device (C12-2)
    shm = rng.random() < 0.125
    return {"tree": tree, "home": home, "cwd": cwd, "etc": etc, "histories": hist, "shm": shm}
