"""C04 — tidy-imports leaves nothing fixable behind and never guesses."""
from __future__ import annotations

import ast
import re
import shutil
import tempfile

from vcommon import Prop
import rewriters as R
import gen_exec as G

UNIQUE_POOL = [("import pa", "pa", "mod:pa"), ("import pb", "pb", "mod:pb"), ("from pa import K", "K", "int"),
               ("from pc.sub.deep import d", "d", "fn"), ("from pa.s1 import h", "h", "fn"), ("from pa import C", "C", "cls"),
               ("import pd", "pd", "mod:pd"), ("from pa.s2 import W", "W", "int"), ("import pa.s1 as z1", "z1", "mod:pa.s1"),
               ("from pb import q", "q", "fn")]
AMBIG_POOL = [(["from pa import f", "from pb import f"], "f", "fn"), (["from pa import g", "from pa.s2 import g"], "g", "fn")]
DOTTED_POOL = ["import pa.s1", "import pc.sub.deep"]   # dotted entries are keyed 'pa.s1': never used by the lookup (D13, stated)
UNKNOWN = [("zzq", "fn"), ("yy", "mod:pa")]


class _Dummy:
    """stands in for a name nobody can import, so that the run can go on to the next NameError"""
    def __init__(self, name):
        self._n = name
    def __call__(self, *a, **k):
        return self
    def __getattr__(self, k):
        if k.startswith("__"):
            raise AttributeError(k)
        return self
    def __add__(self, o):
        return self
    __radd__ = __add__
    def __iter__(self):
        return iter(())
    def __repr__(self):
        return "<dummy %s>" % self._n


def _names_loaded(text):
    """every identifier that is read anywhere, named in a literal __all__, or mentioned in a doctest"""
    tree = ast.parse(text if text.endswith("\n") else text + "\n")
    out = set()
    for n in ast.walk(tree):
        if isinstance(n, ast.Name) and isinstance(n.ctx, (ast.Load, ast.Del)):
            out.add(n.id)
        if isinstance(n, ast.Assign) and any(isinstance(t, ast.Name) and t.id == "__all__" for t in n.targets):
            try:
                out.update(ast.literal_eval(n.value))
            except Exception:
                pass
        if isinstance(n, ast.Constant) and isinstance(n.value, str) and ">>>" in n.value:
            for line in n.value.splitlines():
                if line.strip().startswith((">>>", "...")):
                    out.update(re.findall(r"[A-Za-z_][A-Za-z_0-9]*", line))
    return out


def _global_reads(text):
    """names read as module globals (or builtins) somewhere, by CPython's own scope analysis (`symtable`), plus the
    names listed in a literal __all__ and the identifiers of doctest lines"""
    import symtable
    src = text if text.endswith("\n") else text + "\n"
    out = set()

    def walk(t, top):
        kind = t.get_type()
        for sym in t.get_symbols():
            if not sym.is_referenced():
                continue
            if top:
                out.add(sym.get_name())
            elif str(kind).endswith("class") or kind == "class":
                if not sym.is_free():
                    out.add(sym.get_name())      # class bodies fall back to the global when the name is not yet bound
            elif sym.is_global():
                out.add(sym.get_name())
        for ch in t.get_children():
            walk(ch, False)
    walk(symtable.symtable(src, "<m>", "exec"), True)
    tree = ast.parse(src)
    for n in ast.walk(tree):
        if isinstance(n, (ast.ListComp, ast.SetComp, ast.DictComp, ast.GeneratorExp)):
            # CPython 3.12 inlines comprehensions and its symtable then loses their reads: take every load in a
            # comprehension that is not one of its own targets (over-inclusive, i.e. conservative)
            tg = {x.id for g in n.generators for x in ast.walk(g.target) if isinstance(x, ast.Name)}
            out.update(x.id for x in ast.walk(n) if isinstance(x, ast.Name) and isinstance(x.ctx, ast.Load) and x.id not in tg)
        if isinstance(n, ast.Name) and isinstance(n.ctx, ast.Del):
            out.add(n.id)
        # annotations count as reads even when `from __future__ import annotations` leaves them unevaluated
        anns = []
        if isinstance(n, ast.arg) and n.annotation is not None:
            anns.append(n.annotation)
        if isinstance(n, (ast.FunctionDef, ast.AsyncFunctionDef)) and n.returns is not None:
            anns.append(n.returns)
        if isinstance(n, ast.AnnAssign):
            anns.append(n.annotation)
        for a in anns:
            out.update(x.id for x in ast.walk(a) if isinstance(x, ast.Name))
        if isinstance(n, ast.Assign) and any(isinstance(t, ast.Name) and t.id == "__all__" for t in n.targets):
            try:
                out.update(ast.literal_eval(n.value))
            except Exception:
                pass
        if isinstance(n, ast.Constant) and isinstance(n.value, str) and ">>>" in n.value:
            for line in n.value.splitlines():
                if line.strip().startswith((">>>", "...")):
                    out.update(re.findall(r"[A-Za-z_][A-Za-z_0-9]*", line))
        if isinstance(n, ast.Constant) and isinstance(n.value, str) and not (">>>" in n.value):
            # string annotations / forward references
            if re.fullmatch(r"[A-Za-z_][A-Za-z_0-9.\[\], ]*", n.value):
                out.update(re.findall(r"[A-Za-z_][A-Za-z_0-9]*", n.value))
    return out


def _dead_top_imports(text):
    """top-level import aliases (line, bound name) that nothing can read once they have executed: no load/del of the name in
    any later top-level statement (at any depth), none in any def / lambda / generator-expression body anywhere in the
    module (those may run later), the name is not exported through a literal __all__, not mentioned in a doctest line or
    in an identifier-like string, and no scope declares it `global`.  Flow-aware only along the top-level statement
    order, which is exact for statements that are direct children of the module."""
    src = text if text.endswith("\n") else text + "\n"
    tree = ast.parse(src)
    deferred, soft = set(), set()
    for n in ast.walk(tree):
        if isinstance(n, (ast.FunctionDef, ast.AsyncFunctionDef, ast.Lambda, ast.GeneratorExp)):
            if isinstance(n, ast.GeneratorExp):
                parts = [n]
            else:
                parts = n.body if isinstance(n.body, list) else [n.body]
            for b in parts:
                deferred.update(x.id for x in ast.walk(b) if isinstance(x, ast.Name) and isinstance(x.ctx, (ast.Load, ast.Del)))
        if isinstance(n, (ast.Global, ast.Nonlocal)):
            soft.update(n.names)
        if isinstance(n, ast.Assign) and any(isinstance(t, ast.Name) and t.id == "__all__" for t in n.targets):
            try:
                soft.update(ast.literal_eval(n.value))
            except Exception:
                pass
        if isinstance(n, ast.AugAssign) and isinstance(n.target, ast.Name) and n.target.id == "__all__":
            try:
                soft.update(ast.literal_eval(n.value))
            except Exception:
                pass
        if isinstance(n, ast.Constant) and isinstance(n.value, str):
            soft.update(re.findall(r"[A-Za-z_][A-Za-z_0-9]*", n.value))
    soft.update(re.findall(r"[A-Za-z_][A-Za-z_0-9]*", " ".join(l.split("#", 1)[1] for l in src.splitlines() if "#" in l)))
    dead = []
    for idx, st in enumerate(tree.body):
        if not isinstance(st, (ast.Import, ast.ImportFrom)):
            continue
        if isinstance(st, ast.ImportFrom) and st.module == "__future__":
            continue
        later = set()
        for s2 in tree.body[idx + 1:]:
            later.update(x.id for x in ast.walk(s2) if isinstance(x, ast.Name) and isinstance(x.ctx, (ast.Load, ast.Del)))
        for a in st.names:
            if a.name == "*":
                continue
            bound = a.asname or a.name.split(".")[0]
            if bound in later or bound in deferred or bound in soft:
                continue
            dead.append((st.lineno, bound, a.name, a.asname, getattr(st, "module", None), getattr(st, "level", 0)))
    return dead


class C04(Prop):
    id = "C04"
    driver = "Blocks"
    lean_modules = ["Pfb.C04.Props", "Pfb.C04.NoUnusedLeft", "Pfb.C04.KeepsMissing", "Pfb.C04.NoUnusedLeftC", "Pfb.C04.AddStage"]
    theorems = [
        "Pfb.C04.C04_never_guesses",
        "Pfb.C04.C04_unique_added",
        "Pfb.C04.C04_ambiguous_not_added",
        "Pfb.C04.C04_placement",
        "Pfb.C04.C04_first_use_min",
        "Pfb.C04.addMissingLoop_spec",
        "Pfb.C04.addMandatoryLoop_spec",
        "Pfb.C04.removeAll_subset",
        # analysis side of "no never-read import remains" / second-pass fixed point of the remove stage (PyCore model of
        # find_unused_imports, tied to scan_for_import_issues by C05's correspondence op `unused`)
        "Pfb.C04.C04_no_unused_left_fragB",
        "Pfb.C04.witness_builtins_checker",
        "Pfb.C04.witness_same_line",
        "Pfb.C04.witness_registry_none",
        # removing the reported imports creates no new missing name, and (with C05's soundness / precision) a program that
        # ran without NameError still does after the remove stage
        "Pfb.C04.C04_removal_keeps_missing_fragB",
        "Pfb.C04.C04_tidy_remove_stage_safe_fragB",
        "Pfb.C04.keeps_missing_core",
        "Pfb.C04.witness_builtins_value",
        # fragment C (function bodies, deferred loads): the full statement is FALSE of model and code (listed finding D69 of C03:
        # decide-proved negation witness_deferred_names_fragC, replayed on the real tool); proved under `rebindOK`
        "Pfb.C04.C04_no_unused_left_fragC_partial",
        "Pfb.C04.C04_no_unused_left_fragC_noDeferredNames",
        "Pfb.C04.witness_deferred_names_fragC",
        "Pfb.C04.witness_unlocated_after_def",
        # the ADD half at run level: an import bound before the first read resolves the name in the reference run, and adds no new missing name
        "Pfb.C04.C04_add_resolves_fragB",
        "Pfb.C04.C04_add_resolves_by_line_fragB",
        "Pfb.C04.C04_add_stage_safe_fragB",
        "Pfb.C04.C04_add_stage_safe_by_line_fragB",
        "Pfb.C04.C04_add_keeps_others",
        "Pfb.C04.C04_add_keeps_other_heads",
        "Pfb.C04.C04_add_stage_no_new_fragB",
        "Pfb.C04.C04_add_import_binds",
        "Pfb.C04.witness_import_after_first_read",
        "Pfb.C04.witness_registry_none_entry",
    ]
    anchors = [
        ("lib/python/pyflyby/_imports2s.py", "fix_unused_and_missing_imports"),
        ("lib/python/pyflyby/_imports2s.py", "SourceToSourceFileImportsTransformation.add_import"),
        ("lib/python/pyflyby/_imports2s.py", "SourceToSourceFileImportsTransformation.select_import_block_by_closest_prefix_match"),
        ("lib/python/pyflyby/_imports2s.py", "SourceToSourceFileImportsTransformation.remove_import"),
        ("lib/python/pyflyby/_imports2s.py", "_last_lineno"),
        ("lib/python/pyflyby/_autoimp.py", "scan_for_import_issues"),
        ("lib/python/pyflyby/_autoimp.py", "_MissingImportFinder._scan_unused_imports"),
        ("lib/python/pyflyby/_importclns.py", "ImportSet.by_import_as"),
    ]
    quick_cases = 1500
    thorough_cases = 30000
    rule = ("executable modules from harness/gen_exec.py that read names without binding them x databases over the "
            "synthetic universe (unique, ambiguous, absent, dotted `import a.b` entries, aliases) x placements of existing "
            "import blocks (imports between code, after first use, nested); tidy with add-missing and remove-unused on; "
            "non-trivial = the tool added or removed an import; the output is executed (define-and-rerun for names that "
            "cannot be fixed) and rescanned with an independent unused-binding oracle")
    trusted_base = ["CPython executes the output; `ast` decides which names are read anywhere (conservative unused oracle)"]
    assumptions = ["database lookup key is import_as: dotted entries (`import a.b`) are not candidates for `a` (as coded; D13)",
                   "every function is called after the last module-level statement"]

    def setup(self, tier, rng):
        self.root = tempfile.mkdtemp(prefix="pfbverif_c04_")
        G.write_universe(self.root)

    def teardown(self):
        shutil.rmtree(getattr(self, "root", ""), ignore_errors=True)

    def exhaustive_cases(self, tier, rng):
        # names the module binds itself in ways an analysis can forget: no import may be added for them, and an
        # unused import of the same name must still go
        progs = [
            "def fn(f=1, /):\n    return f\nprint(fn())\n",
            "def fn(a=0, /, f=1, *, g=2):\n    return (a, f, g)\nprint(fn())\n",
            "def fn(*f, **g):\n    return (f, g)\nprint(fn())\n",
            "fn = lambda f=1, /, *g: (f, g)\nprint(fn())\n",
            "def fn(v=[1, 2]):\n    match v:\n        case [a, *f]:\n            return f\nprint(fn())\n",
            "def fn(v={1: 2}):\n    match v:\n        case {1: a, **f}:\n            return f\nprint(fn())\n",
            "def fn(v=3):\n    match v:\n        case int() as f:\n            return f\nprint(fn())\n",
            "def fn[f](a: f = 1) -> f:\n    return a\nprint(fn())\n",
            "class Box[f]:\n    x: f\nprint(Box)\n",
            "type f[g] = list[g]\nprint(f)\n",
            "print([f for f in (1, 2)], {g: 1 for g in (1,)})\n",
            "if (f := 3) > 2:\n    print(f)\n",
            "try:\n    pass\nexcept* ValueError as f:\n    print(f)\n",
            "with open(__file__) if False else __import__('contextlib').nullcontext(1) as f:\n    print(f)\n",
            "for f, *g in [(1, 2)]:\n    print(f, g)\n",
            "import contextlib as f, os as g\nprint(f, g)\n",
            "def outer():\n    f = 1\n    def inner():\n        nonlocal f\n        f += 1\n        return f\n    return inner()\nprint(outer())\n",
            "def fn():\n    global f\n    f = 1\nfn()\nprint(f)\n",
        ]
        out = []
        for text in progs:
            for pre in ("", "from pb import f\n"):
                known = ["from pa import f", "from pa import g"]
                out.append(dict(text=pre + text, tool="tidy", params={}, known=known, mandatory=[],
                                flags=dict(add_missing=True, remove_unused=True, add_mandatory=True),
                                unique={"f": "from pa import f", "g": "from pa import g"}, ambiguous=[]))
        return out

    def gen_case(self, rng, i, tier):
        uniq = rng.sample(UNIQUE_POOL, rng.randint(1, 5))
        amb = rng.sample(AMBIG_POOL, rng.randint(0, 2))
        known = [u[0] for u in uniq] + [s for a in amb for s in a[0]]
        if rng.random() < 0.3:
            known += rng.sample(DOTTED_POOL, 1)
        missing = [(u[1], u[2]) for u in uniq] + [(a[1], a[2]) for a in amb]
        if rng.random() < 0.3:
            missing += rng.sample(UNKNOWN, 1)
        # bare package names that the database knows only through dotted / from-entries (`import pa.s1`,
        # `from pa.s1 import h`, `from pc.sub.deep import d`): there is NO import for the bare name, so reading
        # `pa.K` must stay unfixed (no guessing from derived parent-package entries)
        uniq_names = {u[1] for u in uniq}
        for pkg in ("pa", "pc", "pb"):
            if pkg not in uniq_names and any((" " + pkg + ".") in (" " + k) for k in known) and rng.random() < 0.5:
                missing.append((pkg, "mod:" + pkg))
        text = G.gen_program(rng, missing_names=missing)
        mand = ["from __future__ import annotations"] if rng.random() < 0.15 else []
        case = dict(text=text, tool="tidy", params=R.gen_params(rng), known=known, mandatory=mand,
                    flags=dict(add_missing=True, remove_unused=True, add_mandatory=True),
                    unique={u[1]: u[0] for u in uniq}, ambiguous=[a[1] for a in amb])
        if rng.random() < 0.12:
            # remove-unused left to the tool's default: off for __init__.py and files under a .pyflyby directory
            case["filename"] = rng.choice(["/nonexistent/pkg/__init__.py", "/nonexistent/a/.pyflyby/x.py",
                                           "/nonexistent/pkg/mod.py", "/nonexistent/pkg/__init__2.py",
                                           "/nonexistent/x.pyflyby/m.py", "/nonexistent/pkg/test__init__.py",
                                           "/nonexistent/pkg/my__init__.py", "/nonexistent/__init__.py/mod.py"])
            case["flags"]["remove_unused"] = "AUTOMATIC"
        return case

    def run_impl(self, case):
        obs = {}
        try:
            obs["out"] = R.run_tool(case)
        except Exception as e:
            obs["err"] = type(e).__name__ + ": " + str(e)[:200]
            return obs
        # define-and-rerun: names that cannot be fixed get a dummy; a fixable name must never raise
        extra = {}
        runs = 0
        res = None
        while runs < 12:
            runs += 1
            res = G.run_program(obs["out"], self.root, extra_globals=dict(extra))
            exc = res["exc"]
            m = re.match(r"NameError: name '(\w+)' is not defined", exc or "")
            if not m:
                break
            name = m.group(1)
            obs.setdefault("name_errors", []).append(name)
            if name in case["unique"]:
                break
            extra[name] = _Dummy(name)
        obs["final_exc"] = res["exc"] if res else None
        obs["trace"] = R.block_trace(case)
        return obs

    def oracle(self, case, obs):
        if "err" in obs:
            return []     # C03's clause
        text, out = case["text"], obs["out"]
        ctx = dict(text=text, out=out, known=case["known"], mandatory=case["mandatory"], params=case["params"])
        fails = []
        def canon(imps):
            # (fullname, local name): `import pa.s1 as z1` and `from pa import s1 as z1` are the same import
            out = []
            for mod, lvl, name, asname in imps:
                full = "." * lvl + ((mod + ".") if mod else "") + name
                out.append((full, asname or (name if mod is not None or lvl else name)))
            return out
        try:
            imp_in, imp_out = R.top_imports(text), R.top_imports(out)
        except SyntaxError:
            return fails
        has_star = any(name == "*" for _, _, name, _ in imp_out) or "import *" in text
        # 1. a name with exactly one database import never raises NameError when the result runs
        #    (with a star import in the module any name may come from it: pyflyby reports no missing names then, by design)
        if not has_star:
            for n in obs.get("name_errors", []):
                if n in case["unique"] and _module_deletes(text, n):
                    # the module unbinds the name itself (`del n`): a NameError on a later read is the program's
                    # own doing, no added import can prevent it
                    continue
                if n in case["unique"] and _bound_later_read_only_in_functions(text, n):
                    # the module binds the name itself (later); the premature read sits in a def/lambda body that
                    # the program happens to call early — not "a name the module reads without binding it"
                    continue
                if n in case["unique"]:
                    fails.append(dict(what="NameError for a name with a unique known import when running the result", name=n, **ctx))
            # 1b. (listed finding D67) a read `a.b.x` whose dotted prefix `a.b` is the database's only import binding
            #     `a` (`import a.b`): tidy-imports looks up the first component only and adds nothing
            for n in obs.get("name_errors", []):
                if n in case["unique"]:
                    continue
                dotted = [k for k in case["known"] if k.startswith("import %s." % n) and " as " not in k]
                others = [k for k in case["known"] if k not in dotted and
                          any((asn or nm.split(".")[0]) == n for _, _, nm, asn in R.top_imports(k + "\n"))]
                if len(dotted) == 1 and not others and re.search(r"(?<![\w.])%s\." % re.escape(dotted[0][len("import "):]), text):
                    fails.append(dict(what="a dotted database entry is not used for a dotted read", name=n, entry=dotted[0], **ctx))
        # 2. nothing is guessed: every top-level import that was added is a unique candidate or mandatory
        added = canon(imp_out)
        for i in canon(imp_in):
            if i in added:
                added.remove(i)
        allowed = set()
        for stmt in list(case["unique"].values()) + list(case["mandatory"]):
            allowed.update(canon(R.top_imports(stmt + "\n")))
        try:
            greads = _global_reads(out)
        except SyntaxError:
            greads = None
        mand_allowed = set()
        for stmt in list(case["mandatory"]):
            mand_allowed.update(canon(R.top_imports(stmt + "\n")))
        for a in added:
            if a not in allowed:
                fails.append(dict(what="an import was added that is neither the unique candidate of a missing name nor mandatory",
                                  added=list(a), **ctx))
            elif greads is not None and a not in mand_allowed and a[1].split(".")[0] not in greads:
                fails.append(dict(what="an import was added for a name that the module never reads as a global",
                                  added=list(a), **ctx))
        # 3. no top-level import whose binding is never read remains (future / star / mandatory / __init__.py exempt)
        fn = case.get("filename")
        if fn and case["flags"].get("remove_unused") == "AUTOMATIC" and (
                fn.endswith("/__init__.py") or ".pyflyby" in fn.split("/")):
            # exempt file: nothing may be removed as unused (shadowed duplicates inside one block still collapse,
            # exactly as reformat-imports collapses them: compare with the reformatted input)
            try:
                ref = R.run_tool(dict(case, tool="reformat"))
                imp_ref = R.top_imports(ref)
            except Exception:
                return fails
            left = canon(imp_out)
            for i in canon(imp_ref):
                if i in left:
                    left.remove(i)
                else:
                    fails.append(dict(what="an import was removed from a file exempt from unused-import removal",
                                      imp=list(i), filename=fn, **ctx))
            return fails[:3]
        try:
            loaded = _names_loaded(out)
        except SyntaxError:
            return fails
        mand_set = set()
        for stmt in case["mandatory"]:
            mand_set.update(R.top_imports(stmt + "\n"))
        for i in imp_out:
            mod, lvl, name, asname = i
            if name == "*" or mod == "__future__" or i in mand_set:
                continue
            bound = asname or name.split(".")[0]
            if bound not in loaded:
                fails.append(dict(what="a top-level import whose binding is never read remains", imp=list(i), **ctx))
        # 3b. the same clause along the order of the top-level statements: an import that nothing can read once it has
        #     executed (e.g. a late copy of an import that was also added in front of the first use) remains
        if not has_star and not fails:
            try:
                dead = _dead_top_imports(out)
            except SyntaxError:
                dead = []
            for line, bound, name, asname, mod, lvl in dead:
                i = (mod, lvl or 0, name, asname) if mod is not None or lvl else (None, 0, name, asname)
                if i in mand_set or (mod, lvl, name, asname) in mand_set:
                    continue
                fails.append(dict(what="a top-level import that nothing reads after it executes remains",
                                  imp=[mod, lvl, name, asname], line=line, **ctx))
        return fails[:3]

    def model_requests(self, case, obs):
        return R.block_requests(case, obs["trace"]) if "trace" in obs else []

    def compare(self, case, obs, resps):
        return R.block_compare(case, obs["trace"], resps)

    def nontrivial_key(self, case, obs):
        if obs.get("out") is not None and obs["out"] != case["text"]:
            return case["text"] + "|" + repr(case["known"]) + repr(case["params"])
        return None

    def sample_repr(self, case, obs):
        return dict(text=case["text"][:300], known=case["known"], out=(obs.get("out") or obs.get("err"))[:300],
                    name_errors=obs.get("name_errors"))

    def stats(self, case, obs, acc):
        if "out" in obs and obs["out"] != case["text"]:
            acc["changed"] = acc.get("changed", 0) + 1
        for n in obs.get("name_errors", []):
            acc["nameerror_unfixable"] = acc.get("nameerror_unfixable", 0) + 1
        e = obs.get("final_exc")
        k = "final_ok" if e is None else "final_" + e.split(":")[0]
        acc[k] = acc.get(k, 0) + 1

    families = {"dotted_db_entry": lambda case, failure: failure.get("what") == "a dotted database entry is not used for a dotted read"}


def _module_deletes(text, name):
    import ast
    try:
        tree = ast.parse(text if text.endswith("\n") else text + "\n")
    except SyntaxError:
        return False
    for n in ast.walk(tree):
        if isinstance(n, ast.Delete):
            for t in n.targets:
                for x in ast.walk(t):
                    if isinstance(x, ast.Name) and x.id == name and isinstance(x.ctx, ast.Del):
                        return True
    return False


def _bound_later_read_only_in_functions(text, name):
    import ast
    try:
        tree = ast.parse(text if text.endswith("\n") else text + "\n")
    except SyntaxError:
        return False
    bind_line = None
    for st in tree.body:
        names = []
        if isinstance(st, ast.Import):
            names = [(a.asname or a.name.split(".")[0]) for a in st.names]
        elif isinstance(st, ast.ImportFrom):
            names = [(a.asname or a.name) for a in st.names]
        elif isinstance(st, (ast.Assign, ast.AnnAssign, ast.AugAssign)):
            tg = st.targets if isinstance(st, ast.Assign) else [st.target]
            names = [t.id for t in tg if isinstance(t, ast.Name)]
        elif isinstance(st, (ast.FunctionDef, ast.AsyncFunctionDef, ast.ClassDef)):
            names = [st.name]
        if name in names:
            bind_line = st.lineno
            break
    if bind_line is None:
        return False

    def module_level_loads(node):
        for ch in ast.iter_child_nodes(node):
            if isinstance(ch, (ast.Lambda,)):
                for d in ch.args.defaults + [k for k in ch.args.kw_defaults if k]:
                    yield from module_level_loads(d)
                continue
            if isinstance(ch, (ast.FunctionDef, ast.AsyncFunctionDef)):
                for d in ch.decorator_list + ch.args.defaults + [k for k in ch.args.kw_defaults if k]:
                    yield from module_level_loads(d)
                continue
            if isinstance(ch, ast.Name) and isinstance(ch.ctx, ast.Load) and ch.id == name:
                yield ch.lineno
            yield from module_level_loads(ch)
    return all(ln >= bind_line for ln in module_level_loads(tree))


PROP = C04()
