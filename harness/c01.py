"""C01 — Source rewriters touch only top-level import statements."""
from __future__ import annotations

from vcommon import Prop
import rewriters as R


class C01(Prop):
    id = "C01"
    driver = "Compose"
    lean_modules = ["Pfb.C01.Props", "Pfb.Compose.Output", "Pfb.C01.EndToEnd"]
    theorems = [
        "Pfb.C01.C01_frame_reformat",
        "Pfb.C01.C01_frame_tidy",
        "Pfb.C01.C01_frame_text",
        "Pfb.C01.C01_insert_position",
        "Pfb.C01.prologue_take",
        "Pfb.C01.prologue_next",
        "Pfb.C01.C01_separator_text",
        "Pfb.Compose.C01_output_embeds",
        "Pfb.Compose.C01_output_embeds_reformat",
        "Pfb.Compose.renderBlocks_embeds",
        "Pfb.Blocks.origStmts_preprocess",
        "Pfb.Blocks.origStmts_insertAfterComments",
        # end to end from the raw text: splitter model (C10) composed with the rewriter and formatter models
        "Pfb.C01.stmtsText_toStmts",
        "Pfb.C01.C01_input_is_text",
        "Pfb.C01.C01_input_runs",
        "Pfb.C01.output_reformat",
        "Pfb.C01.C01_reformat_text_frame",
        "Pfb.C01.C01_reformat_erase",
        "Pfb.C01.fixStage2_blocks_induct",
        "Pfb.C01.C01_tidy_blocks",
        "Pfb.C01.C01_tidy_text_frame_stmts",
        "Pfb.C01.C01_tidy_text_frame",
        "Pfb.C01.TidyFrame.erase",
        "Pfb.C01.witness_zone_glue",
        "Pfb.C01.exWellPlaced",
    ]
    anchors = [
        ("lib/python/pyflyby/_imports2s.py", "SourceToSourceFileImportsTransformation.preprocess"),
        ("lib/python/pyflyby/_imports2s.py", "SourceToSourceFileImportsTransformation.pretty_print"),
        ("lib/python/pyflyby/_imports2s.py", "SourceToSourceFileImportsTransformation.insert_new_blocks_after_comments"),
        ("lib/python/pyflyby/_imports2s.py", "SourceToSourceFileImportsTransformation.insert_new_import_block"),
        ("lib/python/pyflyby/_imports2s.py", "SourceToSourceFileImportsTransformation.add_import"),
        ("lib/python/pyflyby/_imports2s.py", "SourceToSourceFileImportsTransformation.remove_import"),
        ("lib/python/pyflyby/_imports2s.py", "fix_unused_and_missing_imports"),
        ("lib/python/pyflyby/_imports2s.py", "reformat_import_statements"),
        ("lib/python/pyflyby/_parse.py", "PythonBlock.concatenate"),
        ("lib/python/pyflyby/_parse.py", "PythonBlock.groupby"),
        ("lib/python/pyflyby/_file.py", "FileText.concatenate"),
    ]
    quick_cases = 1800
    thorough_cases = 40000
    rule = ("compilable modules from harness/gen_source.py x rewriter (reformat, tidy, transform/canonicalize with no "
            "applicable rename, replace-star, prune-broken) x format params x add/remove/mandatory flags x random "
            "databases; non-trivial = the module has a top-level import or the tool adds one; distinct by full case")
    trusted_base = ["CPython `ast` for the character ranges of top-level import statements (oracle)"]
    assumptions = ["input read as text (CRLF already normalised by Python's text mode)",
                   "in-process calls take the text as PythonBlock, FileText or str; the command-line route runs "
                   "bin/<tool> --replace on a file on disk in a UTF-8 locale"]

    def exhaustive_cases(self, tier, rng):
        # real-world corpus: stdlib / site-packages modules through reformat and tidy
        cases = R.file_corpus_cases(700 if tier == "thorough" else 12, rng)
        # the command-line route on files on disk (read_file / write_file / --replace), in UTF-8 and in a declared
        # 8-bit encoding, with non-ASCII text outside the imports and an import block that changes
        for j in range(240 if tier == "thorough" else 12):
            c = R.gen_rewriter_case(rng, tool=rng.choice(["reformat", "tidy", "reformat", "replace_star", "remove_broken"]))
            body = c["text"]
            extra = "s_enc = '\u00e9 \u00fc'  # \u00f1\n"
            head = "import sys, os\n" if rng.random() < 0.8 else ""
            enc = rng.choice(["utf-8", "latin-1", "latin-1", "iso-8859-15"])
            cookie = "" if enc == "utf-8" else rng.choice(["# -*- coding: %s -*-\n", "#!/usr/bin/python\n# vim: set fileencoding=%s :\n"]) % enc
            if body.startswith("from __future__"):
                head = ""
            text = cookie + head + body + ("" if body.endswith("\n") or not body else "\n") + (extra if rng.random() < 0.8 else extra[:-1])
            try:
                text.encode(enc)
                compile(text if text.endswith("\n") else text + "\n", "<cli>", "exec", dont_inherit=True)
            except (UnicodeEncodeError, SyntaxError, ValueError):
                continue
            c.update(text=text, entry="cli", encoding=enc)
            cases.append(c)
        return cases

    def gen_case(self, rng, i, tier):
        c = R.gen_rewriter_case(rng)
        r = rng.random()
        if r < 0.12:
            c["entry"] = "filetext"
        elif r < 0.24:
            c["entry"] = "str"
        return c

    def run_impl(self, case):
        obs = {}
        try:
            obs["out"] = R.run_tool(case)
        except Exception as e:
            obs["err"] = type(e).__name__
            obs["errmsg"] = str(e)[:200]
        if case["tool"] in ("reformat", "tidy") and case.get("entry") != "cli":
            obs["trace"] = R.block_trace(case)
        return obs

    def model_requests(self, case, obs):
        if "trace" not in obs or R.layout_family(case["text"]):
            return []
        b = R.block_requests(case, obs["trace"])
        return b + R.text_requests(case, obs["trace"]) if b else []

    def compare(self, case, obs, resps):
        d = R.block_compare(case, obs["trace"], resps[:1])
        if d is None and len(resps) > 1:
            d = R.text_compare(case, obs["trace"], resps[1:2])
        return d

    def oracle(self, case, obs):
        if "err" in obs:
            return []   # termination is C03's clause
        text, out = case["text"], obs["out"]
        try:
            variants = R.outside_variants(text)
        except SyntaxError:
            return []
        try:
            o_out, r_out, _ = R.outside_imports(out)
        except SyntaxError:
            return []   # compilability is C03's clause
        has_imp = len(R.top_imports(out)) > 0
        fut_in = any(m == "__future__" for m, _, _, _ in R.top_imports(text))
        fut_out = any(m == "__future__" for m, _, _, _ in R.top_imports(out))
        rngs_in, _ = R.import_ranges(text)
        ends_with_import = bool(rngs_in) and rngs_in[-1][1] == len(text) and not text.endswith("\n")
        for o_in, p in variants:
            ks = {0}
            if has_imp:
                # one new import block + one blank line directly after the prologue
                ks.add(1)
                midline = p > 0 and o_in[p - 1] != "\n"
                if midline:
                    ks.add(2)      # the block is appended to the prologue's line; its own line terminator stays
                if fut_out and not fut_in:
                    # a `__future__` import that has no block to join gets a block of its own ahead of the other
                    # new block (C03: only joins a block that already has them, else a new first block)
                    ks.add(2)
                    if midline:
                        ks.add(3)
            sufs = [""]
            # the input's last statement is an import without final newline: its re-rendering (or the line break kept
            # when it is removed) is newline-terminated — the permitted final-newline difference
            if ends_with_import:
                sufs.append("\n")
            for k in ks:
                base = o_in[:p] + "\n" * k + o_in[p:]
                for suf in sufs:
                    if o_out == base + suf:
                        return []
                # when the prologue is the whole file and its last line is unterminated: the terminator it needs
                if k and p == len(o_in) and o_in and not o_in.endswith("\n") and o_out == o_in + "\n" + "\n" * k:
                    return []
        o_in = variants[0][0]
        # permitted: input ended with an import piece without final newline
        return [dict(what="text outside top-level imports changed", tool=case["tool"],
                     outside_in=o_in[:400], outside_out=o_out[:400], text=text[:400], out=out[:400],
                     params=case.get("params"), flags=case.get("flags"), known=case.get("known"),
                     mandatory=case.get("mandatory"))]

    def nontrivial_key(self, case, obs):
        if "out" in obs and ("import" in case["text"] or obs["out"] != case["text"]):
            return repr(sorted(case.items(), key=lambda kv: kv[0]))
        return None

    def sample_repr(self, case, obs):
        return dict(tool=case["tool"], text=case["text"][:200], out=obs.get("out", obs.get("err"))[:200])

    def stats(self, case, obs, acc):
        acc["tool_" + case["tool"]] = acc.get("tool_" + case["tool"], 0) + 1
        e = "entry_" + case.get("entry", "block") + ("_" + case["encoding"] if case.get("encoding") else "")
        acc[e] = acc.get(e, 0) + 1
        if "err" in obs:
            acc["raised_" + obs["err"]] = acc.get("raised_" + obs["err"], 0) + 1
        elif obs["out"] != case["text"]:
            acc["changed"] = acc.get("changed", 0) + 1

    families = {"lone_cr": R.fam_lone_cr, "backslash_line": R.fam_backslash_line,
                "crlf_on_disk": lambda case, failure: case.get("entry") == "cli" and "\r\n" in case["text"]}


PROP = C01()
