"""
gen_c18 — generators and the aliasing import universe for property C18
("Import renaming is prefix-exact and keeps local names bound").

A case is self-contained JSON:
  map     : [[OLD, NEW], ...]          in iteration order (dict insertion order of the real call)
  text    : the program
  mods    : {module path: [member names]}   the *real* modules of the universe (every ancestor present)
  mode    : "transform" | "canonical" | "cli"
  params  : ImportFormatParams kwargs
  forget  : [OLD, ...] (mode canonical only) entries removed by __forget_imports__
  prior_calls : [{text, map, mode}, ...] calls made in the same process *before* the observed call
                (their results are discarded; a replay executes them first, so it is self-contained)
  odomain : bool — whether the direct oracle applies (False: correspondence-only case)

Everything random comes from the `rng` passed in.

The universe: every module of `mods` is a `types.ModuleType` registered in `sys.modules`
(sub-modules are attributes of their parents, members are `_Member` objects with a
distinctive repr); for every map entry NEW is bound to *the same object* as OLD (module
or member) and every `NEW.suffix` module name is registered for the OLD.suffix module.
Programs are executed in-process by CPython's real import machinery (`sys.modules`
hits); `print` is replaced by a recorder.  The trace (printed reprs + final exception
type) is the observable behaviour.
"""
from __future__ import annotations

import ast
import builtins
import importlib.machinery
import io
import re
import sys
import tokenize
import types

import unicodedata

# Name pools.  About a third of every pool are non-ASCII Python identifiers (PEP 3131): Latin-1 / Latin
# Extended-A letters, Greek, CJK - all NFKC-stable (the parser NFKC-normalises identifiers) and made of `\w`
# characters only (identifier characters outside `\w` are known finding C18-D5), inside the alphabet on which
# the Lean `isW` is exact.  The non-ASCII names come with their own character-prefix traps
# (donnée/données, 模/模块, αβ/αβγ).
TOPS = ["qfoo", "qfoobar", "qfo", "qfoo_", "qa", "qab", "qpkg", "qpkg2", "qm", "qmod",
        "données", "donnée", "Größe", "模块", "模", "αβγ", "αβ", "qé"]
SUBS = ["b", "bc", "bcd", "sub", "subx", "su", "mod", "mod_", "c", "cc", "b2",
        "lecture", "é", "sué", "子", "子包", "β"]
MEMBERS = ["f", "fn", "g", "val", "value", "Cls", "K", "k2", "fx",
           "lire", "größe", "值", "π"]
NEWTOPS = ["znew", "zn", "znew2", "zy", "zpk", "znéw", "新", "ζ"]
NEWSUBS = ["y", "yy", "n", "nw", "w", "y_", "ñ", "yé", "新子"]
ALIASES = ["al", "alx", "loc", "lo", "h", "hh", "r1", "a", "alé", "别名", "λ"]
VARS = ["v", "res", "tmp", "item"]
# long NEW paths (25-80 characters): the renamed module no longer fits in front of a fixed alignment column
LONGTOPS = ["zsome_long_package", "zanother_rather_long_root", "zlängeres_paket"]
LONGSUBS = ["zsubpackage_with_long_name", "zmodule_number_two", "zyet_another_component", "zlong_子包_name"]
# the package a program with relative imports is a module of (disjoint from every other pool)
HOSTS = ["hpkg", "hostp", "hôte"]
HOSTSUBS = ["hs1", "hs2", "hsé"]


def in_alphabet(s: str) -> bool:
    """the alphabet on which the Lean model's `\\w` is exact (Pfb.C18.inAlphabet)"""
    return all(ord(c) < 0x180 or 0x370 <= ord(c) <= 0x3FF or 0x4E00 <= ord(c) <= 0x9FFF for c in s)


for _pool in (TOPS, SUBS, MEMBERS, NEWTOPS, NEWSUBS, ALIASES, LONGTOPS, LONGSUBS, HOSTS, HOSTSUBS):
    for _n in _pool:
        assert _n.isidentifier() and unicodedata.normalize("NFKC", _n) == _n and re.fullmatch(r"\w+", _n) \
            and in_alphabet(_n), _n
assert not (set(NEWTOPS) | set(NEWSUBS) | set(LONGTOPS) | set(LONGSUBS)) & (set(TOPS) | set(SUBS) | set(MEMBERS) | set(ALIASES))
assert not (set(HOSTS) | set(HOSTSUBS)) & (set(NEWTOPS) | set(NEWSUBS) | set(LONGTOPS) | set(LONGSUBS) | set(TOPS) | set(SUBS)
                                           | set(MEMBERS) | set(ALIASES))

PARAM_CHOICES = dict(
    align_imports=[True, False, 24, 32, 40, [32], [16, 32], [8, 24, 40]],
    from_spaces=[1, 3],
    separate_from_imports=[True, False],
    max_line_length=[None, 79, 60, 120],
    wrap_paren=[True],
    indent=[2, 4],
    hanging_indent=["never", "auto", "always"],
    align_future=[False, True],
)


# ----------------------------------------------------------------------------
# string-level predicates (the property's own words)
# ----------------------------------------------------------------------------

def under(path: str, old: str) -> bool:
    """`path` is OLD or begins with OLD followed by a dot."""
    return path == old or path.startswith(old + ".")


def rename(path: str, old: str, new: str) -> str:
    assert under(path, old)
    return new + path[len(old):]


def related(a: str, b: str) -> bool:
    return under(a, b) or under(b, a)


def map_in_odomain(entries) -> bool:
    """No NEW is prefix-related to the OLD of a *different* entry, OLDs distinct, NEWs distinct,
    everything a dotted identifier, OLD != NEW."""
    olds = [o for o, _ in entries]
    news = [n for _, n in entries]
    if len(set(olds)) != len(olds) or len(set(news)) != len(news):
        return False
    for i, (o, n) in enumerate(entries):
        if o == n or not _dotted_ident(o) or not _dotted_ident(n):
            return False
        for j, (o2, n2) in enumerate(entries):
            if i != j and (related(n, o2)):
                return False
        if under(o, n):      # NEW is a prefix of its own OLD ({a.b: a}) - excluded
            return False
    return True


def map_in_chain_domain(entries) -> bool:
    """Chained maps: as `map_in_odomain`, except that the NEW of an entry may be a dotted prefix of (or equal
    to) the OLD of ANOTHER entry ({a: n, n.x: m}: whatever `a.x` was ends up as `m`), and NEWs may be nested in
    one another.  Any other relation between a NEW and another entry's OLD stays excluded."""
    olds = [o for o, _ in entries]
    news = [n for _, n in entries]
    if len(set(olds)) != len(olds) or len(set(news)) != len(news):
        return False
    for i, (o, n) in enumerate(entries):
        if o == n or not _dotted_ident(o) or not _dotted_ident(n):
            return False
        if under(o, n):
            return False
        for j, (o2, n2) in enumerate(entries):
            if i != j and related(n, o2) and not under(o2, n):
                return False
    return True


def pulled_back(entries):
    """For chained maps: the entries whose OLD lies under another entry's NEW, expressed over the ORIGINAL names
    ({a: n, n.x: m} -> [a.x, m]); the program-domain conditions must hold for these as well (a program reading
    `a.x.f` through `import a` is outside the domain exactly as it is for the map {a.x: m})."""
    out = []
    for _ in range(3):
        newly = []
        for o, n in [list(e) for e in entries] + out:
            for o1, n1 in entries:
                if [o, n] != [o1, n1] and under(o, n1):
                    e = [o1 + o[len(n1):], n]
                    if e not in out and e not in [list(x) for x in entries] and e not in newly:
                        newly.append(e)
        if not newly:
            break
        out += newly
    return out


def _dotted_ident(s):
    import keyword
    return bool(s) and all(p.isidentifier() and not keyword.iskeyword(p) and re.fullmatch(r"\w+", p)
                           and unicodedata.normalize("NFKC", p) == p for p in s.split("."))


# ----------------------------------------------------------------------------
# universe
# ----------------------------------------------------------------------------

class _Member:
    def __init__(self, name):
        self._n = name

    def __repr__(self):
        return "<%s>" % self._n

    def __call__(self, *a, **k):
        return "%s(%s)" % (self._n, ", ".join([repr(x) for x in a] + ["%s=%r" % kv for kv in sorted(k.items())]))

    @property
    def tag(self):
        return "tag:" + self._n


class _TableFinder:
    """meta-path finder/loader of the lazy universe: `import NAME` yields the object the table gives for NAME
    (the very same object for a NEW name and its OLD name); the import machinery itself then binds the
    sub-module as an attribute of its parent, as for any real package."""

    def __init__(self, table):
        self.table = table

    def find_spec(self, name, path=None, target=None):
        if name in self.table:
            return importlib.machinery.ModuleSpec(name, self, is_package=True)
        return None

    def create_module(self, spec):
        return self.table[spec.name]

    def exec_module(self, module):
        # one object is imported under several names: leave no trace of the name used (a module's repr shows
        # its __spec__ / __loader__), so that the object prints the same whichever path the program imported
        for attr in ("__spec__", "__loader__"):
            try:
                setattr(module, attr, None)
            except Exception:
                pass


class Universe:
    """Install / remove the synthetic modules.  Use as a context manager.

    The table `name -> object` holds every real module path, every NEW (for the very object its OLD denotes -
    OLD being resolved through the aliases of the other entries too, so that chained maps {a: n, n.x: m} get
    m == n.x == a.x), every NEW.suffix and the synthetic ancestor packages of the NEWs.

    lazy (default): nothing is pre-registered in `sys.modules`; a meta-path finder serves the table.  The real
    tree is linked eagerly (a real package exposes its real sub-modules as soon as it is imported, as a package
    whose __init__ imports them), but a NEW-side link `parent.attr -> module` exists only once some import
    statement has imported that very path: `import n.util.helper` does NOT make `n.helpers` available.
    Member (non-module) aliases are plain attributes of their parent from the start.
    eager (lazy=False): everything registered in sys.modules and linked up front (used for the self-check)."""

    def __init__(self, mods, entries, lazy=True):
        self.mods = mods
        self.entries = entries
        self.lazy = lazy
        self.added = []
        self.saved = {}
        self.finder = None

    def _build(self):
        real, table, links = {}, {}, []
        realpath = {}
        self.reallinks = set()     # (id(parent module), attribute) of the real tree: never un-linked
        for path in sorted(self.mods, key=lambda p: p.count(".")):
            m = types.ModuleType(path)
            m.__path__ = []
            m.__package__ = path
            real[path] = m
            realpath[id(m)] = path
            for mem in self.mods[path]:
                setattr(m, mem, _Member(path + "." + mem))
            if "." in path:
                par, last = path.rsplit(".", 1)
                setattr(real[par], last, m)
                self.reallinks.add((id(real[par]), last))
            table[path] = m
        self.real, self.table, self.links = real, table, links

        def denote(path):
            """the object `path` denotes: longest prefix the table knows, then attribute access"""
            parts = path.split(".")
            for i in range(len(parts), 0, -1):
                pre = ".".join(parts[:i])
                if pre in table:
                    obj = table[pre]
                    for p in parts[i:]:
                        if not hasattr(obj, p):
                            return None
                        obj = getattr(obj, p)
                    return obj
            return None
        self.denote = denote

        def link(parent, attr, obj):
            setattr(parent, attr, obj)
            links.append((parent, attr, obj))

        bound = []
        # shorter NEW first: a NEW that is an ancestor of another NEW must be bound before it; an entry whose OLD
        # is only reachable through another entry's NEW (a chain) waits until that one is bound
        pending = sorted(self.entries, key=lambda e: e[1].count("."))
        progress = True
        while pending and progress:
            progress = False
            for e in list(pending):
                old, new = e
                obj = real.get(old)
                if obj is None:
                    obj = denote(old)
                if obj is None:
                    continue
                pending.remove(e)
                progress = True
                nparts = new.split(".")
                for i in range(1, len(nparts)):
                    anc = ".".join(nparts[:i])
                    if anc not in table:
                        m = types.ModuleType(anc)
                        m.__path__ = []
                        table[anc] = m
                        if i > 1:
                            link(table[".".join(nparts[:i - 1])], nparts[i - 1], m)
                if len(nparts) > 1:
                    link(table[".".join(nparts[:-1])], nparts[-1], obj)
                # NEW stands for the very object OLD denotes, module or not: a deeper NEW of another entry
                # (NEW.x) then finds this ancestor already bound and becomes an attribute of that same object,
                # instead of a synthetic package replacing it.
                table[new] = obj
                bound.append((old, new, obj))
                if isinstance(obj, types.ModuleType) and id(obj) in realpath:
                    rp = realpath[id(obj)]
                    for p in list(real):
                        if under(p, rp):
                            table[new + p[len(rp):]] = real[p]
                break       # re-sort-free restart: keeps "shorter NEW first" among the entries that are ready
        # an object has every attribute under each of its names: NEW.x (x linked to the object NEW stands for) is
        # also OLD.x - `from NEW import x` makes the import machinery ask for `<the object's __name__>.x`
        for _ in range(4):
            changed = False
            for parent, attr, obj in list(links):
                for name in [k for k, v in table.items() if v is parent]:
                    q = name + "." + attr
                    if q in table:
                        continue
                    table[q] = obj
                    changed = True
                    if isinstance(obj, types.ModuleType) and id(obj) in realpath:
                        rp = realpath[id(obj)]
                        for p2 in list(real):
                            if under(p2, rp):
                                table.setdefault(q + p2[len(rp):], real[p2])
            if not changed:
                break
        # self-check: every NEW must denote exactly the object its OLD denotes, by attribute access from the
        # top-level module as well as by name; otherwise the oracle must not use this universe.
        self.consistent = True

        def walk(parts):
            cur = table.get(parts[0])
            for p in parts[1:]:
                cur = getattr(cur, p, None) if cur is not None else None
            return cur
        for old, new, obj in bound:
            if walk(new.split(".")) is not obj or table.get(new) is not obj or denote(old) is not obj:
                self.consistent = False
            # ... and so must every NEW.suffix (e.g. {a: n, a.c: n.a} with a real module a.a cannot be satisfied)
            if isinstance(obj, types.ModuleType) and id(obj) in realpath:
                rp = realpath[id(obj)]
                for p in real:
                    if under(p, rp):
                        q = new + p[len(rp):]
                        if walk(q.split(".")) is not real[p] or table.get(q) is not real[p]:
                            self.consistent = False
        # the real tree must be intact (binding a NEW must not have overwritten a real attribute)
        for p in real:
            if walk(p.split(".")) is not real[p] or table.get(p) is not real[p]:
                self.consistent = False
        self.bound = bound

    def __enter__(self):
        self._build()
        for name in self.table:
            if name in sys.modules:
                self.saved[name] = sys.modules.pop(name)
        self.added = list(self.table)
        if self.lazy:
            if self.consistent:
                # un-link the NEW-side module attributes: the import machinery re-creates each of them when (and
                # only when) the program imports that path
                for parent, attr, obj in self.links:
                    if isinstance(obj, types.ModuleType) and parent.__dict__.get(attr) is obj \
                            and (id(parent), attr) not in self.reallinks:
                        delattr(parent, attr)
            self.finder = _TableFinder(self.table)
            sys.meta_path.insert(0, self.finder)
        else:
            for name, obj in self.table.items():
                sys.modules[name] = obj
        return self

    def __exit__(self, *exc):
        if self.finder is not None:
            try:
                sys.meta_path.remove(self.finder)
            except ValueError:
                pass
            self.finder = None
        for name in self.added:
            sys.modules.pop(name, None)
        for name, m in self.saved.items():
            sys.modules[name] = m
        return False


def run_program(text, pkg=None):
    """Execute `text`; return the trace.  The universe must be installed.  `pkg`: the package the program is a
    module of (its relative imports are resolved against it)."""
    trace = []

    def rec(*a, **k):
        trace.append(" ".join(repr(x) if not isinstance(x, str) else x for x in a))

    b = dict(builtins.__dict__)
    b["print"] = rec
    g = {"__builtins__": b, "__name__": "__c18__"}
    if pkg:
        g["__name__"] = pkg + ".c18main"
        g["__package__"] = pkg
    try:
        code = compile(text, "<c18>", "exec", dont_inherit=True)
    except SyntaxError as e:
        return ["SyntaxError"]
    try:
        exec(code, g)
    except BaseException as e:
        msg = str(e)
        trace.append("EXC %s: %s" % (type(e).__name__, msg[:120]))
    return trace


def run_both(mods, entries, text_in, text_out, pkg=None):
    """(trace of input, trace of output); (None, None) if the aliasing universe could not be built consistently.
    Each program runs in its own freshly built (lazy) universe: what one program imported is not there for the
    other."""
    with Universe(mods, entries) as u:
        if not u.consistent:
            return None, None
        t_in = run_program(text_in, pkg)
    t_out = None
    if text_out is not None:
        with Universe(mods, entries) as u:
            t_out = run_program(text_out, pkg)
    return t_in, t_out


# ----------------------------------------------------------------------------
# reading programs (stdlib only; independent of pyflyby)
# ----------------------------------------------------------------------------

def toplevel_imports(text):
    """[(fullname, local name)] of the module-level import statements, in order; level>0 keeps its dots."""
    tree = ast.parse(text)
    out = []
    for node in tree.body:
        if isinstance(node, ast.Import):
            for a in node.names:
                out.append((a.name, a.asname or a.name))
        elif isinstance(node, ast.ImportFrom):
            mod = "." * node.level + (node.module or "")
            for a in node.names:
                full = (mod + a.name) if (mod.endswith(".") or not mod) else (mod + "." + a.name)
                out.append((full, a.asname or a.name))
    return out


def nested_imports(text):
    """[(fullname, local, source segment)] of import statements that are not module-level statements."""
    tree = ast.parse(text)
    top = set(map(id, tree.body))
    out = []
    for node in ast.walk(tree):
        if id(node) in top:
            continue
        seg = ast.get_source_segment(text, node) if isinstance(node, (ast.Import, ast.ImportFrom)) else None
        if isinstance(node, ast.Import):
            for a in node.names:
                out.append((a.name, a.asname or a.name, seg))
        elif isinstance(node, ast.ImportFrom):
            mod = "." * node.level + (node.module or "")
            for a in node.names:
                full = (mod + a.name) if (mod.endswith(".") or not mod) else (mod + "." + a.name)
                out.append((full, a.asname or a.name, seg))
    return out


def domain_problems(text, entries):
    """
    The property's program domain: OLD is mentioned only through module-level imports of OLD / OLD.*
    and through references to the local names those imports bind.  Returns a list of reasons why
    `text` is outside that domain (empty = inside).
    """
    probs = []
    try:
        tree = ast.parse(text)
    except SyntaxError:
        return ["input does not compile"]
    imp_lines = set()
    for node in tree.body:
        if isinstance(node, (ast.Import, ast.ImportFrom)):
            imp_lines.update(range(node.lineno, node.end_lineno + 1))
            # (a relative import is inside the domain: its dotted path begins with a dot, so it is under no OLD;
            #  a body word OLD that refers to the name it binds is rejected below, as for any non-OLD binding)
    for node in ast.walk(tree):
        if isinstance(node, (ast.Import, ast.ImportFrom)):
            imp_lines.update(range(node.lineno, node.end_lineno + 1))
    imports = toplevel_imports(text) + [(f, l) for f, l, _ in nested_imports(text)]
    # line of the statement that makes each binding (a reference is served by bindings made above it)
    # (a function-level import serves only the rest of its own function)
    bind_line = {}

    def visit(node, scope):
        for ch in ast.iter_child_nodes(node):
            sc = scope
            if isinstance(ch, (ast.FunctionDef, ast.AsyncFunctionDef, ast.Lambda)):
                sc = (ch.lineno, ch.end_lineno)
            if isinstance(ch, ast.Import):
                for a in ch.names:
                    bind_line.setdefault((a.name, a.asname or a.name), []).append((ch.lineno, scope))
            elif isinstance(ch, ast.ImportFrom):
                mod = "." * ch.level + (ch.module or "")
                for a in ch.names:
                    full = (mod + a.name) if (mod.endswith(".") or not mod) else (mod + "." + a.name)
                    bind_line.setdefault((full, a.asname or a.name), []).append((ch.lineno, scope))
            visit(ch, sc)
    visit(tree, None)

    def serves(key, line):
        for bl, scope in bind_line.get(key, []):
            if bl < line and (scope is None or scope[0] <= line <= scope[1]):
                return True
        return False
    locs = [l for _, l in imports]
    # locals distinct (by first component for single names vs plain imports)
    singles = [l for l in locs if "." not in l]
    if len(set(singles)) != len(singles):
        probs.append("two imports bind the same local name")
    firsts = {l.split(".")[0] for l in locs if "." in l} | {l for (f, l) in imports if f == l and "." not in l}
    for f, l in imports:
        if "." not in l and f != l and l in firsts:
            probs.append("alias collides with a plain import's top-level name")
    olds = [o.split(".") for o, _ in entries]
    src = text if text.endswith("\n") else text + "\n"
    toks = [t for t in tokenize.generate_tokens(io.StringIO(src).readline)
            if t.type not in (tokenize.NL, tokenize.NEWLINE, tokenize.INDENT, tokenize.DEDENT, tokenize.ENDMARKER)]
    i = 0
    while i < len(toks):
        t = toks[i]
        if t.start[0] in imp_lines:
            i += 1
            continue
        if t.type in (tokenize.COMMENT, tokenize.STRING) or tokenize.tok_name[t.type].startswith("FSTRING"):
            for o, _ in entries:
                if re.search(r"\b%s\b" % re.escape(o), t.string):
                    probs.append("OLD inside a comment or string")
            i += 1
            continue
        if t.type != tokenize.NAME:
            i += 1
            continue
        chain = [t.string]
        j = i + 1
        gaps = []       # gaps[k]: white space / a line break between chain[k], the dot and chain[k+1]
        while j + 1 < len(toks) and toks[j].string == "." and toks[j + 1].type == tokenize.NAME:
            gaps.append(toks[j].start != toks[j - 1].end or toks[j + 1].start != toks[j].end)
            chain.append(toks[j + 1].string)
            j += 2
        dotted_before = i > 0 and toks[i - 1].string == "."
        for oc, (o, n) in zip(olds, entries):
            for p in range(len(chain)):
                if chain[p:p + len(oc)] == oc:
                    if p > 0 and not dotted_before and any(
                            chain[:len(l.split("."))] == l.split(".") and p + len(oc) <= len(l.split("."))
                            and under(l, o) and under(f, o) for f, l in imports):
                        pass    # OLD recurs inside the dotted local name of an import of OLD (`import a.a`)
                    elif p > 0 or dotted_before:
                        probs.append("OLD inside an attribute chain")
                    else:
                        # (white space inside the OLD part of the reference - `a . b.f` for OLD a.b - is still a
                        #  reference to the import's local name: inside the domain, known finding C18-D7; white
                        #  space behind the OLD part is harmless)
                        ok = False
                        for f, l in imports:
                            lc = l.split(".")
                            if chain[:len(lc)] == lc and under(l, o) and under(f, o) and serves((f, l), t.start[0]):
                                ok = True
                        if not ok:
                            probs.append("OLD word in the body is not a reference to an import of OLD")
        i = j
    # the renamed program must not merge distinct local names
    news_first = {n.split(".")[0] for _, n in entries}
    for f, l in imports:
        if not any(under(l, o) for o, _ in entries) and l.split(".")[0] in news_first:
            probs.append("NEW collides with an existing local name")
    return probs


def reads_through_package_binding(text, entries):
    """Known finding C18-D6: `import a.b.c` (plain, dotted, under an OLD whose NEW has another top-level package)
    is the only import that binds `a`, and the body reads `a.<something not under any OLD>` through that
    binding: after the rename nothing binds `a` any more."""
    try:
        tree = ast.parse(text)
        imports = toplevel_imports(text) + [(f, l) for f, l, _ in nested_imports(text)]
    except SyntaxError:
        return False
    moved = [(f, l) for f, l in imports if f == l and "." in l and any(
        under(f, o) and rename(f, o, n).split(".")[0] != f.split(".")[0] for o, n in entries)]
    if not moved:
        return False
    kept = {l.split(".")[0] for f, l in imports if f == l and not any(under(f, o) for o, _ in entries)} | \
        {l for f, l in imports if "." not in l and f != l}
    imp_lines = set()
    for node in ast.walk(tree):
        if isinstance(node, (ast.Import, ast.ImportFrom)):
            imp_lines.update(range(node.lineno, node.end_lineno + 1))
    src = text if text.endswith("\n") else text + "\n"
    toks = [t for t in tokenize.generate_tokens(io.StringIO(src).readline)
            if t.type not in (tokenize.NL, tokenize.NEWLINE, tokenize.INDENT, tokenize.DEDENT, tokenize.ENDMARKER)]
    olds = [o.split(".") for o, _ in entries]
    i = 0
    while i < len(toks):
        t = toks[i]
        if t.type != tokenize.NAME or t.start[0] in imp_lines or (i > 0 and toks[i - 1].string == "."):
            i += 1
            continue
        chain = [t.string]
        j = i + 1
        while j + 1 < len(toks) and toks[j].string == "." and toks[j + 1].type == tokenize.NAME:
            chain.append(toks[j + 1].string)
            j += 2
        for f, l in moved:
            c0 = l.split(".")[0]
            if chain[0] == c0 and c0 not in kept and not any(chain[:len(oc)] == oc for oc in olds):
                return True
        i = j
    return False


def _body_chains(text):
    """(tokens of the chain, gaps) of every dotted NAME chain outside import statements that does not follow a dot."""
    tree = ast.parse(text)
    imp_lines = set()
    for node in ast.walk(tree):
        if isinstance(node, (ast.Import, ast.ImportFrom)):
            imp_lines.update(range(node.lineno, node.end_lineno + 1))
    src = text if text.endswith("\n") else text + "\n"
    toks = [t for t in tokenize.generate_tokens(io.StringIO(src).readline)
            if t.type not in (tokenize.NL, tokenize.NEWLINE, tokenize.INDENT, tokenize.DEDENT, tokenize.ENDMARKER)]
    out = []
    i = 0
    depth = 0
    while i < len(toks):
        t = toks[i]
        if t.type == tokenize.OP and t.string in "([{":
            depth += 1
        elif t.type == tokenize.OP and t.string in ")]}":
            depth -= 1
        if t.type != tokenize.NAME or t.start[0] in imp_lines or (i > 0 and toks[i - 1].string == "."):
            i += 1
            continue
        ch = [t]
        gaps = []
        j = i + 1
        while j + 1 < len(toks) and toks[j].string == "." and toks[j + 1].type == tokenize.NAME:
            gaps.append(toks[j].start != toks[j - 1].end or toks[j + 1].start != toks[j].end)
            ch.append(toks[j + 1])
            j += 2
        out.append((ch, gaps, depth))
        i = j
    return out


def spaced_old_reference(text, entries):
    """Known finding C18-D7: a body reference whose leading components are a dotted (2+ components) OLD and that
    has white space, a line break or a backslash continuation around one of the dots INSIDE that OLD part
    (`a . b.f`, `(a\n  .b\n  .f)` for OLD a.b): `\\bOLD\\b` does not match it, the import is renamed, the reference is not."""
    try:
        chains = _body_chains(text)
    except (SyntaxError, tokenize.TokenError):
        return False
    for ch, gaps, _ in chains:
        names = [t.string for t in ch]
        for o, _n in entries:
            oc = o.split(".")
            if len(oc) >= 2 and names[:len(oc)] == oc and any(gaps[:len(oc) - 1]):
                return True
    return False


def space_a_reference(rng, text, entries):
    """Rewrite one body reference under a dotted OLD so that one dot inside the OLD part is surrounded by white
    space / a line break (same program for Python).  Returns the new text or None."""
    try:
        chains = _body_chains(text)
    except (SyntaxError, tokenize.TokenError):
        return None
    cands = []
    for ch, gaps, depth in chains:
        names = [t.string for t in ch]
        for o, _n in entries:
            oc = o.split(".")
            if len(oc) >= 2 and names[:len(oc)] == oc and not any(gaps) \
                    and all(t.start[0] == ch[0].start[0] for t in ch[:len(oc)]):
                cands.append((ch, len(oc), depth))
    if not cands:
        return None
    ch, n, depth = rng.choice(cands)
    k = rng.randrange(n - 1)                 # the dot between component k and k+1
    a, b = ch[k], ch[k + 1]
    forms = [" . ", " .", ". ", "  .  ", ".\\\n        ", " \\\n        ."]
    if depth > 0:
        forms += ["\n        .", ".\n        ", "\n        .\n        "] * 2
    lines = text.split("\n")
    ln = lines[a.start[0] - 1]
    lines[a.start[0] - 1] = ln[:a.end[1]] + rng.choice(forms) + ln[b.start[1]:]
    new = "\n".join(lines)
    try:
        if ast.dump(ast.parse(new)) != ast.dump(ast.parse(text)):
            return None
    except SyntaxError:
        return None
    return new


# ----------------------------------------------------------------------------
# generation
# ----------------------------------------------------------------------------

def gen_universe(rng):
    mods = {}

    def add(path):
        parts = path.split(".")
        for i in range(1, len(parts) + 1):
            p = ".".join(parts[:i])
            if p not in mods:
                mods[p] = rng.sample(MEMBERS, rng.randint(1, 3))
                if i > 1:
                    par, last = p.rsplit(".", 1)
                    if last in mods[par]:
                        mods[par] = [x for x in mods[par] if x != last] or [y for y in MEMBERS if y != last][:1]
    for t in rng.sample(TOPS, rng.randint(1, 3)):
        add(t)
        if rng.random() < 0.04:
            add(t + "." + t)
        for _ in range(rng.randint(0, 3)):
            add(".".join([t] + [rng.choice(SUBS) for _ in range(rng.randint(1, 3))]))
    return mods, add


def fresh_new(rng, mods, taken):
    for _ in range(50):
        r = rng.random()
        if rng.random() < 0.14:
            parts = [rng.choice(LONGTOPS)]
            while len(".".join(parts)) < rng.choice([25, 30, 45, 70]) and len(parts) < 5:
                parts.append(rng.choice(LONGSUBS))
        elif r < 0.55:
            parts = [rng.choice(NEWTOPS)] + [rng.choice(NEWSUBS) for _ in range(rng.choice([0, 0, 1, 1, 2]))]
        elif r < 0.85:
            base = rng.choice(sorted(mods))
            parts = base.split(".") + [rng.choice(NEWSUBS) for _ in range(rng.choice([1, 1, 2]))]
        else:
            parts = [rng.choice(NEWTOPS), rng.choice(NEWSUBS + SUBS[:3])]
        n = ".".join(parts)
        if n not in taken and not any(related(n, x) and x.split(".")[0] in NEWTOPS + LONGTOPS for x in taken):
            return n
    return "zfresh%d" % len(taken)


def char_traps(path):
    """paths that share leading *characters* with `path` but no component boundary."""
    if "." in path:
        par, last = path.rsplit(".", 1)
        par += "."
    else:
        par, last = "", path
    out = [par + last + "x", par + last + "_", par + last + "2", par + last + "s"]
    if len(last) > 2:
        out.append(par + last[:-1])
    out.append("x" + path)                       # OLD is a character *suffix* of the first component
    if last.capitalize() != last:
        out.append(par + last.capitalize())      # differs by case only
    if "." in path:
        out.append(path.replace(".", "_"))       # the dot of OLD read as "any character"
    return out


def gen_family_map(rng, mods, add):
    """2-4 entries whose OLDs are related: by character prefix without a dot boundary (util / utils / util2 /
    util_x), by true dotted nesting (a / a.b / a.b.c), or both; NEWs parallel (NEW_i = NEW_0 + OLD_i[len(OLD_0):],
    e.g. util -> core.util, utils -> core.utils) or unrelated; in a random dict order."""
    base = rng.choice(sorted(mods))
    par = base.rsplit(".", 1)[0] + "." if "." in base else ""
    last = base.rsplit(".", 1)[-1]
    variants = [last + "s", last + "2", last + "_x", last + "x", last + "_"]
    if len(last) > 2:
        variants.append(last[:-1])
    keys = [base] if rng.random() < 0.85 else []
    kind = rng.random()
    if kind < 0.75:
        for v in rng.sample(variants, rng.randint(1, 3)):
            keys.append(par + v)
    if kind > 0.45:
        # true nesting below / above
        cur = base
        for _ in range(rng.randint(1, 2)):
            kids = [p for p in mods if p.startswith(cur + ".") and p.count(".") == cur.count(".") + 1]
            cur = rng.choice(kids) if kids and rng.random() < 0.7 else cur + "." + rng.choice(SUBS)
            keys.append(cur)
        if par and rng.random() < 0.3:
            keys.append(par[:-1])
    keys = list(dict.fromkeys(keys))[:4]
    if len(keys) < 2:
        keys.append(par + variants[0])
    for k in keys:
        if rng.random() < 0.85 and not any(k == m + "." + x for m in mods for x in mods[m]):
            add(k)
    entries = []
    taken = list(keys)
    parallel = rng.random() < 0.6
    k0 = min(keys, key=len)
    v0 = fresh_new(rng, mods, taken)
    if rng.random() < 0.5:
        v0 = v0 + "." + k0.rsplit(".", 1)[-1]          # core.util for util
    taken.append(v0)
    for k in keys:
        if k == k0:
            v = v0
        elif parallel and k.startswith(k0) and rng.random() < 0.9:
            v = v0 + k[len(k0):]
        else:
            v = fresh_new(rng, mods, taken)
        taken.append(v)
        entries.append([k, v])
    rng.shuffle(entries)
    return entries


def gen_map(rng, mods, add):
    if rng.random() < 0.2:
        return gen_family_map(rng, mods, add)
    entries = []
    n = rng.choice([1, 1, 1, 2, 2, 3])
    paths = sorted(mods)
    for _ in range(n):
        r = rng.random()
        olds = [o for o, _ in entries]
        if olds and r < 0.4:
            base = rng.choice(olds)
            kids = [p for p in paths if p.startswith(base + ".")]
            if base not in mods and "." in base:
                old = base.rsplit(".", 1)[0]
            elif "." in base and rng.random() < 0.5:
                old = base.rsplit(".", 1)[0]
            elif kids:
                old = rng.choice(kids)
            else:
                old = base + "." + rng.choice(SUBS)
                add(old)
        elif r < 0.78:
            old = rng.choice(paths)
        elif r < 0.88:
            m = rng.choice(paths)
            old = m + "." + rng.choice(mods[m])
        else:
            # OLD itself does not exist; only character-extensions of it do
            base = rng.choice(paths)
            cand = char_traps(base)
            old = rng.choice(cand)
            if rng.random() < 0.5 and old in mods:
                pass
        if old in olds:
            continue
        new = fresh_new(rng, mods, [nn for _, nn in entries] + olds)
        entries.append([old, new])
        paths = sorted(mods)
    # character-prefix trap siblings of every OLD become real modules most of the time
    for old, _ in list(entries):
        for tp in char_traps(old):
            if rng.random() < 0.45 and tp not in [o for o, _ in entries]:
                # a trap must not be a *member* name clash
                par = tp.rsplit(".", 1)[0] if "." in tp else None
                if par is None or par in mods or True:
                    if not any(tp == m + "." + x for m in mods for x in mods[m]):
                        add(tp)
    # rarely: a later component of NEW equals a single-component OLD of another entry
    if len(entries) >= 2 and rng.random() < 0.06:
        singles = [o for o, _ in entries if "." not in o]
        if singles:
            s = rng.choice(singles)
            for e in entries:
                if e[0] != s and "." in e[0]:
                    e[1] = rng.choice(NEWTOPS) + "." + s
                    break
    return entries


def gen_program(rng, mods, entries, nested_imports=False, prefer=None, rel=None):
    """prefer: import targets to pick more often (chained maps: the paths the later entry applies to).
    rel: {pkg, add} - the program is a module of package `pkg` and gets relative imports of sibling modules
    whose names coincide with OLD / a path under OLD / the first component of OLD / a character trap of OLD."""
    olds = [o for o, _ in entries]
    modpaths = sorted(mods)
    members = [m + "." + x for m in modpaths for x in mods[m]]
    cands = modpaths + members
    und = [c for c in cands if any(under(c, o) for o in olds)]
    trap = [c for c in cands if c not in und and any(
        o in c or c in o or c.lower().startswith(o.lower()) or o.replace(".", "_") in c for o in olds)]
    imports = []      # (target, form, local)
    singles, plains_first = set(), set()
    star_done = []
    for _ in range(rng.randint(1, 6)):
        r = rng.random()
        if prefer and rng.random() < 0.5:
            tgt = rng.choice(prefer)
        elif und and r < 0.55:
            tgt = rng.choice(und)
        elif trap and r < 0.85:
            tgt = rng.choice(trap)
        else:
            tgt = rng.choice(cands)
        ismod = tgt in mods
        forms = []
        if ismod:
            forms += ["plain", "plain", "plainas"]
        if "." in tgt:
            forms += ["from", "from", "fromas"]
        form = rng.choice(forms)
        if ismod and not star_done and rng.random() < 0.1:
            # `from M import *`: binds M's members and sub-modules
            names = set(mods[tgt]) | {p.rsplit(".", 1)[1] for p in mods if p.startswith(tgt + ".")
                                      and p.count(".") == tgt.count(".") + 1}
            tops = {p.split(".")[0] for p in mods}
            if not (names & singles or names & plains_first or names & tops or
                    any(l.split(".")[0] in names for _, _, l in imports)):
                star_done.append(tgt)
                singles.update(names)
                imports.append((tgt, "star", "*"))
                continue
        if form == "plain":
            local = tgt
            if tgt.split(".")[0] in singles:
                continue
            plains_first.add(tgt.split(".")[0])
        else:
            if form == "from":
                local = tgt.rsplit(".", 1)[1]
            else:
                local = rng.choice(ALIASES)
                # rarely: the alias is the top-level package of the target (local name begins with OLD)
                if rng.random() < 0.05:
                    local = tgt.split(".")[0]
            if local in singles or local in plains_first:
                continue
            singles.add(local)
        if any(t == tgt and l == local for t, _, l in imports):
            continue
        imports.append((tgt, form, local))
    if not imports:
        tgt = rng.choice(und or modpaths)
        if tgt in mods:
            imports.append((tgt, "plain", tgt))
        else:
            imports.append((tgt, "from", tgt.rsplit(".", 1)[1]))

    # relative imports of sibling modules named like OLD (never under OLD: their dotted path begins with a dot)
    rel_stmts = []
    if rel:
        pparts = rel["pkg"].split(".")
        for _ in range(rng.randint(1, 3)):
            level = rng.randint(1, len(pparts))
            base = ".".join(pparts[:len(pparts) - level + 1])
            o = rng.choice(olds)
            r = rng.random()
            if r < 0.45:
                comp = o
            elif r < 0.65:
                comp = o + "." + rng.choice(SUBS)
            elif r < 0.85:
                comp = o.split(".")[0]
            else:
                comp = rng.choice(char_traps(o))
            tgt = base + "." + comp
            if any(tgt == m + "." + x for m in mods for x in mods[m]):
                continue
            rel["add"](tgt)
            dots = "." * level
            r = rng.random()
            alias = rng.choice(ALIASES) if rng.random() < 0.45 else None
            if r < 0.5:
                mem = rng.choice(mods[tgt])
                full, name, frm = tgt + "." + mem, mem, dots + comp
            elif "." in comp:
                full, name, frm = tgt, comp.rsplit(".", 1)[1], dots + comp.rsplit(".", 1)[0]
            else:
                full, name, frm = tgt, comp, dots
            local = alias or name
            if local in singles or local in plains_first or any(l.split(".")[0] == local for _, _, l in imports):
                continue
            singles.add(local)
            # an un-aliased local name that is the first word of some OLD is bound but never read: a body word
            # OLD must refer to an import of OLD (program domain)
            form = "relnouse" if any(local == x.split(".")[0] for x in olds) else "rel"
            rel_stmts.append(("from %s import %s%s" % (frm, name, " as " + alias if alias else ""),
                              [(full, form, local)]))

    def stmt_of(group):
        # group: list of imports sharing a statement
        t0, f0, l0 = group[0]
        if f0 == "star":
            return "from %s import *" % t0
        if f0 in ("plain", "plainas"):
            items = [t if f == "plain" else "%s as %s" % (t, l) for t, f, l in group]
            return "import " + ", ".join(items)
        mod = t0.rsplit(".", 1)[0]
        items = []
        for t, f, l in group:
            name = t.rsplit(".", 1)[1]
            items.append(name if (f == "from") else "%s as %s" % (name, l))
        style = rng.random()
        if len(items) > 1 and style < 0.25:
            return "from %s import (%s)" % (mod, ",\n    ".join(items))
        if style < 0.3:
            return "from %s import (%s)" % (mod, ", ".join(items))
        return "from %s import %s" % (mod, ", ".join(items))

    # group some imports into shared statements
    stmts = []
    pool = list(imports)
    rng.shuffle(pool)
    while pool:
        g = [pool.pop()]
        t0, f0, _ = g[0]
        for other in list(pool):
            if f0 == "star" or other[1] == "star":
                continue
            if rng.random() < 0.4:
                if f0 in ("plain", "plainas") and other[1] in ("plain", "plainas"):
                    g.append(other)
                    pool.remove(other)
                elif f0 in ("from", "fromas") and other[1] in ("from", "fromas") and \
                        other[0].rsplit(".", 1)[0] == t0.rsplit(".", 1)[0]:
                    g.append(other)
                    pool.remove(other)
        stmts.append((stmt_of(g), g))
    for rs in rel_stmts:
        stmts.insert(rng.randint(0, len(stmts)), rs)

    def ref_of(tgt, local):
        """An expression reading something through `local`."""
        cur, expr = tgt, local
        if cur in mods:
            # descend into submodules sometimes, then a member
            for _ in range(rng.randint(0, 2)):
                kids = [p for p in mods if p.startswith(cur + ".") and p.count(".") == cur.count(".") + 1]
                if not kids:
                    break
                k = rng.choice(kids)
                expr += "." + k.rsplit(".", 1)[1]
                cur = k
            if rng.random() < 0.85:
                mem = rng.choice(mods[cur])
                expr += "." + mem
                if rng.random() < 0.4:
                    expr += "(%s)" % rng.choice(["", "1", "'s'", "k=2"])
            else:
                expr += ".__name__"
        else:
            r = rng.random()
            if r < 0.4:
                expr += "(%s)" % rng.choice(["", "1", "'s', 2"])
            elif r < 0.6:
                expr += ".tag"
        return expr

    lines_top, lines_mid = [], []
    split_at = rng.choice([len(stmts)] * 3 + [rng.randint(0, len(stmts))])
    body1, body2 = [], []
    counter = [0]

    def use(tgt, local, dest):
        counter[0] += 1
        k = counter[0]
        e = ref_of(tgt, local)
        r = rng.random()
        if r < 0.35:
            dest.append("print(%s)" % e)
        elif r < 0.45:
            v = rng.choice(VARS)
            dest.append("h_%s%d = %s\nprint(h_%s%d)" % (v, k, e, v, k))
        elif r < 0.58:
            dest.append("def h_fn%d(p=%s):\n    return p, %s\nprint(h_fn%d())" % (k, e, ref_of(tgt, local), k))
        elif r < 0.66:
            dest.append("if True:\n    print(%s)" % e)
        elif r < 0.74:
            dest.append("class H_C%d:\n    attr = %s\n    def meth(self):\n        return %s\nprint(H_C%d.attr, H_C%d().meth())"
                        % (k, e, ref_of(tgt, local), k, k))
        elif r < 0.82:
            dest.append("print([%s, %s])" % (e, ref_of(tgt, local)))
        elif r < 0.9:
            dest.append("try:\n    print(%s)\nexcept NameError:\n    print('NE')" % e)
        else:
            dest.append("print(%s)  # noted" % e)

    for idx, (s, g) in enumerate(stmts):
        (lines_top if idx < split_at else lines_mid).append(s)
    for idx, (s, g) in enumerate(stmts):
        for tgt, form, local in g:
            if form == "relnouse":
                continue
            for _ in range(rng.randint(0, 3) if len(imports) > 1 else rng.randint(1, 3)):
                if form == "star":
                    # a star-imported member is read by its bare name
                    mem = rng.choice(mods[tgt])
                    utgt, ulocal = tgt + "." + mem, mem
                else:
                    utgt, ulocal = tgt, local
                if idx < split_at and rng.random() < 0.5 and lines_mid:
                    use(utgt, ulocal, body1)
                else:
                    use(utgt, ulocal, body2)
    # function-level imports (pyflyby treats them as plain text)
    if rng.random() < 0.04:
        for _ in range(rng.randint(1, 2)):
            counter[0] += 1
            k = counter[0]
            tgt = rng.choice(und or cands)
            forms = (["plain"] if tgt in mods else []) + (["from", "fromas"] if "." in tgt else [])
            form = rng.choice(forms)
            if form == "plain":
                if tgt.split(".")[0] in singles:
                    continue
                line, local = "import " + tgt, tgt
            elif form == "from":
                local = tgt.rsplit(".", 1)[1]
                if local in singles or local in plains_first:
                    continue
                line = "from %s import %s" % tuple(tgt.rsplit(".", 1))
            else:
                local = "nl%d" % k
                line = "from %s import %s as %s" % (tgt.rsplit(".", 1)[0], tgt.rsplit(".", 1)[1], local)
            body2.append("def h_gn%d():\n    %s\n    return %s\nprint(h_gn%d())" % (k, line, ref_of(tgt, local), k))
    rng.shuffle(body1)
    rng.shuffle(body2)
    head = rng.choice(["", "", "# module header\n", '"""doc"""\n', "#!/usr/bin/env python\n\n"])
    sep = rng.choice(["\n", "\n\n", "\n\n\n"])
    parts = [head + "\n".join(lines_top) + ("\n" if lines_top else "")]
    if body1 or lines_mid:
        parts.append(sep + "\n".join(body1 or ["h_res0 = 0"]) + "\n")
        if lines_mid:
            parts.append(rng.choice(["", "\n"]) + "\n".join(lines_mid) + "\n")
    parts.append(sep + "\n".join(body2 or ["print('done')"]) + "\n")
    text = "".join(parts)
    if rng.random() < 0.08:
        text = text.rstrip("\n")
    return text


CLI_DEFAULT_PARAMS = dict(align_imports=[32], from_spaces=3, separate_from_imports=False)


def gen_params(rng):
    if rng.random() < 0.2:
        # what bin/transform-imports and bin/tidy-imports use when no formatting option is given
        return dict(CLI_DEFAULT_PARAMS)
    p = {}
    for k, vs in PARAM_CHOICES.items():
        if rng.random() < 0.35:
            p[k] = rng.choice(vs)
    return p


_ALL_POOLS = dict(TOPS=list(TOPS), SUBS=list(SUBS), MEMBERS=list(MEMBERS), NEWTOPS=list(NEWTOPS),
                  NEWSUBS=list(NEWSUBS), ALIASES=list(ALIASES), LONGTOPS=list(LONGTOPS), LONGSUBS=list(LONGSUBS),
                  HOSTS=list(HOSTS), HOSTSUBS=list(HOSTSUBS))


def _set_pools(ascii_only):
    g = globals()
    for k, v in _ALL_POOLS.items():
        g[k] = [x for x in v if x.isascii()] if ascii_only else list(v)


def gen_odomain_case(rng, mode=None, chain=None, rel=None):
    # 40% of the cases draw from the ASCII halves of the pools only
    _set_pools(rng.random() < 0.4)
    try:
        return _gen_odomain_case(rng, mode, chain=chain, rel=rel)
    finally:
        _set_pools(False)


# ----------------------------------------------------------------------------
# the bin/tidy-imports route
# ----------------------------------------------------------------------------

def import_stmt(full, local):
    """source of an import statement binding `local` to `full`"""
    if local == full:
        return "import " + full
    if "." not in full:
        return "import %s as %s" % (full, local)
    mod, name = full.rsplit(".", 1)
    return "from %s import %s" % (mod, name) if name == local else "from %s import %s as %s" % (mod, name, local)


def gen_tidy_case(rng):
    """A file for `tidy-imports` plus an import database: the database knows names under their OLD paths and
    (route canonical) declares the renames in __canonical_imports__; the file is an in-domain program from which
    some import statements were REMOVED (tidy-imports adds them from the database), some are kept, some are
    already written against NEW.  Route transform: the map is given with --transform, nothing is removed."""
    _set_pools(rng.random() < 0.4)
    try:
        case = _gen_odomain_case(rng, mode="tidy", chain=False, rel=(rng.random() < 0.08))
    finally:
        _set_pools(False)
    entries, text = case["map"], case["text"]
    route = "canonical" if rng.random() < 0.8 else "transform"
    case["route"] = route
    tree = ast.parse(text)
    lines = text.split("\n")
    known, edits = [], []
    for node in tree.body:
        if not isinstance(node, (ast.Import, ast.ImportFrom)) or (isinstance(node, ast.ImportFrom) and node.level):
            continue
        if any(a.name == "*" for a in node.names):
            continue
        if isinstance(node, ast.Import):
            imps = [(a.name, a.asname or a.name) for a in node.names]
        else:
            imps = [(node.module + "." + a.name, a.asname or a.name) for a in node.names]
        simple = all("." not in l for _, l in imps)
        r = rng.random()
        if route == "transform" or not simple or r < 0.4 or "import *" in text:
            # (with a star import in the file tidy-imports cannot tell which names are missing)
            if simple and rng.random() < 0.4:
                known += [import_stmt(f, l) for f, l in imps]
            continue
        if r < 0.8 or any(under(n, o) for o, n in entries):
            # (no "already written against NEW" variant when a NEW lies under its own OLD: that import would
            #  be an import of OLD again)
            # removed: tidy-imports finds the name in the database, under its OLD path
            edits.append((node.lineno, node.end_lineno, []))
            known += [import_stmt(f, l) for f, l in imps]
        else:
            # already written against NEW
            new = []
            for f, l in imps:
                m = [(o, n) for o, n in entries if under(f, o)]
                new.append(import_stmt(rename(f, m[0][0], m[0][1]), l) if m else import_stmt(f, l))
            edits.append((node.lineno, node.end_lineno, new))
            if rng.random() < 0.5:
                known += [import_stmt(f, l) for f, l in imps]
    for lo, hi, new in sorted(edits, reverse=True):
        lines[lo - 1:hi] = new
    case["file"] = "\n".join(lines)
    case["known"] = list(dict.fromkeys(known))
    if route == "canonical":
        if len(entries) > 1 and rng.random() < 0.4:
            case["dbsplit"] = [rng.randint(1, len(entries) - 1)]
            if rng.random() < 0.5:
                case["dbfiles"] = 2          # the two assignments live in two files of PYFLYBY_PATH
        if rng.random() < 0.12:
            # a mandatory import under OLD: tidy-imports adds it to every file
            olds = [o for o, _ in entries]
            und = [m + "." + x for m in sorted(case["mods"]) for x in case["mods"][m]
                   if any(under(m + "." + x, o) for o in olds) and not m.split(".")[0] in HOSTS]
            if und:
                case["mandatory"] = [import_stmt(rng.choice(und), "hmand1")]
    case["params"] = {}
    return case


def gen_chain_map(rng, mods, add):
    """2-3 entries that chain: NEW of one entry is a dotted prefix of (or equal to) the OLD of another one, the
    first hop usually crossing to another top-level package ({old: new, new.util.helper: new.helpers.helper},
    {a.b: n, n: m.w}, {a: n, n.x.f: k.g}).  Returns (entries, the real paths the chained entry applies to)."""
    paths = sorted(mods)
    old1 = rng.choice(paths)
    if rng.random() < 0.5:
        old1 = old1.split(".")[0]
    new1 = fresh_new(rng, mods, [old1])
    below = [p for p in paths if under(p, old1)]
    r = rng.random()
    if r < 0.2:
        suffix = ""
    elif r < 0.85 and len(below) > 1:
        suffix = rng.choice([p for p in below if p != old1])[len(old1):]
    else:
        m = rng.choice(below)
        suffix = m[len(old1):] + "." + rng.choice(mods[m])          # a member
    old2 = new1 + suffix
    r = rng.random()
    if r < 0.5 and suffix:
        # a sibling path inside NEW_1's package (the re-organisation of the moved package)
        new2 = ".".join([new1] + [rng.choice(NEWSUBS) for _ in range(rng.choice([1, 1, 2]))])
        if rng.random() < 0.6:
            new2 += "." + suffix.rsplit(".", 1)[1]
    else:
        new2 = fresh_new(rng, mods, [old1, new1])
    entries = [[old1, new1], [old2, new2]]
    prefer = [p for p in paths if under(p, old1 + suffix)] + \
        [m + "." + x for m in paths for x in mods[m] if under(m + "." + x, old1 + suffix)]
    if rng.random() < 0.3:
        r = rng.random()
        taken = [old1, new1, old2, new2]
        if r < 0.5:
            # a third hop
            entries.append([new2, fresh_new(rng, mods, taken)])
        else:
            o3 = rng.choice(paths)
            if o3 not in taken and not related(o3, old1):
                entries.append([o3, fresh_new(rng, mods, taken)])
    if rng.random() < 0.25:
        rng.shuffle(entries)
    return entries, prefer


def gen_host_pkg(rng, add):
    pkg = ".".join([rng.choice(HOSTS)] + rng.sample(HOSTSUBS, rng.choice([0, 1, 1, 2])))
    add(pkg)
    return pkg


def _gen_odomain_case(rng, mode=None, chain=None, rel=None):
    for _ in range(60):
        mods, add = gen_universe(rng)
        is_chain = (rng.random() < 0.1) if chain is None else chain
        prefer = None
        if is_chain:
            entries, prefer = gen_chain_map(rng, mods, add)
            if not map_in_chain_domain(entries) or map_in_odomain(entries):
                continue
            dom_entries = entries + pulled_back(entries)
        else:
            entries = gen_map(rng, mods, add)
            if not map_in_odomain(entries):
                continue
            dom_entries = entries
        is_rel = (rng.random() < 0.12) if rel is None else rel
        relspec = dict(pkg=gen_host_pkg(rng, add), add=add) if is_rel else None
        for _ in range(6):
            text = gen_program(rng, mods, entries, prefer=prefer, rel=relspec)
            if rng.random() < 0.05:
                # a reference written with white space / a line break around a dot (known finding C18-D7 when the dot
                # is inside a dotted OLD)
                text = space_a_reference(rng, text, dom_entries) or text
            if not domain_problems(text, dom_entries):
                case = dict(map=entries, text=text, mods=mods, params=gen_params(rng),
                            mode=mode or rng.choice(["transform"] * 6 + ["canonical"] * 3), odomain=True)
                if is_chain:
                    case["chain"] = True
                if relspec and re.search(r"^from \.", text, re.M):
                    case["pkg"] = relspec["pkg"]
                if case["mode"] == "canonical" and len(entries) > 1 and rng.random() < 0.4:
                    case["dbsplit"] = [rng.randint(1, len(entries) - 1)]
                if case["mode"] == "canonical" and len(entries) > 1 and rng.random() < 0.15:
                    # one entry is forgotten by the database
                    case["forget"] = [rng.choice(entries)[0]]
                if case["mode"] not in ("cli", "tidy") and rng.random() < 0.15:
                    case["prior_calls"] = gen_prior_calls(rng, mods, entries, text, case["mode"])
                return case
    raise RuntimeError("gen_c18: could not build an in-domain case")


def gen_prior_calls(rng, mods, entries, text, mode):
    """Earlier calls made in the same process before the observed one (each call must be self-consistent,
    whatever was renamed before): same OLD keys with a different NEW, same map on another text, another order."""
    calls = []
    for _ in range(rng.choice([1, 1, 2, 3])):
        r = rng.random()
        route = mode if rng.random() < 0.6 else rng.choice(["transform", "canonical"])
        if r < 0.55:
            # same OLD keys (same order), different NEW, same program
            taken = [n for _, n in entries] + [o for o, _ in entries]
            m2 = []
            for o, n in entries:
                n2 = fresh_new(rng, mods, taken)
                taken.append(n2)
                m2.append([o, n2])
            calls.append(dict(text=text, map=m2, mode=route))
        elif r < 0.8:
            # same map, another program over the same universe
            calls.append(dict(text=gen_program(rng, mods, entries), map=[list(e) for e in entries], mode=route))
        elif r < 0.9 and len(entries) > 1:
            calls.append(dict(text=text, map=[list(e) for e in reversed(entries)], mode=route))
        else:
            # the inverse rename of the same program's output shape: NEW -> OLD
            calls.append(dict(text=text, map=[[n, o] for o, n in entries], mode=route))
    return calls


def gen_konly_case(rng):
    """Arbitrary maps (chains, swaps, OLD prefix of NEW, relative names) x small texts: correspondence only."""
    if rng.random() < 0.12:
        # two imports whose local names collide only after the rename (shadow filter of the rewritten block)
        k, v = rng.sample(["a", "b", "c", "x"], 2)
        other = rng.choice(["m", "m.n", "ab"])
        lines = ["from %s import %s" % (k, k), "import %s as %s" % (other, v) if rng.random() < 0.6
                 else "from %s import %s" % (other, v)]
        rng.shuffle(lines)
        return dict(map=[[k, v]], text="\n".join(lines) + "\n\nprint(%s, %s)\n" % (k, v), mods={},
                    params=gen_params(rng), mode="transform", odomain=False)
    names = ["a", "b", "c", "ab", "a_", "x", "a.b", "a.b.c", "a.bc", "b.a", "x.y", "x.a", "c.a.b", "a.a", "b.c"]
    if rng.random() < 0.3:
        # non-ASCII word characters next to ASCII ones (`éa` is one word for Python's `\w`)
        names = names + ["é", "éa", "aé", "é.b", "a.é", "模", "模.a", "a模", "β.é"]
    n = rng.randint(1, 4)
    keys = rng.sample(names, n)
    entries = [[k, rng.choice(names)] for k in keys]
    imps = []
    for _ in range(rng.randint(1, 5)):
        full = rng.choice(names + ["a.b.c.d", "ab.c", "a.b.cd"])
        r = rng.random()
        if r < 0.4:
            imps.append("import %s" % full)
        elif r < 0.55:
            imps.append("import %s as %s" % (full, rng.choice(["a", "b", "x", "loc"])))
        elif "." in full:
            m, nm = full.rsplit(".", 1)
            imps.append("from %s import %s%s" % (m, nm, rng.choice(["", "", " as a", " as b", " as loc"])))
        else:
            imps.append("import %s" % full)
    body = []
    for _ in range(rng.randint(0, 4)):
        body.append(_fmt(rng.choice(["print(%s)", "%s.f()", "v = obj.%s", "# %s here", "s = '%s'", "w = [%s]",
                                     "%s_x = 1", "x%s = 2", "print(%s.%s)", "y = %s.%s.z"]), rng, names))
    text = "\n".join(imps) + "\n\n" + "\n".join(body) + ("\n" if body else "")
    return dict(map=entries, text=text, mods={}, params=gen_params(rng), mode="transform", odomain=False)


def _fmt(tpl, rng, names):
    n = tpl.count("%s")
    return tpl % tuple(rng.choice(names) for _ in range(n))
