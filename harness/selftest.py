"""
Mutation self-test (development aid, not a registered command):
  python harness/selftest.py [seeded-id ...]
For each /verif/seeded/<id>/ (patch.diff + meta.json with "property"): make a scratch worktree of /repo outside
/repo and /verif, apply the patch, run the property's quick check with VERIF_REPO pointing at it, expect a
VIOLATION line and a replay that reproduces; then remove the worktree.
"""
import json, os, subprocess, sys, shutil, tempfile, time
VERIF = os.path.dirname(os.path.dirname(os.path.abspath(__file__)))

def sh(cmd, **kw):
    return subprocess.run(cmd, stdout=subprocess.PIPE, stderr=subprocess.STDOUT, text=True, **kw)

def main():
    ids = sys.argv[1:] or sorted(os.listdir(os.path.join(VERIF, "seeded")))
    rows = []
    for sid in ids:
        d = os.path.join(VERIF, "seeded", sid)
        if not os.path.exists(os.path.join(d, "patch.diff")):
            continue
        meta = json.load(open(os.path.join(d, "meta.json")))
        props = meta.get("checks") or [meta["property"]]
        wt = tempfile.mkdtemp(prefix="pfb_seed_wt_")
        os.rmdir(wt)
        r = sh(["git", "-C", "/repo", "worktree", "add", "--detach", wt, "HEAD"])
        try:
            r = sh(["git", "-C", wt, "apply", os.path.join(d, "patch.diff")])
            if r.returncode != 0:
                rows.append((sid, props, "PATCH-DOES-NOT-APPLY", r.stdout[-200:]))
                continue
            for prop in props:
                env = dict(os.environ, VERIF_REPO=wt, VERIF_SEED=os.environ.get("VERIF_SEED", "0"))
                t0 = time.time()
                r = sh([os.path.join(VERIF, "check"), prop, "--tier", "quick"], env=env, cwd=VERIF)
                vio = [l for l in r.stdout.splitlines() if l.startswith("VIOLATION")]
                status = "DETECTED" if (r.returncode == 1 and vio) else ("MISSED rc=%d" % r.returncode)
                detail = vio[0] if vio else r.stdout.strip().splitlines()[-1][:200]
                replay_ok = ""
                if vio and "no-failing-input-found" not in vio[0]:
                    path = vio[0].split("replay=")[1].split()[0]
                    rr = sh([os.path.join(VERIF, "check"), prop, "--replay", path], env=env, cwd=VERIF)
                    replay_ok = "replay-reproduces" if rr.returncode == 1 else "replay-rc=%d" % rr.returncode
                    # and the replay passes on the unchanged tree
                    env2 = dict(os.environ); env2.pop("VERIF_REPO", None)
                    rr2 = sh([os.path.join(VERIF, "check"), prop, "--replay", path], env=env2, cwd=VERIF)
                    replay_ok += " clean-rc=%d" % rr2.returncode
                rows.append((sid, prop, status, detail + " " + replay_ok + " (%.0fs)" % (time.time() - t0)))
        finally:
            sh(["git", "-C", "/repo", "worktree", "remove", "--force", wt])
            shutil.rmtree(wt, ignore_errors=True)
    for row in rows:
        print(" | ".join(str(x) for x in row))
    # record (development aid; the table in DESIGN.md section 11 is generated from this file)
    rp = os.environ.get("SELFTEST_RESULTS") or os.path.join(VERIF, "seeded", "RESULTS.json")
    res = json.load(open(rp)) if os.path.exists(rp) else {}
    for sid, prop, status, detail in rows:
        if isinstance(prop, list):
            prop = "+".join(prop)
        kind = status
        if status == "DETECTED":
            kind = "DETECTED (K/T only, no-failing-input-found)" if "no-failing-input-found" in detail else \
                   "DETECTED (failing input" + (", replay reproduces)" if "replay-reproduces" in detail else ")")
        res.setdefault(sid, {})[prop] = kind
    json.dump(res, open(rp, "w"), indent=1, sort_keys=True)

if __name__ == "__main__":
    main()
