"""
gen_exec — executable modules over a synthetic import universe, and the machinery to run
them with a trace of observable operations (for C02 / C04).

Universe (written to a temp dir by `write_universe`):
  pa/            package: f, g, K, C; submodules s1 (f, h, V), s2 (g, W)  — not imported by pa/__init__
  pb.py          f, n, q
  pc/sub/deep.py d          (pc, pc.sub packages)
  pd.py          __all__ = ['sa', 'sb'], also defines _hidden, sc
Every function logs its call to vt_trace.LOG and returns a token naming itself and its arguments.
"""
from __future__ import annotations

import io
import os
import sys
import contextlib

UNIVERSE_TOPS = ["pa", "pb", "pc", "pd", "Pq", "vt_trace"]

_FILES = {
    "vt_trace.py": '''
LOG = []
def call(name, args):
    LOG.append(("call", name, tuple(_norm(a) for a in args)))
    return Tok(name, args)
class Tok:
    def __init__(self, name, args):
        self.name = name; self.args = args
    def __repr__(self):
        return "<%s%r>" % (self.name, tuple(_norm(a) for a in self.args))
    def __call__(self, *a):
        return call(repr(self), a)
    def __add__(self, o):
        return Tok("add", (self, o))
    __radd__ = __add__
    def __getattr__(self, k):
        if k.startswith("__"):
            raise AttributeError(k)
        return Tok(self.name + "." + k, ())
    def __iter__(self):
        return iter(())
def _norm(a):
    import types
    if isinstance(a, types.ModuleType):
        return "module:" + a.__name__
    if isinstance(a, (int, str, float, type(None), bool)):
        return repr(a)
    if isinstance(a, (list, tuple)):
        return type(a).__name__ + repr([_norm(x) for x in a])
    if hasattr(a, "__vt_name__"):
        return "obj:" + a.__vt_name__
    if isinstance(a, Tok):
        return repr(a)
    if isinstance(a, (types.FunctionType, type)):
        return "def:" + a.__name__
    return "other:" + type(a).__name__
def named(name):
    def deco(f):
        f.__vt_name__ = name
        return f
    return deco
''',
    "pa/__init__.py": '''
import vt_trace as _t
@_t.named("pa.f")
def f(*a): return _t.call("pa.f", a)
@_t.named("pa.g")
def g(*a): return _t.call("pa.g", a)
K = 10
@_t.named("pa.C")
class C:
    def m(self, *a): return _t.call("pa.C.m", a)
''',
    "pa/s1.py": '''
import vt_trace as _t
@_t.named("pa.s1.f")
def f(*a): return _t.call("pa.s1.f", a)
@_t.named("pa.s1.h")
def h(*a): return _t.call("pa.s1.h", a)
V = 1
''',
    "pa/s2.py": '''
import vt_trace as _t
@_t.named("pa.s2.g")
def g(*a): return _t.call("pa.s2.g", a)
W = 2
''',
    "pb.py": '''
import vt_trace as _t
@_t.named("pb.f")
def f(*a): return _t.call("pb.f", a)
@_t.named("pb.q")
def q(*a): return _t.call("pb.q", a)
n = 5
''',
    "pc/__init__.py": "",
    "pc/sub/__init__.py": "",
    "pc/sub/deep.py": '''
import vt_trace as _t
@_t.named("pc.sub.deep.d")
def d(*a): return _t.call("pc.sub.deep.d", a)
''',
    # a capitalised module name: sorts before "__future__" and before every lower-case name
    "Pq.py": '''
import vt_trace as _t
@_t.named("Pq.zf")
def zf(*a): return _t.call("Pq.zf", a)
ZK = 7
''',
    "pd.py": '''
import vt_trace as _t
__all__ = ["sa", "sb"]
@_t.named("pd.sa")
def sa(*a): return _t.call("pd.sa", a)
@_t.named("pd.sb")
def sb(*a): return _t.call("pd.sb", a)
@_t.named("pd.sc")
def sc(*a): return _t.call("pd.sc", a)
''',
}


def write_universe(root):
    for rel, src in _FILES.items():
        p = os.path.join(root, rel)
        os.makedirs(os.path.dirname(p), exist_ok=True)
        with open(p, "w") as f:
            f.write(src.lstrip("\n"))
    return root


def purge_universe():
    for m in list(sys.modules):
        if m.split(".")[0] in UNIVERSE_TOPS:
            del sys.modules[m]


def run_program(text, root, extra_globals=None):
    """
    Execute `text` as a module in a fresh namespace with a freshly loaded universe.
    Returns dict(exc=None|"Type: msg", log=[...], out=str, globals={name: canonical}, doc=...).
    """
    purge_universe()
    if root not in sys.path:
        sys.path.insert(0, root)
    import importlib
    importlib.invalidate_caches()
    import vt_trace
    g = {"__name__": "__vt_main__", "__builtins__": __builtins__}
    if extra_globals:
        g.update(extra_globals)
    res = dict(exc=None)
    buf = io.StringIO()
    try:
        code = compile(text if text.endswith("\n") else text + "\n", "<program>", "exec", dont_inherit=True)
    except SyntaxError as e:
        res["exc"] = "SyntaxError: %s" % e.msg
        res.update(log=[], out="", globals={}, doc=None)
        purge_universe()
        return res
    try:
        with contextlib.redirect_stdout(buf):
            exec(code, g)
    except BaseException as e:  # noqa
        res["exc"] = "%s: %s" % (type(e).__name__, str(e)[:120])
    res["log"] = [list(map(str, ev)) for ev in vt_trace.LOG]
    res["out"] = buf.getvalue()
    gl = {}
    for k, v in g.items():
        if k.startswith("__") and k not in ("__all__", "__doc__"):
            continue
        gl[k] = vt_trace._norm(v)
    res["globals"] = gl
    res["doc"] = g.get("__doc__")
    purge_universe()
    return res


# --------------------------------------------------------------------------- program generator

IMPORT_FORMS = [
    # (statement, {bound name: kind}) kind: module path or "fn"/"int"/"cls"
    ("import pa", {"pa": "mod:pa"}),
    ("import pb", {"pb": "mod:pb"}),
    ("import pd", {"pd": "mod:pd"}),
    ("import pa.s1", {"pa": "mod:pa+s1"}),
    ("import pa.s2", {"pa": "mod:pa+s2"}),
    ("import pc.sub.deep", {"pc": "mod:pc+deep"}),
    ("import pa.s1 as z1", {"z1": "mod:pa.s1"}),
    ("import pb as pa", {"pa": "mod:pb"}),
    ("import pa as A", {"A": "mod:pa"}),
    ("from pa import s1", {"s1": "mod:pa.s1"}),
    ("from pa import s1 as sx", {"sx": "mod:pa.s1"}),
    ("from pa import f", {"f": "fn"}),
    ("from pa import f, g", {"f": "fn", "g": "fn"}),
    ("from pa import g as f", {"f": "fn"}),
    ("from pa import K", {"K": "int"}),
    ("from pa import C", {"C": "cls"}),
    ("from pa.s1 import f", {"f": "fn"}),
    ("from pa.s1 import h, V", {"h": "fn", "V": "int"}),
    ("from pa.s2 import g, W", {"g": "fn", "W": "int"}),
    ("from pb import f", {"f": "fn"}),
    ("from pb import n", {"n": "int"}),
    ("from pb import q as h", {"h": "fn"}),
    ("from pb import f as bf, q", {"bf": "fn", "q": "fn"}),
    ("from pc.sub import deep", {"deep": "mod:pc.sub.deep"}),
    ("from pc.sub.deep import d", {"d": "fn"}),
    ("from pd import *", {"sa": "fn", "sb": "fn"}),
    ("import pa, pb", {"pa": "mod:pa", "pb": "mod:pb"}),
    ("from pa import (f,\n    g as g2)", {"f": "fn", "g2": "fn"}),
    # bound names that are also builtins
    ("from pa import f as pow", {"pow": "fn"}),
    ("from pb import q as abs", {"abs": "fn"}),
    ("import pb as id", {"id": "mod:pb"}),
    ("from pa import K as max", {"max": "int"}),
    ("import Pq", {"Pq": "mod:Pq"}),
    ("from Pq import zf", {"zf": "fn"}),
    ("from Pq import ZK, zf as f", {"ZK": "int", "f": "fn"}),
]

MOD_ATTRS = {
    "pa": (["f", "g"], ["K"], ["C"]),
    "pb": (["f", "q"], ["n"], []),
    "pd": (["sa", "sb", "sc"], [], []),
    "pa.s1": (["f", "h"], ["V"], []),
    "pa.s2": (["g"], ["W"], []),
    "pc.sub.deep": (["d"], [], []),
    "Pq": (["zf"], ["ZK"], []),
}


def _callable_exprs(env, rng):
    """expressions (strings) that evaluate to something callable, given env name->kind"""
    out = []
    for name, kind in env.items():
        if kind == "fn":
            out.append(name)
        elif kind == "cls":
            out.append(name + "().m")
        elif kind.startswith("mod:"):
            spec = kind[4:]
            base, _, subs = spec.partition("+")
            for fn in MOD_ATTRS.get(base, ([], [], []))[0]:
                out.append("%s.%s" % (name, fn))
            if subs == "s1":
                out += [name + ".s1.f", name + ".s1.h"]
            elif subs == "s2":
                out += [name + ".s2.g"]
            elif subs == "deep":
                out += [name + ".sub.deep.d"]
    return out


def _value_exprs(env, rng):
    out = ["1", "'s'"]
    for name, kind in env.items():
        if kind == "int":
            out.append(name)
        elif kind == "val":
            out.append(name)
        elif kind.startswith("mod:"):
            base = kind[4:].partition("+")[0]
            for c in MOD_ATTRS.get(base, ([], [], []))[1]:
                out.append("%s.%s" % (name, c))
    return out


def gen_expr(env, rng, depth=0):
    calls = _callable_exprs(env, rng)
    vals = _value_exprs(env, rng)
    r = rng.random()
    if calls and (r < 0.6 or depth == 0):
        fn = rng.choice(calls)
        nargs = rng.randint(0, 2)
        args = [gen_expr(env, rng, depth + 1) if rng.random() < 0.3 and depth < 2 else rng.choice(vals) for _ in range(nargs)]
        return "%s(%s)" % (fn, ", ".join(args))
    if r < 0.8:
        return rng.choice(vals)
    if r < 0.85 and calls:
        return "[%s(i) for i in (1, 2)]" % rng.choice(calls)
    if r < 0.9 and calls:
        return rng.choice(["list(%s(i) for i in (1, 2))", "sum(1 for i in (1, 2) if %s(i))", "{i: %s(i) for i in (1,)}"]) % rng.choice(calls)
    if calls:
        return "(lambda t: %s(t))(3)" % rng.choice(calls)
    return rng.choice(vals)


def gen_program(rng, missing_names=None, max_stmts=8, allow_nested_imports=True):
    """
    Returns text of a module.  `missing_names`: list of (name, kind) that may be *used without binding*
    (C04: the database knows them).  The caller rejects programs whose original run raises (unless missing).
    """
    env = {}
    lines = []
    funcs = []       # names of defined functions to call at the end
    r0 = rng.random()
    if r0 < 0.45:
        head = rng.choice(["", "", "#!/usr/bin/env python\n", "# licence line\n# second line\n", "# header comment\n\n"])
        doc = rng.choice(['"""Doc."""', '"""Doc.\n\n  >>> f(1)\n"""', "",
                          '"""Doc.\n\n    >>> from pa import f\n    >>> f(2)\n"""',
                          "'''Multi\nline doc\n'''"])
        pre = (head + doc).rstrip("\n")
        if pre:
            lines.append(pre)
    if rng.random() < 0.15:
        lines.append("from __future__ import annotations")
    n = rng.randint(2, max_stmts)
    have_all = False
    for _ in range(n):
        r = rng.random()
        uenv = dict(env)
        if missing_names and rng.random() < 0.35:
            nm, kd = rng.choice(missing_names)
            if nm not in uenv:
                uenv[nm] = kd
        if r < 0.38:
            stmt, binds = rng.choice(IMPORT_FORMS)
            k = rng.random()
            if k < 0.12 and allow_nested_imports:
                lines.append("try:\n    %s\nexcept ImportError:\n    pass" % stmt.replace("\n", "\n    "))
            elif k < 0.2 and allow_nested_imports:
                lines.append("if True:\n    %s" % stmt.replace("\n", "\n    "))
            elif k < 0.3 and lines and not lines[-1].startswith(("def ", "class ", "try", "if ", '"""', "#", "from __future__")) and "\n" not in lines[-1]:
                lines[-1] = lines[-1] + "; " + stmt if "\n" not in stmt else lines[-1]
                if "\n" in stmt:
                    lines.append(stmt)
            else:
                lines.append(stmt + ("  # why" if rng.random() < 0.1 and "\n" not in stmt else ""))
            for b, kd in binds.items():
                if kd.startswith("mod:") and b in env and env[b].startswith("mod:") and "+" in kd and env[b].partition("+")[0] == kd.partition("+")[0]:
                    # import pa.s1 after import pa.s2: both submodules reachable; keep it simple: last wins in our env
                    env[b] = kd
                else:
                    env[b] = kd
        elif r < 0.62:
            e = gen_expr(uenv, rng)
            tgt = rng.choice(["v", "w", "x", None, None])
            if tgt:
                lines.append("%s = %s" % (tgt, e))
                env[tgt] = "val"
            else:
                lines.append(rng.choice(["print(%s)", "%s"]) % e)
        elif r < 0.645:
            # namespace clean-up: `del` of imported names (read before or never read)
            cand = [k for k, v in env.items() if v in ("fn", "int", "cls") or v.startswith("mod:")]
            if cand:
                ks = rng.sample(cand, min(len(cand), rng.randint(1, 2)))
                lines.append("del " + ", ".join(ks))
                for k0 in ks:
                    env.pop(k0, None)
            else:
                lines.append("pass")
        elif r < 0.70:
            ints = [k for k, v in uenv.items() if v == "int"]
            if ints:
                nm = rng.choice(ints)
                lines.append("%s = %s + 1" % (nm, nm))
                env[nm] = "int"
            else:
                lines.append("pass")
        elif r < 0.82:
            fname = "fn%d" % len(funcs)
            body_env = dict(uenv)
            body = []
            if rng.random() < 0.25 and allow_nested_imports:
                stmt, binds = rng.choice(IMPORT_FORMS[:24])
                if "*" not in stmt:
                    body.append("    " + stmt.replace("\n", "\n    "))
                    body_env.update(binds)
            late = None
            if rng.random() < 0.2:
                # the body reads a name that is imported at module level only after the def (the function runs at the end)
                stmt, binds = rng.choice(IMPORT_FORMS)
                if "*" not in stmt:
                    late = (stmt, binds)
                    body_env.update(binds)
            rq = rng.random()
            if rq < 0.15:
                body.append("    key = lambda t: t")
            elif rq < 0.3:
                body.append("    def inner(t):\n        return t")
            elif rq < 0.36:
                body.append("    class Loc:\n        z = 0")
            body.append("    return %s" % gen_expr(body_env, rng))
            deco = ""
            if rng.random() < 0.15 and _callable_exprs(uenv, rng):
                deco = ""  # decorators would change call protocol; use default arg instead
            default = ""
            r1 = rng.random()
            if r1 < 0.3:
                default = "a=%s" % rng.choice(_value_exprs(uenv, rng))
            elif r1 < 0.45:
                # a parameter that shadows a module-level name (the body then reads the parameter)
                shadow = [k for k, v in uenv.items() if v in ("fn", "int", "cls") or v.startswith("mod:")]
                if shadow:
                    nm = rng.choice(shadow)
                    default = rng.choice(["%s=1", "%s=1, /", "*, %s=1", "*%s", "**%s", "a0=0, /, *, %s=2"]) % nm
                    body = ["    return %s" % nm]
            if rng.random() < 0.15:
                fns = [k for k, v in uenv.items() if v == "fn"]
                if fns:
                    nm = rng.choice(fns)
                    src = rng.choice(["pa", "pb"]) if nm in ("f",) else None
                    dt = ('    """\n    >>> %s(1)\n    """' % nm) if not src else (
                        '    """\n    >>> from %s import %s\n    >>> %s(1)\n    """' % (src, nm, nm))
                    body.insert(0, dt)
            lines.append("def %s(%s):\n%s" % (fname, default, "\n".join(body)))
            funcs.append(fname)
            env[fname] = "localfn"
            if late:
                lines.append(late[0])
                env.update(late[1])
        elif r < 0.90:
            cname = "K%d" % len(lines)
            attr = gen_expr(uenv, rng)
            meth_env = dict(uenv)
            lines.append("class %s:\n    a = %s\n    def m(self):\n        return %s" % (cname, attr, gen_expr(meth_env, rng)))
            funcs.append(cname + "().m")
        elif r < 0.93:
            # newer / rarer statement forms around reads of imported names
            e1, e2 = gen_expr(uenv, rng), gen_expr(uenv, rng)
            k = rng.random()
            mods = [n for n, kd in uenv.items() if kd.startswith("mod:") and MOD_ATTRS.get(kd[4:].partition("+")[0], ([], [], []))[1]]
            if mods and rng.random() < 0.45:
                # an imported module read ONLY in a position some visitors forget: match-pattern values, walrus value,
                # parameter annotation next to a same-named parameter, type-parameter bound, mapping-pattern key
                m0 = rng.choice(mods)
                c0 = rng.choice(MOD_ATTRS[uenv[m0][4:].partition("+")[0]][1])
                kk = rng.random()
                fname = "fn%d" % len(funcs)
                if kk < 0.2:
                    lines.append("def %s(v=%s.%s):\n    match v:\n        case %s.%s as y0:\n            return y0\n        case _:\n            return 0" % (fname, m0, c0, m0, c0))
                elif kk < 0.28:
                    lines.append("def %s(v=%s.%s):\n    match {v: 1}:\n        case {%s.%s: d0, **rest0}:\n            return d0\n    return -1" % (fname, m0, c0, m0, c0))
                elif kk < 0.35:
                    lines.append("def %s(v=%s.%s):\n    match {1: v}:\n        case {1: %s.%s | 0 as z0, **rest0}:\n            return z0\n    return -1" % (fname, m0, c0, m0, c0))
                elif kk < 0.5:
                    lines.append("def %s():\n    return (t0 := %s.%s)" % (fname, m0, c0))
                elif kk < 0.65:
                    lines.append("def %s(%s=1, y0: %s.%s = 2):\n    return (%s, y0)" % (fname, m0, m0, c0, m0))
                elif kk < 0.8:
                    lines.append("def %s[T0: %s.%s](a0: T0 = 3) -> T0:\n    return a0" % (fname, m0, c0))
                elif kk < 0.9:
                    lines.append("class G%d[T0: %s.%s]:\n    pass\ndef %s():\n    return 1" % (len(lines), m0, c0, fname))
                else:
                    lines.append("type Al%d[T0: %s.%s] = list[T0]\ndef %s():\n    return 2" % (len(lines), m0, c0, fname))
                funcs.append(fname)
                env[fname] = "localfn"
            elif k < 0.2:
                lines.append("match %s:\n    case 1 | 2:\n        print(%s)\n    case [a0, *b0] if a0:\n        print(a0)\n    case _:\n        print(%s)" % (rng.choice(["1", "3", "[1, 2]"]), e1, e2))
            elif k < 0.35:
                lines.append("if (w0 := %s) is not None:\n    print(w0, %s)" % (e1, e2))
                env["w0"] = "val"
            elif k < 0.5:
                lines.append("try:\n    print(%s)\nexcept* ValueError as eg0:\n    print(%s)" % (e1, e2))
            elif k < 0.62:
                lines.append("for i0 in (1, 2):\n    print(i0, %s)\nelse:\n    print(%s)" % (e1, e2))
                env["i0"] = "val"
            elif k < 0.74:
                fname = "fn%d" % len(funcs)
                lines.append("@(lambda fn: fn)\ndef %s[T](a: T = %s, /, *ar, k0=%s, **kw) -> 'T':\n    return a" % (fname, rng.choice(_value_exprs(uenv, rng)), rng.choice(_value_exprs(uenv, rng))))
                funcs.append(fname)
                env[fname] = "localfn"
            elif k < 0.86:
                fname = "fn%d" % len(funcs)
                lines.append("def %s():\n    acc = []\n    def inner():\n        nonlocal acc\n        acc.append(%s)\n        return acc\n    return inner()" % (fname, e1))
                funcs.append(fname)
                env[fname] = "localfn"
            elif k < 0.90:
                lines.append("async def co%d():\n    async with %s as cm0:\n        return [j async for j in %s]" % (len(lines), e1, e2))
            elif k < 0.94:
                # decorated coroutine / class: the decorator call is an observable operation and its lines belong to
                # the definition, not to an import statement in front of it
                decos = _callable_exprs(uenv, rng) or ["(lambda fn: fn)"]
                d1 = rng.choice(decos)
                if rng.random() < 0.6:
                    lines.append("@%s\n%sasync def co%d():\n    return 1" % (d1, "@(lambda fn: fn)\n" if rng.random() < 0.3 else "", len(lines)))
                else:
                    lines.append("@%s\nclass Deco%d:\n    pass" % (d1, len(lines)))
            else:
                # a bare annotation declares, it does not bind: the imported name stays what the import made it
                cands = [n for n, kd in env.items() if kd in ("fn", "int", "cls") or kd.startswith("mod:")]
                if cands:
                    nm = rng.choice(cands)
                    if rng.random() < 0.5:
                        lines.append("%s: int" % nm)
                    else:
                        lines.append("class Fld%d:\n    %s: int\n    y0 = %s" % (len(lines), nm, nm))
                else:
                    lines.append("pass")
        elif r < 0.96 and not have_all:
            names = [k for k, v in env.items() if v in ("fn", "int", "cls") or v.startswith("mod:")]
            if names:
                lines.append("__all__ = %r" % (rng.sample(names, min(len(names), rng.randint(1, 2))),))
                have_all = True
            else:
                lines.append("pass")
        else:
            lines.append(rng.choice(["# comment", "", "pass"]))
    if missing_names and rng.random() < 0.15:
        nm, kd = rng.choice(missing_names)
        if kd == "fn" and nm not in env:
            at = rng.randint(0, len(lines))
            lines.insert(at, "print(list(%s(i) for i in (1,)))" % nm)
            lines.append(rng.choice(["%s = len" % nm, "def %s(*a):\n    return a" % nm, "from pb import q as %s" % nm]))
    for f in funcs:
        lines.append("print(%s())" % f)
    text = "\n".join(lines) + "\n"
    return text
