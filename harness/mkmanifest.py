"""Regenerate MANIFEST.json from the table below (keeps it schema-valid at all times)."""
import json, os, sys
HERE = os.path.dirname(os.path.dirname(os.path.abspath(__file__)))
sys.path.insert(0, os.path.join(HERE, "harness"))
CHECKS = {}
for f in sorted(os.listdir(os.path.join(HERE, "harness", "manifest"))):
    if f.endswith(".json") and f.startswith("C"):
        CHECKS[f[:-5]] = json.load(open(os.path.join(HERE, "harness", "manifest", f)))
# only checks the lead has integrated (reviewed, run for several seeds, fixes applied) are registered
reg_path = os.path.join(HERE, "harness", "manifest", "registered.txt")
if os.path.exists(reg_path):
    allowed = set(open(reg_path).read().split())
    CHECKS = {k: v for k, v in CHECKS.items() if k in allowed}
NOT_APPLICABLE = {}
na_path = os.path.join(HERE, "harness", "manifest", "not_applicable.json")
if os.path.exists(na_path):
    NOT_APPLICABLE = json.load(open(na_path))

ALL = ["C%02d" % i for i in range(1, 21)]
checks = []
for pid in ALL:
    if pid not in CHECKS:
        continue
    c = CHECKS[pid]
    checks.append(dict(
        property_id=pid,
        quick_cmd=f"./check {pid} --tier quick",
        thorough_cmd=f"./check {pid} --tier thorough",
        evidence_file=f"evidence/{pid}.json",
        replay_cmd_template="./check " + pid + " --replay {path}",
        engine="lean4+correspondence",
        level_claimed=dict(category="proof", text=c["text"], design_ref=c.get("design_ref", "DESIGN.md section 5 " + pid)),
        level_note=c["note"],
        technique=c.get("technique", "Lean 4 theorems about a hand-written executable model + differential correspondence check model vs implementation + direct oracle on the real code"),
    ))
na = [dict(property_id=p, reason=NOT_APPLICABLE.get(p, "check not built yet in this session (work in progress); no claim is made")) for p in ALL if p not in CHECKS]
man = dict(
    version=1,
    setup_cmd="/venv/bin/python harness/setup.py",
    hooks=dict(guard="DESHAW_PYFLYBY_VERIF", enable="no source hooks: the harness instruments from outside (monkey-patching, fault injection); checks set DESHAW_PYFLYBY_VERIF=1 for uniformity",
               baseline_off_cmd="cd /repo && /venv/bin/python -m pytest -ra -q -p no:cacheprovider --timeout=900 --continue-on-collection-errors",
               source_commits=[], add_only=True),
    engines=[dict(name="lean4+correspondence", path="lean/", serves_properties=sorted(CHECKS),
                  kind_free_text="Lean 4.33 proofs over hand-written models (lean/Pfb), tied to /repo by harness/*.py differential checks through Driver/*.lean line protocol")],
    checks=checks,
    not_applicable=na,
    notes="See DESIGN.md. Every check: ./check Cxx --tier quick|thorough; exit 0 held / 1 violation / 2 infrastructure.",
)
json.dump(man, open(os.path.join(HERE, "MANIFEST.json"), "w"), indent=1)
try:
    import jsonschema
    jsonschema.validate(man, json.load(open("/root/.vp/MANIFEST.schema.json")))
    print("MANIFEST.json valid;", len(checks), "checks,", len(na), "not_applicable")
except ImportError:
    print("written (jsonschema not available to validate)")
