"""Run the repository's pinned test-suite (guard off) and compare with /root/.vp/BASELINE.json stable_pass."""
import json, os, signal, subprocess, sys, tempfile
import xml.etree.ElementTree as ET
repo = os.environ.get("VERIF_REPO", "/repo")
base = json.load(open("/root/.vp/BASELINE.json"))
# a job started with "&" from a non-interactive shell inherits SIGINT ignored; tests/test_saveframe.py sends SIGINT to
# its children and needs the default disposition
signal.signal(signal.SIGINT, signal.default_int_handler)
with tempfile.TemporaryDirectory() as d:
    x = os.path.join(d, "j.xml")
    env = dict(os.environ); env.pop("DESHAW_PYFLYBY_VERIF", None)
    p = subprocess.run(["/venv/bin/python", "-m", "pytest", "-ra", "-q", "-p", "no:cacheprovider", "--timeout=900",
                        "--continue-on-collection-errors", "--junitxml=" + x] + sys.argv[1:], cwd=repo, env=env,
                       stdout=subprocess.PIPE, stderr=subprocess.STDOUT, text=True)
    passed = set()
    for tc in ET.parse(x).getroot().iter("testcase"):
        if not any(ch.tag in ("failure", "error", "skipped") for ch in tc):
            passed.add(tc.get("classname") + "::" + tc.get("name"))
want = set(base["stable_pass"])
if sys.argv[1:]:
    mods = {a.replace("/", ".").removesuffix(".py") for a in sys.argv[1:]}
    want = {w for w in want if w.split("::")[0] in mods}
missing = sorted(want - passed)
print(f"passed={len(passed)} stable_pass={len(want)} missing={len(missing)}")
for m in missing[:20]:
    print("  NOT PASSING:", m)
sys.exit(1 if missing else 0)
