import Pfb.Hooks.Drv
def main : IO Unit := Pfb.Drv.serve Pfb.Hooks.Drv.handle
