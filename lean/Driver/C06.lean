import Pfb.AutoImp.Drv
def main : IO Unit := Pfb.Drv.serve Pfb.AutoImp.Drv.handle
