import Pfb.DriverUtil
import Pfb.C17.Props
open Lean Pfb Pfb.Drv Pfb.C17

/-! Line-protocol driver for C17 (JSON glue; part of the trusted base, not of the model). -/

def errS : Err → String
  | .framesCommaStr => "frames_comma_str"
  | .framesCommaItem => "frames_comma_item"
  | .framesTooManyRanges => "frames_too_many_ranges"
  | .frameColonCount => "frame_colon_count"
  | .frameEmptyFile => "frame_empty_file"
  | .frameBadLineno => "frame_bad_lineno"
  | .rangeNoMatch => "range_no_match"
  | .bothFilters => "both_filters"
  | .varsCommaStr => "vars_comma_str"
  | .varsType => "vars_type"
  | .varsItemType => "vars_item_type"
  | .regexError => "regex_error"
  | .noFrames => "no_frames"
  | .internal => "internal"

def rerrS : Reader.RErr → String
  | .badField => "bad_field"
  | .idxForExceptionField => "idx_for_exception_field"
  | .idxType => "idx_type"
  | .badIdx => "bad_idx"
  | .varItemType => "var_item_type"
  | .varsType => "vars_type"
  | .noVars => "no_vars"
  | .notFound => "not_found"
  | .notFoundInFrame => "not_found_in_frame"
  | .internal => "internal"

def localOf (j : Json) : Except String Local := do
  let a ← j.getArr?
  if a.size ≠ 3 then throw "local"
  let n ← a[0]!.getStr?
  let v ← a[1]!.getStr?
  let p ← a[2]!.getBool?
  pure ⟨toStr n, toStr v, p⟩

def frameOf (j : Json) : Except String Frame := do
  let ls ← (← jarr j "locals").toList.mapM localOf
  pure { fid := ← jnat j "fid", file := toStr (← jstr j "file"), line := ← jnat j "line",
         name := toStr (← jstr j "name"), qual := toStr (← jstr j "qual"), locals := ls,
         modname := toStr (← jstr j "mod"), code := toStr (← jstr j "code"), funobj := toStr (← jstr j "fun") }

partial def excOf (j : Json) : Except String Exc := do
  let tb ← (← jarr j "tb").toList.mapM frameOf
  let cause ← match jopt j "cause" with
    | some c => do pure (some (← excOf c))
    | none => pure none
  let context ← match jopt j "context" with
    | some c => do pure (some (← excOf c))
    | none => pure none
  let sup ← jbool j "suppress"
  pure (Exc.mk tb cause context sup)

def framesArgOf (j : Json) : Except String FramesArg :=
  match jopt j "frames" with
  | none => pure .none
  | some f =>
    match f.getObjVal? "int" with
    | .ok n => do pure (.int (← n.getInt?))
    | .error _ =>
      match f.getObjVal? "str" with
      | .ok s => do pure (.str (toStr (← s.getStr?)))
      | .error _ => do
        let l ← jarr f "list"
        pure (.list (← jStrList l))

def varItemOf (j : Json) : VarItem :=
  match j.getStr? with
  | .ok s => .s (toStr s)
  | .error _ => .other

def varArgOf (j : Json) (k : String) : Except String VarArg :=
  match jopt j k with
  | none => pure .none
  | some f =>
    match f.getObjVal? "str" with
    | .ok s => do pure (.str (toStr (← s.getStr?)))
    | .error _ =>
      match f.getObjVal? "list" with
      | .ok l => do pure (.list ((← l.getArr?).toList.map varItemOf))
      | .error _ => do pure (.other (← jbool f "other"))

def utilOf (s : String) : Util := if s = "function" then .function else .script

/-- the `re` table: regex ↦ null (does not compile) | [[filename, matched]…] -/
def rxOf (j : Json) : Except String (List (Str × Option (List (Str × Bool)))) := do
  let rows ← jarr j "rx"
  rows.toList.mapM fun r => do
    let a ← r.getArr?
    if a.size ≠ 2 then throw "rx row"
    let rgx ← a[0]!.getStr?
    match a[1]! with
    | .null => pure (toStr rgx, none)
    | t => do
      let ps ← (← t.getArr?).toList.mapM fun p => do
        let pa ← p.getArr?
        if pa.size ≠ 2 then throw "rx pair"
        pure (toStr (← pa[0]!.getStr?), ← pa[1]!.getBool?)
      pure (toStr rgx, some ps)

def mkRx (tbl : List (Str × Option (List (Str × Bool)))) : Rx := fun r =>
  match tbl.lookup r with
  | some (some ps) => some (fun file => (ps.lookup file).getD false)
  | _ => none

def patRegexes : Parsed → List Str
  | .list ps => ps.filterMap fun p => match p with | .pat r _ _ => some r | .openEnd => none
  | .range a b => [a, b].filterMap fun p => match p with | .pat r _ _ => some r | .openEnd => none
  | _ => []

def pairsJ (l : List (Str × Str)) : Json :=
  Json.arr (l.map fun p => Json.arr #[strJ p.1, strJ p.2]).toArray

def rvalJ : Reader.RVal → Json
  | .v s => Json.mkObj [("v", strJ s)]
  | .m l => Json.mkObj [("m", Json.arr (l.map fun p => Json.arr #[natJ p.1, strJ p.2]).toArray)]
  | .d l => Json.mkObj [("d", pairsJ l)]
  | .mm l => Json.mkObj [("mm", Json.arr (l.map fun p => Json.arr #[natJ p.1, pairsJ p.2]).toArray)]
  | .names l => Json.mkObj [("l", strsJ l)]
  | .vnames l => Json.mkObj [("vn", Json.arr (l.map fun p => Json.arr #[natJ p.1, strsJ p.2]).toArray)]

def idxOf (j : Json) : Reader.Idx :=
  match jopt j "idx" with
  | none => .none
  | some v => match v.getInt? with
    | .ok n => .int n
    | .error _ => .other

def queryJ (d : Reader.Data) (q : Json) : Except String Json := do
  let kind ← jstr q "q"
  let res : Except Reader.RErr Reader.RVal ←
    match kind with
    | "metadata" => pure (.ok Reader.metadata)
    | "variables" => pure (.ok (Reader.variables d))
    | "gm" => do
      let f ← jstr q "field"
      pure (Reader.getMetadata d (toStr f) (idxOf q))
    | "gv" => do
      let v ← jobj q "vars"
      let qv : Reader.QVars := match v.getStr? with
        | .ok s => .single (toStr s)
        | .error _ => match v.getArr? with
          | .ok a => .list (a.toList.map varItemOf)
          | .error _ => .other
      pure (Reader.getVariables d qv (idxOf q))
    | _ => throw s!"unknown query {kind}"
  match res with
  | .ok r => pure (Json.mkObj [("ok", rvalJ r)])
  | .error e => pure (Json.mkObj [("err", Json.str (rerrS e))])

def entryJ (e : Entry) : Json :=
  Json.mkObj [("key", natJ e.key), ("fid", natJ e.frame.fid), ("vars", pairsJ e.vars)]

def enodeOf (j : Json) : Except String ENode := do
  let tb ← (← jarr j "tb").toList.mapM frameOf
  let cause := (jopt j "cause").bind fun v => (v.getNat?).toOption
  let context := (jopt j "context").bind fun v => (v.getNat?).toOption
  pure ⟨tb, cause, context, ← jbool j "suppress"⟩

def handle (j : Json) : Except String Json := do
  let op ← jstr j "op"
  match op with
  | "chain" =>
    -- the exception chain as an object graph (links are indices, cycles allowed), walked with the visited set
    let c ← jobj j "cfg"
    let cfg : Cfg := { d7fixed := ← jbool c "d7", d2fixed := ← jbool c "d2" }
    let g ← (← jarr j "nodes").toList.mapM enodeOf
    let start := (jopt j "start").bind fun v => (v.getNat?).toOption
    pure (Json.mkObj [("fids", Json.arr ((allFramesG cfg g start).map fun f => natJ f.fid).toArray),
                      ("visited", Json.arr ((visitG cfg g (g.length + 1) [] start).map natJ).toArray)])
  | "save" =>
    let c ← jobj j "cfg"
    let cfg : Cfg := { d7fixed := ← jbool c "d7", d2fixed := ← jbool c "d2" }
    let args : Args := { frames := ← framesArgOf j, vars := ← varArgOf j "vars", excl := ← varArgOf j "excl",
                         util := utilOf (← jstr j "util") }
    let e ← excOf (← jobj j "exc")
    let tbl ← rxOf j
    -- every regex the model will ask for must be in the table (else the harness is at fault)
    let missing := match validateFrames args.frames args.util with
      | .ok p => (patRegexes p).filter fun r => (tbl.lookup r).isNone
      | .error _ => []
    if !missing.isEmpty then
      return Json.mkObj [("rxmiss", strsJ missing)]
    let nframes := (allFrames cfg e).length
    match save cfg (mkRx tbl) args e with
    | .error er => pure (Json.mkObj [("err", Json.str (errS er)), ("nframes", natJ nframes)])
    | .ok es =>
      let excf ← (← jarr j "excf").toList.mapM fun p => do
        let a ← p.getArr?
        if a.size ≠ 2 then throw "excf"
        pure (toStr (← a[0]!.getStr?), toStr (← a[1]!.getStr?))
      let d : Reader.Data := ⟨es, excf⟩
      let qs ← (← jarr j "queries").toList.mapM (queryJ d)
      pure (Json.mkObj [("ok", Json.arr (es.map entryJ).toArray), ("reader", Json.arr qs.toArray),
                        ("nframes", natJ nframes)])
  | "open" =>
    let file := match jopt j "exists" with
      | some m => (m.getNat?).toOption
      | none => none
    let u ← jnat j "umask"
    let s := openFile ⟨file, u⟩
    pure (Json.mkObj [("file", match s.file with | some m => natJ m | none => Json.null), ("umask", natJ s.umask)])
  | "pyint" =>
    let s ← jstr j "s"
    pure (Json.mkObj [("ok", match pyInt (toStr s) with | some n => Json.num (JsonNumber.fromInt n) | none => Json.null)])
  | "ident" =>
    let s ← jstr j "s"
    pure (Json.mkObj [("ok", Json.bool (validName (toStr s)))])
  | _ => throw s!"unknown op {op}"

def main : IO Unit := serve handle
