import Pfb.DriverUtil
import Pfb.Blocks.Model
open Lean Pfb Pfb.Drv Pfb.Blocks

def impOf (j : Json) : Except String Imp := do
  let a ← j.getArr?
  if a.size ≠ 2 then throw "imp"
  pure ⟨toStr (← a[0]!.getStr?), toStr (← a[1]!.getStr?)⟩

def impsOf (j : Json) (k : String) : Except String (List Imp) := do
  (← jarr j k).toList.mapM impOf

def stmtOf (j : Json) : Except String Stmt := do
  let kind ← jstr j "kind"
  let k := match kind with | "comment" => SKind.comment | "docstr" => SKind.docstr | _ => SKind.other
  pure ⟨toStr (← jstr j "text"), k, ← jbool j "is_import", ← impsOf j "imports", ← jnat j "line",
        (jnat j "col").toOption.getD 1⟩

def impLe (a b : Imp) : Bool :=
  strLt a.fullname b.fullname || (a.fullname = b.fullname && strLe a.importAs b.importAs)

def impJ (i : Imp) : Json := Json.arr #[strJ i.fullname, strJ i.importAs]

def blockJ : Block → Json
  | .verbatim ss ins => Json.mkObj [("kind", "verbatim"), ("text", strJ (stmtsText ss)), ("inserted", Json.bool ins)]
  | .imports _ _ _ _ _ set => Json.mkObj [("kind", "imports"),
      ("imports", Json.arr ((set.mergeSort impLe).map impJ).toArray)]

def errJ : Err → Json
  | .lineNumberAmbiguous => "LineNumberAmbiguousError"
  | .multipleImportsToRemove => "Exception"
  | .importAlreadyExists => "ImportAlreadyExistsError"

def handle (j : Json) : Except String Json := do
  let op ← jstr j "op"
  let ss ← (← jarr j "stmts").toList.mapM stmtOf
  match op with
  | "reformat" =>
    if hasConflict (reformat ss).blocks then pure (Json.mkObj [("err", "ConflictingImportsError")]) else
    pure (Json.mkObj [("ok", Json.arr ((reformat ss).blocks.map blockJ).toArray)])
  | "tidy2" =>
    let unused ← (← jarr j "unused").toList.mapM fun u => do
      let a ← u.getArr?
      pure ((← a[0]!.getNat?), (⟨toStr (← a[1]!.getStr?), toStr (← a[2]!.getStr?)⟩ : Imp))
    let missing ← (← jarr j "missing").toList.mapM fun u => do
      let a ← u.getArr?
      pure ((← a[0]!.getNat?), toStr (← a[1]!.getStr?))
    let known ← impsOf j "known"
    let mand ← impsOf j "mandatory"
    let fl : Flags := ⟨← jbool j "add_missing", ← jbool j "remove_unused", ← jbool j "add_mandatory"⟩
    match fixStage2 ss ⟨unused, missing⟩ known mand fl with
    | .ok st =>
      if hasConflict st.blocks then pure (Json.mkObj [("err", "ConflictingImportsError")]) else
      pure (Json.mkObj [("ok", Json.arr (st.blocks.map blockJ).toArray)])
    | .error e => pure (Json.mkObj [("err", errJ e)])
  | _ => throw s!"unknown op {op}"

def main : IO Unit := serve handle
