import Pfb.DriverUtil
import Pfb.Compose.Output
import Pfb.C03.Idem
open Lean Pfb Pfb.Drv Pfb.Blocks Pfb.Compose

def impOf (j : Json) : Except String Blocks.Imp := do
  let a ← j.getArr?
  if a.size ≠ 2 then throw "imp"
  pure ⟨toStr (← a[0]!.getStr?), toStr (← a[1]!.getStr?)⟩

def impsOf (j : Json) (k : String) : Except String (List Blocks.Imp) := do
  (← jarr j k).toList.mapM impOf

def stmtOf (j : Json) : Except String Stmt := do
  let kind ← jstr j "kind"
  let k := match kind with | "comment" => SKind.comment | "docstr" => SKind.docstr | _ => SKind.other
  pure ⟨toStr (← jstr j "text"), k, ← jbool j "is_import", ← impsOf j "imports", ← jnat j "line",
        (jnat j "col").toOption.getD 1⟩

def alignOf (j : Json) : Except String C11.Align := do
  let t ← jstr j "t"
  match t with
  | "bool" => pure (.bool (← jbool j "b"))
  | "col" => pure (.col (← jnat j "n"))
  | "cols" => pure (.cols (← jNatList (← jarr j "l")))
  | _ => throw "align"

def hangOf (s : String) : Except String C11.Hang :=
  match s with
  | "never" => pure .never
  | "auto" => pure .auto
  | "always" => pure .always
  | _ => throw "hanging"

def paramsOf (j : Json) : Except String C11.Params := do
  let width ← match jopt j "width" with
    | none => pure none
    | some w => do let n ← w.getNat?; pure (some n)
  pure { width := width, align := ← alignOf (← jobj j "align"), fromSpaces := ← jnat j "from_spaces",
         hanging := ← hangOf (← jstr j "hanging"), indent := ← jnat j "indent",
         sepFrom := ← jbool j "sep_from", alignFuture := ← jbool j "align_future",
         d2fix := (jbool j "d2fix").toOption.getD true }

def errJ : C11.Err → Json
  | .assertion => Json.str "AssertionError"
  | .valueError => Json.str "ValueError"
  | .typeError => Json.str "TypeError"
  | .conflicting => Json.str "ConflictingImportsError"

def berrJ : Blocks.Err → Json
  | .lineNumberAmbiguous => "LineNumberAmbiguousError"
  | .multipleImportsToRemove => "Exception"
  | .importAlreadyExists => "ImportAlreadyExistsError"

def outJ (st : St) (p : C11.Params) : Json :=
  match output st p with
  | .ok t => Json.mkObj [("ok", strJ t)]
  | .error e => Json.mkObj [("err", errJ e)]

def impLe (a b : Blocks.Imp) : Bool :=
  strLt a.fullname b.fullname || (a.fullname = b.fullname && strLe a.importAs b.importAs)

def blockJ : Block → Json
  | .verbatim ss ins => Json.mkObj [("kind", "verbatim"), ("text", strJ (stmtsText ss)), ("inserted", Json.bool ins)]
  | .imports _ _ _ _ _ set => Json.mkObj [("kind", "imports"),
      ("imports", Json.arr ((set.mergeSort impLe).map fun i => Json.arr #[strJ i.fullname, strJ i.importAs]).toArray)]

def blocksJ (st : St) : Json :=
  if hasConflict st.blocks then Json.mkObj [("err", "ConflictingImportsError")]
  else Json.mkObj [("ok", Json.arr (st.blocks.map blockJ).toArray)]

def kindJ : SKind → Json
  | .comment => "comment"
  | .docstr => "docstr"
  | .other => "other"

def stmtJ (s : Stmt) : Json :=
  Json.mkObj [("text", strJ s.text), ("kind", kindJ s.kind), ("is_import", Json.bool s.isImport),
    ("imports", Json.arr ((s.imports.mergeSort impLe).map fun i => Json.arr #[strJ i.fullname, strJ i.importAs]).toArray),
    ("line", Json.num s.line), ("col", Json.num s.col)]

/-- the statement list that `Pfb.C03.reparse` predicts for the second pass (C03_reformat_idem_*) -/
def reparseJ (ss : List Stmt) (p : C11.Params) : Json :=
  match output (reformat ss) p with
  | .error e => Json.mkObj [("err", errJ e)]
  | .ok _ => Json.mkObj [("ok", Json.arr ((Pfb.C03.reparse (Pfb.C03.c11Fmt p) (reformat ss).blocks).map stmtJ).toArray)]

def scanOf (j : Json) : Except String (Scan × List Blocks.Imp × List Blocks.Imp × Flags) := do
  let unused ← (← jarr j "unused").toList.mapM fun u => do
    let a ← u.getArr?
    pure ((← a[0]!.getNat?), (⟨toStr (← a[1]!.getStr?), toStr (← a[2]!.getStr?)⟩ : Blocks.Imp))
  let missing ← (← jarr j "missing").toList.mapM fun u => do
    let a ← u.getArr?
    pure ((← a[0]!.getNat?), toStr (← a[1]!.getStr?))
  let known ← impsOf j "known"
  let mand ← impsOf j "mandatory"
  let fl : Flags := ⟨← jbool j "add_missing", ← jbool j "remove_unused", ← jbool j "add_mandatory"⟩
  pure (⟨unused, missing⟩, known, mand, fl)

def handle (j : Json) : Except String Json := do
  let op ← jstr j "op"
  let ss ← (← jarr j "stmts").toList.mapM stmtOf
  if op == "reformat" then return blocksJ (reformat ss)
  if op == "tidy2" then
    let (scan, known, mand, fl) ← scanOf j
    match fixStage2 ss scan known mand fl with
    | .ok st => return blocksJ st
    | .error e => return Json.mkObj [("err", berrJ e)]
  let p ← paramsOf (← jobj j "params")
  match op with
  | "reformat_text" => pure (outJ (reformat ss) p)
  | "reparse_text" => pure (reparseJ ss p)
  | "tidy_text" =>
    let unused ← (← jarr j "unused").toList.mapM fun u => do
      let a ← u.getArr?
      pure ((← a[0]!.getNat?), (⟨toStr (← a[1]!.getStr?), toStr (← a[2]!.getStr?)⟩ : Blocks.Imp))
    let missing ← (← jarr j "missing").toList.mapM fun u => do
      let a ← u.getArr?
      pure ((← a[0]!.getNat?), toStr (← a[1]!.getStr?))
    let known ← impsOf j "known"
    let mand ← impsOf j "mandatory"
    let fl : Flags := ⟨← jbool j "add_missing", ← jbool j "remove_unused", ← jbool j "add_mandatory"⟩
    match fixStage2 ss ⟨unused, missing⟩ known mand fl with
    | .ok st => pure (outJ st p)
    | .error e => pure (Json.mkObj [("err", berrJ e)])
  | _ => throw s!"unknown op {op}"

def main : IO Unit := serve handle
