import Pfb.DriverUtil
import Pfb.C19.Model
open Lean Pfb Pfb.Drv Pfb.C19

/-! Line-protocol driver for C19 (trusted glue: JSON decoding only). -/

def optStr (j : Json) (k : String) : Except String (Option Str) :=
  match j.getObjVal? k with
  | .ok .null => pure none
  | .ok v => do let s ← v.getStr?; pure (some (toStr s))
  | .error _ => pure none

def partsOf (j : Json) : Except String ModName := do
  let a ← j.getArr?
  jStrList a

def loadsOf (j : Json) : Except String (List Str) :=
  match j.getObjVal? "l" with
  | .ok v => do let a ← v.getArr?; jStrList a
  | .error _ => pure []

def targetOf (j : Json) : Except String Target :=
  match j.getObjVal? "n" with
  | .ok v => do let s ← v.getStr?; pure (.name (toStr s))
  | .error _ =>
    match j.getObjVal? "p" with
    | .ok v => do let a ← v.getArr?; let l ← jStrList a; pure (.pattern l (← loadsOf j))
    | .error _ => do pure (.other (← loadsOf j))

def valOf (j : Json) : Except String Val :=
  match j with
  | .null => pure .nonlit
  | .str _ => pure .nonlit
  | _ => do
    let a ← j.getArr?
    let es ← a.toList.mapM fun e => match e with
      | .str s => pure (Entry.str (toStr s))
      | _ => pure Entry.nonstr
    pure (.lit es)

def aliasOf (j : Json) : Except String Alias := do
  let n ← jstr j "name"
  let a ← optStr j "as"
  pure ⟨toStr n, a⟩

def itemOf (j : Json) : Except String Item := do
  let k ← jstr j "k"
  match k with
  | "assign" =>
    let ts ← (← jarr j "targets").toList.mapM targetOf
    let v ← valOf ((j.getObjVal? "v").toOption.getD .null)
    pure (.assign ts v)
  | "ann" =>
    let t ← targetOf (← jobj j "target")
    let hv ← jbool j "hasValue"
    let v ← valOf ((j.getObjVal? "v").toOption.getD .null)
    pure (.annAssign t hv v)
  | "aug" =>
    let t ← targetOf (← jobj j "target")
    let v ← valOf ((j.getObjVal? "v").toOption.getD .null)
    pure (.augAssign t v)
  | "class" => pure (.classDef (toStr (← jstr j "n")))
  | "def" => pure (.funcDef (toStr (← jstr j "n")))
  | "async" => pure (.asyncFuncDef (toStr (← jstr j "n")))
  | "from" =>
    let lvl ← jnat j "level"
    let m ← match jopt j "module" with
      | none => pure none
      | some v => do let p ← partsOf v; pure (some p)
    let als ← (← jarr j "aliases").toList.mapM aliasOf
    pure (.importFrom lvl m als)
  | "import" =>
    let als ← (← jarr j "aliases").toList.mapM fun a => do
      let p ← partsOf (← jobj a "name")
      let s ← optStr a "as"
      pure (p, s)
    pure (.import_ als)
  | "del" =>
    let ns ← jStrList (← jarr j "names")
    let nested ← jStrList (← jarr j "nested")
    pure (.del ns nested)
  | "other" => pure .other
  | _ => throw s!"unknown item kind {k}"

def variantOf (j : Json) : Except String Variant := do
  let v ← jobj j "variant"
  pure ⟨← jbool v "d8", ← jbool v "d31", ← jbool v "d53", ← jbool v "cde", ← jbool v "cdd"⟩

def errJ : Err → Json
  | .attributeError => Json.str "AttributeError"
  | .typeError => Json.str "TypeError"

def impOf (j : Json) : Except String Imp := do
  let m ← optStr j "module"
  let mem ← jstr j "member"
  let a ← jstr j "as"
  pure ⟨m, toStr mem, toStr a⟩

def impJ (i : Imp) : Json :=
  Json.mkObj [("module", match i.module with | none => Json.null | some m => strJ m),
              ("member", strJ i.member), ("as", strJ i.importAs)]

def handle (j : Json) : Except String Json := do
  let op ← jstr j "op"
  match op with
  | "exports" =>
    let v ← variantOf j
    let self ← partsOf (← jobj j "self")
    let isInit ← jbool j "isInit"
    let ex ← (← jarr j "exists").toList.mapM partsOf
    let items ← (← jarr j "items").toList.mapM itemOf
    let env : Env := ⟨self, isInit, fun m => ex.contains m⟩
    let extra := [("allGood", Json.bool (allState v items).1), ("bound", strsJ (bound items)),
                  ("noD8", Json.bool (noD8Forms items)), ("delsSeen", Json.bool (delsSeen v items)),
                  ("liveDefs", strsJ (liveDefs items)), ("defNames", strsJ (defNames items))]
    match exports v env items with
    | .ok ns => pure (Json.mkObj (("ok", strsJ ns) :: extra))
    | .error e => pure (Json.mkObj (("err", errJ e) :: extra))
  | "replace" =>
    let imps ← (← jarr j "imports").toList.mapM impOf
    let tbl ← (← jarr j "exportsOf").toList.mapM fun e => do
      let m ← jstr e "module"
      let r ← match jopt e "names" with
        | none => pure Inspect.fail
        | some v => do let a ← v.getArr?; let l ← jStrList a; pure (Inspect.ok l)
      pure (toStr m, r)
    let exportsOf : Str → Inspect := fun m => match tbl.lookup m with | some r => r | none => Inspect.fail
    pure (Json.mkObj [("ok", Json.arr ((replaceStar exportsOf imps).map impJ).toArray)])
  | _ => throw s!"unknown op {op}"

def main : IO Unit := serve handle
