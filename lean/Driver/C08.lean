import Pfb.DriverUtil
import Pfb.C08.Model
open Lean Pfb Pfb.Drv Pfb.C08

/-! Line-protocol driver of the C08 model.  Contents are `List Nat` (one symbol per real
write chunk; the model is parametric in the element type). -/

def emptyFS : FS Nat := fun _ => none

def fileOf (j : Json) : Except String (File Nat) := do
  let c ← jNatList (← jarr j "c")
  pure ⟨c, ← jnat j "mode", ← jnat j "gid"⟩

def optFile (j : Json) (k : String) : Except String (Option (File Nat)) :=
  match jopt j k with
  | none => pure none
  | some v => do pure (some (← fileOf v))

def fileJ : Option (File Nat) → Json
  | none => Json.null
  | some f => Json.mkObj [("c", natsJ f.content), ("mode", natJ f.mode), ("gid", natJ f.gid)]

def opJ (o : Op Nat) : String × Pfb.Str :=
  match o with
  | .openTrunc p => ("open", p)
  | .write p _ => ("write", p)
  | .close p => ("close", p)
  | .stat p => ("stat", p)
  | .chmod p => ("chmod", p)
  | .chown p => ("chown", p)
  | .rename s d => ("rename", s ++ [','] ++ d)

def resJ : Option Errno → Json
  | none => Json.str "ok"
  | some e => Json.str (toString e)

/-- the log, plus — for a process that is still running — the call it was about to issue -/
def traceJ (p : Proc Nat) (announceNext : Bool) : Json :=
  let done := p.log.map fun (o, r) => Json.arr #[Json.str (opJ o).1, strJ (opJ o).2, resJ r]
  let next := match announceNext, p.todo with
    | true, o :: _ => [Json.arr #[Json.str (opJ o).1, strJ (opJ o).2, Json.str "pending"]]
    | _, _ => []
  Json.arr (done ++ next).toArray

def outJ (p : Proc Nat) : Json :=
  match p.err with
  | some e => Json.str ("raised:" ++ toString e)
  | none => if p.todo.isEmpty then Json.str "returned" else Json.str "running"

def faultsOf (j : Json) (k : String) : Except String Faults :=
  match jopt j k with
  | none => pure noFaults
  | some v => do
    let at_ ← jnat v "at"
    let e ← jnat v "errno"
    pure fun i => if i = at_ then some e else none

def chunksOf (j : Json) : Except String (List (List Nat)) := do
  (← jarr j "chunks").toList.mapM fun c => do jNatList (← c.getArr?)

def handle (j : Json) : Except String Json := do
  let op ← jstr j "op"
  let strict ← jbool j "strict"
  let target := toStr (← jstr j "target")
  let env : Env := ⟨← jnat j "dflt", ← jnat j "dgid", ← jnat j "namemax"⟩
  let old ← optFile j "old"
  -- order of the copy of group and mode: as found (chmod, chown) or repaired (chown, chmod; fixes/C08-H1.diff)
  let cf := match jopt j "cf" with
    | some (Json.bool b) => b
    | _ => false
  let ops := fun (pid : Nat) (cs : List (List Nat)) => if cf then atomicWriteOpsCF pid target cs else atomicWriteOps pid target cs
  match op with
  | "run" =>
    let pid ← jnat j "pid"
    let cs ← chunksOf j
    let stale ← optFile j "stale"
    let fault ← faultsOf j "fault"
    let t := tmpName target pid
    let fs0 : FS Nat := FS.set (FS.set emptyFS target old) t stale
    let p0 : Proc Nat := Proc.init (ops pid cs)
    let (fs, p, crashed) := match jopt j "fuel" with
      | none => let r := run env strict fault fs0 p0; (r.1, r.2, false)
      | some f => match f.getNat? with
        | .ok k => let r := runN env strict fault k fs0 p0; (r.1, r.2, true)
        | .error _ => let r := run env strict fault fs0 p0; (r.1, r.2, false)
    -- the target as an observer sees it after each of the calls issued (index i = after i calls)
    let tsnaps := (List.range (p.log.length + 1)).map fun i => fileJ ((runN env strict fault i fs0 p0).1 target)
    pure (Json.mkObj [("trace", traceJ p crashed), ("out", outJ p), ("target", fileJ (fs target)),
                      ("tmp", fileJ (fs t)), ("tmpname", strJ t), ("tsnaps", Json.arr tsnaps.toArray)])
  | "sched" =>
    let ja ← jobj j "A"
    let jb ← jobj j "B"
    let pa ← jnat ja "pid"
    let pb ← jnat jb "pid"
    let ta := tmpName target pa
    let tb := tmpName target pb
    let fs0 : FS Nat := FS.set (FS.set (FS.set emptyFS target old) ta (← optFile ja "stale")) tb (← optFile jb "stale")
    let s0 : Sys2 Nat := ⟨fs0, Proc.init (ops pa (← chunksOf ja)),
                          Proc.init (ops pb (← chunksOf jb))⟩
    let sched ← (← jarr j "sched").toList.mapM fun x => do pure ((← x.getNat?) != 0)
    let states := (List.range (sched.length + 1)).map fun i => runSched env strict noFaults noFaults s0 (sched.take i)
    let fin := runSched env strict noFaults noFaults s0 sched
    let side (p : Proc Nat) (t : Path) : Json :=
      Json.mkObj [("trace", traceJ p true), ("out", outJ p), ("tmp", fileJ (fin.fs t)), ("tmpname", strJ t)]
    pure (Json.mkObj [("snaps", Json.arr (states.map fun s => fileJ (s.fs target)).toArray),
                      ("A", side fin.a ta), ("B", side fin.b tb)])
  | _ => throw s!"unknown op {op}"

def main : IO Unit := serve handle
