import Pfb.PyCore.Json
import Pfb.PyCore.Exec
import Pfb.PyCore.Unused
open Lean Pfb Pfb.Drv Pfb.PyCore

def rval (j : Json) : Except String RVal := do
  let a ← j.getArr?
  match (← a[0]!.getStr?) with
  | "mod" => pure (.mod (← a[1]!.getNat?))
  | "none" => pure .none
  | _ => pure .opq

def excName : Exc → String
  | .nameError _ => "NameError"
  | .localError _ => "Local"
  | .attrError _ => "AttributeError"
  | .user => "UserExc"
  | .other => "Other"
  | .fuel => "Fuel"

def handle (j : Json) : Except String Json := do
  let op ← jstr j "op"
  match op with
  | "findMissing" =>
    let prog ← J.stmts (← jobj j "prog")
    let builtins ← J.scope (← jobj j "builtins")
    let ns ← (← jarr j "ns").toList.mapM J.scope
    let reg ← J.registry (← jobj j "registry")
    let fx := J.fixes ((j.getObjVal? "fixes").toOption.getD Json.null)
    let st := analyzeFx fx reg builtins ns prog
    pure (Json.mkObj [("missing", strsJ (sortedSet (st.missing.map (·.name))))])
  | "unused" =>
    let prog ← J.stmts (← jobj j "prog")
    let builtins ← J.scope (← jobj j "builtins")
    let fx := J.fixes ((j.getObjVal? "fixes").toOption.getD Json.null)
    let u := findUnused fx builtins prog
    pure (Json.mkObj [("unused", Json.arr (u.map (fun p => Json.arr #[natJ p.1, natJ p.2])).toArray)])
  | "exec" =>
    let body ← J.stmts (← jobj j "body")
    let calls ← J.stmts (← jobj j "calls")
    let globals ← (← jarr j "globals").toList.mapM fun kv => do
      let a ← kv.getArr?
      pure (← J.sstr a[0]!, ← rval a[1]!)
    let mods ← (← jarr j "mods").toList.mapM fun m => do
      let a ← m.getArr?
      let attrs ← (← a[1]!.getArr?).toList.mapM fun kv => do
        let b ← kv.getArr?
        pure (← J.sstr b[0]!, ← rval b[1]!)
      pure ({ name := ← J.sstr a[0]!, attrs := attrs } : ModObj)
    let builtins ← J.strs (← jobj j "builtins")
    let fuel ← jnat j "fuel"
    let st : XState := { globals := globals, builtins := builtins, mods := mods,
                         loaded := (mods.zipIdx).map (fun (m, i) => (m.name, i)) }
    let (s, r) := runProgram fuel body calls st
    let outcome := match r with | .ok _ => "ok" | .error e => excName e
    pure (Json.mkObj [("ne", strsJ s.ne), ("ae", strsJ s.ae), ("lne", strsJ s.lne), ("outcome", Json.str outcome),
                      ("early", Json.bool s.early), ("other", Json.bool s.otherRaised)])
  | _ => throw s!"unknown op {op}"

def main : IO Unit := serve handle
