import Pfb.PyCore.Json
open Lean Pfb Pfb.Drv Pfb.PyCore

def handle (j : Json) : Except String Json := do
  let op ← jstr j "op"
  match op with
  | "findMissing" =>
    let prog ← J.stmts (← jobj j "prog")
    let builtins ← J.scope (← jobj j "builtins")
    let ns ← (← jarr j "ns").toList.mapM J.scope
    let reg ← J.registry (← jobj j "registry")
    let st := analyze reg builtins ns prog
    pure (Json.mkObj [("missing", strsJ (sortedSet (st.missing.map (·.name))))])
  | _ => throw s!"unknown op {op}"

def main : IO Unit := serve handle
