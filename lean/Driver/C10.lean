import Pfb.DriverUtil
import Pfb.C10.Props
import Pfb.C10.Cols
open Lean Pfb Pfb.Drv Pfb.C10

def posOf (j : Json) : Except String Pos := do
  let a ← j.getArr?
  if a.size ≠ 2 then throw "pos"
  let l ← a[0]!.getNat?
  let c ← a[1]!.getNat?
  pure ⟨l, c⟩

def errJ : TextErr → Json
  | .indexError => Json.str "IndexError"
  | .assertion => Json.str "AssertionError"

def pieceJ (p : Piece) : Json :=
  Json.mkObj [("node", match p.node with | none => Json.null | some n => natJ n),
              ("text", strJ p.text.joined),
              ("start", Json.arr #[natJ p.text.start.line, natJ p.text.start.col])]

def handle (j : Json) : Except String Json := do
  let op ← jstr j "op"
  match op with
  | "statements" =>
    let txt ← jstr j "text"
    let st ← posOf (← jobj j "start")
    let starts ← (← jarr j "starts").toList.mapM posOf
    let ends ← jNatList (← jarr j "ends")
    let nodes := (starts.zip ends).map fun (s, e) => Node.mk s e
    let t := FText.ofStr (toStr txt) st
    match statements t nodes with
    | .ok ps => pure (Json.mkObj [("ok", Json.arr (ps.map pieceJ).toArray), ("wp", Json.bool (wellPlacedB t nodes))])
    | .error e => pure (Json.mkObj [("err", errJ e), ("wp", Json.bool (wellPlacedB t nodes))])
  | "iscb" =>
    let l ← jstr j "line"
    pure (Json.mkObj [("ok", Json.bool (isCommentOrBlank (toStr l)))])
  | "slice" =>
    let txt ← jstr j "text"
    let st ← posOf (← jobj j "start")
    let a ← posOf (← jobj j "a")
    let b ← posOf (← jobj j "b")
    let t := FText.ofStr (toStr txt) st
    match t.slice a b with
    | .ok r => pure (Json.mkObj [("ok", strJ r.joined),
                 ("start", Json.arr #[natJ r.start.line, natJ r.start.col])])
    | .error e => pure (Json.mkObj [("err", errJ e)])
  | "charcol" =>
    let l ← jstr j "line"
    let bs ← jNatList (← jarr j "offsets")
    pure (Json.mkObj [("ok", Json.arr (bs.map (fun b => natJ (charCol (toStr l) b))).toArray),
                      ("len", natJ (utf8Len (toStr l)))])
  | _ => throw s!"unknown op {op}"

def main : IO Unit := serve handle
