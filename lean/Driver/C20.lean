import Pfb.PyCore.Json
open Lean Pfb Pfb.Drv Pfb.PyCore

def handle (j : Json) : Except String Json := do
  let op ← jstr j "op"
  match op with
  | "c20" =>
    let mode ← jstr j "mode"
    let builtins ← J.scope (← jobj j "builtins")
    let ns ← (← jarr j "ns").toList.mapM J.scope
    let reg ← J.registry (← jobj j "registry")
    if mode == "dotted" then
      let name := toStr (← jstr j "name")
      let st := initState builtins ns
      let user := (List.range ns.length).map (· + 3)
      let r := symbolNeedsImport reg st.heap user name
      pure (Json.mkObj [("missing", strsJ (if r.1 then [name] else [])),
                        ("effects", Json.arr (r.2.map J.effectJ).toArray), ("readonly", Json.bool true)])
    else
      let prog ← J.stmts (← jobj j "prog")
      let fx := J.fixes ((j.getObjVal? "fixes").toOption.getD Json.null)
      let st := analyzeFx fx reg builtins ns prog
      let ro := (List.range ns.length).all fun i => st.heap.get (i + 3) == ns.getD i {}
      pure (Json.mkObj [("missing", strsJ (sortedSet (st.missing.map (·.name)))),
                        ("effects", Json.arr (st.log.map J.effectJ).toArray), ("readonly", Json.bool ro)])
  | _ => throw s!"unknown op {op}"

def main : IO Unit := serve handle
