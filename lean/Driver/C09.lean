import Pfb.DriverUtil
import Pfb.C09.Model
open Lean Pfb Pfb.Drv Pfb.C09

def policyOf : String → Option Policy
  | "error" => some .error
  | "follow" => some .follow
  | "skip" => some .skip
  | "replace" => some .replace
  | _ => none

def actionOf (s : String) : Except String Action :=
  match s with
  | "PRINT" => pure .print
  | "REPLACE" => pure .replace
  | "IFCHANGED" => pure .ifchanged
  | "QUERY" => pure (.query false)
  | "DIFF" => pure .diff
  | "EXIT1" => pure .exit1
  | _ => if s.startsWith "EXECUTE:" then pure .exec else throw s!"action {s}"

def optOf (j : Json) : Except String Opt := do
  let a ← j.getArr?
  let k ← a[0]!.getStr?
  match k with
  | "actions" =>
    let l ← a[1]!.getArr?
    let xs ← l.toList.mapM fun x => do actionOf (← x.getStr?)
    pure (.actions xs)
  | "actionsBad" => pure .actionsBad
  | "print" => pure .print
  | "diff" => pure .diff
  | "replace" => pure .replace
  | "diff-replace" => pure .diffReplace
  | "interactive" => pure .interactive
  | "symlinks" =>
    match a[1]! with
    | .str s => pure (.symlinks (policyOf s))
    | _ => pure (.symlinks none)
  | _ => throw s!"opt {k}"

def nodeOf (j : Json) : Except String Node := do
  let a ← j.getArr?
  let k ← a[0]!.getStr?
  match k with
  | "file" => pure (.file (← a[1]!.getNat?) true)
  | "link" => pure (.link (← a[1]!.getNat?))
  | "dir" =>
    let es ← (← a[1]!.getArr?).toList.mapM fun e => do
      let t ← e.getArr?
      pure (DirEntry.mk (← t[0]!.getNat?) (← t[1]!.getBool?) (← t[2]!.getBool?))
    pure (.dir es)
  | _ => throw s!"node {k}"

def fsOf (l : List (Nat × Node)) : FS := fun p => (l.find? (fun x => x.1 == p)).map (·.2)

def rwOf (l : List (Nat × Option Nat)) : Content → Option Content :=
  fun c => match l.find? (fun x => x.1 == c) with
    | some (_, o) => o
    | none => none

def policyJ : Policy → String
  | .error => "error" | .follow => "follow" | .skip => "skip" | .replace => "replace"

def actionJ : Action → Json
  | .print => "PRINT" | .replace => "REPLACE" | .ifchanged => "IFCHANGED"
  | .query false => "QUERY" | .query true => "QUERYNAMED" | .diff => "DIFF" | .exec => "EXECUTE"
  | .exit1 => "EXIT1" | .symlink p => Json.str ("SYMLINK:" ++ policyJ p)

def errJ : ErrKind → Json
  | .badFilename => "bad" | .io => "io" | .rewriter => "rewriter" | .eof => "eof" | .unsafeTarget => "unsafe"

def nodeJ : Option Node → Json
  | none => Json.arr #["absent"]
  | some (.file c o) => Json.arr #["file", natJ c, Json.bool o]
  | some (.link t) => Json.arr #["link", natJ t]
  | some (.dir _) => Json.arr #["dir"]

def evJ : Event → Json
  | .badArg p => Json.arr #["badArg", natJ p]
  | .begin p => Json.arr #["begin", natJ p]
  | .read p c => Json.arr #["read", natJ p, natJ c]
  | .rewrite c => Json.arr #["rewrite", natJ c]
  | .print o => Json.arr #["print", natJ o]
  | .write p o => Json.arr #["write", natJ p, natJ o]
  | .writeFailed p => Json.arr #["writeFailed", natJ p]
  | .exec d p o => Json.arr #["exec", Json.bool d, natJ p, natJ o]
  | .ask n p => Json.arr #["ask", Json.bool n, natJ p]
  | .aborted => Json.arr #["aborted"]
  | .failed p e => Json.arr #["failed", natJ p, errJ e]

def handle (j : Json) : Except String Json := do
  let op ← jstr j "op"
  match op with
  | "main" =>
    let tty ← jbool j "tty"
    let keep ← jbool j "keep"
    let opts ← (← jarr j "opts").toList.mapM optOf
    let fsl ← (← jarr j "fs").toList.mapM fun e => do
      let a ← e.getArr?
      pure ((← a[0]!.getNat?), (← nodeOf a[1]!))
    let rwl ← (← jarr j "rw").toList.mapM fun e => do
      let a ← e.getArr?
      let o : Option Nat := match a[1]! with
        | .null => none
        | v => v.getNat?.toOption
      pure ((← a[0]!.getNat?), o)
    let args ← jNatList (← jarr j "args")
    let answers ← jStrList (← jarr j "answers")
    let paths ← jNatList (← jarr j "paths")
    -- names: absolute path string of every path; a directory entry is visible only if its name is safe
    -- (`Filename.list(ignore_unsafe=True)`), decided here by the model's own `safeName`
    let namel ← (← jarr j "names").toList.mapM fun e => do
      let a ← e.getArr?
      pure ((← a[0]!.getNat?), toStr (← a[1]!.getStr?))
    let name : Path → Str := fun p => match namel.find? (fun x => x.1 == p) with
      | some (_, s) => s
      | none => []
    let fsl := fsl.map fun (p, n) => match n with
      | .dir es => (p, Node.dir (es.map fun e => { e with visible := e.visible && safeName (name e.path) }))
      | n => (p, n)
    let fs := fsOf fsl
    let unreadable ← jNatList (← jarr j "unreadable")
    let unwritable ← jNatList (← jarr j "unwritable")
    -- realnames: `os.path.realpath` of every path that exists (a string); whether `Filename` accepts it is decided
    -- here by the model's own `safeName` (a path without an entry has nothing to resolve: accepted)
    let reall ← match j.getObjVal? "realnames" with
      | .ok v => (← v.getArr?).toList.mapM fun e => do
          let a ← e.getArr?
          pure ((← a[0]!.getNat?), toStr (← a[1]!.getStr?))
      | .error _ => pure []
    let realSafe : Path → Bool := fun p => match reall.find? (fun x => x.1 == p) with
      | some (_, s) => safeName s
      | none => true
    let env : Env := { rw := rwOf rwl, readable := fun c => !unreadable.contains c,
                       writable := fun p => !unwritable.contains p, realSafe := realSafe }
    let parse := parseOptions keep tty opts
    -- variant bits (absent = false): `isoUnsafe` = tree with fixes/C09-1a.diff, `failFast` = this invocation
    -- re-raises the first per-file error (--verbose / PYFLYBY_LOG_LEVEL=DEBUG before fixes/C09-2.diff);
    -- with both off this is `mainNamed` (theorem `mainV_plain`)
    let optBool : String → Bool := fun k => match j.getObjVal? k with
      | .ok (.bool b) => b
      | _ => false
    let isoUnsafe := optBool "isoUnsafe"
    let failFast := optBool "failFast"
    let (r, crash) := Pfb.C09.mainV env keep tty isoUnsafe failFast opts name fs args answers
    let refused := !isoUnsafe && !(args.all fun p => safeName (name p))
    let parseJ : Json := match parse with
      | .ok acts => Json.mkObj [("ok", Json.arr (acts.map actionJ).toArray)]
      | .error .optionValueError => Json.mkObj [("err", "optionValueError")]
      | .error .exception => Json.mkObj [("err", "exception")]
    pure (Json.mkObj [
      ("parse", parseJ),
      ("status", natJ r.status),
      ("summary", Json.arr (r.summary.map fun m => Json.arr #[natJ m.path, errJ m.kind]).toArray),
      ("sysexit", match r.sysexit with | none => Json.null | some p => natJ p),
      ("fs", Json.arr (paths.map fun p => Json.arr #[natJ p, nodeJ (r.fs p)]).toArray),
      ("ev", Json.arr (r.ev.map evJ).toArray),
      ("refused", Json.bool refused),
      ("crash", match crash with | none => Json.null | some m => Json.arr #[natJ m.path, errJ m.kind]),
      ("ansLeft", natJ r.ansLeft.length)])
  | "safeName" =>
    let a ← jstr j "name"
    pure (Json.mkObj [("ok", Json.bool (safeName (toStr a)))])
  | "isYes" =>
    let a ← jstr j "a"
    pure (Json.mkObj [("ok", Json.bool (isYes (toStr a)))])
  | _ => throw s!"unknown op {op}"

def main : IO Unit := serve handle
