import Pfb.DriverUtil
import Pfb.C12.Lemmas
open Lean Pfb Pfb.Drv Pfb.C12

/-! Line-protocol driver for C12 (JSON glue: trusted, not part of the model). -/

def impOf (j : Json) : Except String Import := do
  let a ← j.getArr?
  if a.size ≠ 2 then throw "import"
  pure ⟨toStr (← a[0]!.getStr?), toStr (← a[1]!.getStr?)⟩

def impsOf (j : Json) : Except String (List Import) := do
  (← j.getArr?).toList.mapM impOf

def pairOf (j : Json) : Except String (Str × Str) := do
  let a ← j.getArr?
  if a.size ≠ 2 then throw "pair"
  pure (toStr (← a[0]!.getStr?), toStr (← a[1]!.getStr?))

def stmtOf (j : Json) : Except String Stmt := do
  match jopt j "k" with
  | some v => pure (.known (← impsOf v))
  | none =>
  match jopt j "m" with
  | some v => pure (.mandatory (← impsOf v))
  | none =>
  match jopt j "f" with
  | some v => pure (.forget (← impsOf v))
  | none =>
  match jopt j "c" with
  | some v => pure (.canonical (← (← v.getArr?).toList.mapM pairOf))
  | none =>
  match jopt j "bad" with
  | some _ => pure .bad
  | none => throw "stmt"

partial def nodeOf (j : Json) : Except String Node := do
  match jopt j "ch" with
  | some ch =>
    let dev ← jnat j "dev"
    let kids ← (← ch.getArr?).toList.mapM fun e => do
      let a ← e.getArr?
      if a.size ≠ 2 then throw "child"
      let nm ← a[0]!.getStr?
      let n ← nodeOf a[1]!
      pure (toStr nm, n)
    pure (.dir dev kids)
  | none =>
    let syn := (jbool j "syn").toOption.getD false
    let st ← (← jarr j "stmts").toList.mapM stmtOf
    pure (.file ⟨syn, st⟩)

/-- every directory's children strictly increasing by `strLt` (Python's `sorted`, names distinct) -/
partial def sortedNode : Node → Bool
  | .file _ => true
  | .dir _ ch =>
    let names := ch.map (·.1)
    let rec ok : List Str → Bool
      | a :: b :: r => strLt a b && ok (b :: r)
      | _ => true
    ok names && ch.all fun (_, n) => sortedNode n

def optStr (j : Json) : Option Str :=
  match j with
  | .str s => some (toStr s)
  | _ => none

def queryOf (j : Json) : Except String Query := do
  let t ← jstr j "t"
  let e ← jarr j "env"
  if e.size ≠ 3 then throw "env"
  pure ⟨toStr t, ⟨optStr e[0]!, optStr e[1]!, optStr e[2]!⟩⟩

def impLe (a b : Import) : Bool :=
  strLt a.fullname b.fullname || (a.fullname = b.fullname && strLe a.importAs b.importAs)

def canonImps (l : List Import) : List Import := (l.mergeSort impLe).eraseDups

def impJ (i : Import) : Json := Json.arr #[strJ i.fullname, strJ i.importAs]
def impsJ (l : List Import) : Json := Json.arr ((canonImps l).map impJ).toArray

def idxJ (idx : List (Str × List Import)) : Json :=
  let s := idx.mergeSort fun a b => strLe a.1 b.1
  Json.arr (s.map fun kv => Json.arr #[strJ kv.1, impsJ kv.2]).toArray

def errJ : Err → Json
  | .valueError => "ValueError"
  | .unsafeFilename => "UnsafeFilenameError"
  | .syntaxError => "SyntaxError"
  | .ioError => "IOError"

def dbJ : Except Err DB → Json
  | .error e => Json.mkObj [("err", errJ e)]
  | .ok db =>
    let canon := db.canonical.mergeSort fun a b => strLe a.1 b.1
    Json.mkObj [("known", impsJ db.known), ("mandatory", impsJ db.mandatory), ("forget", impsJ db.forget),
                ("canonical", Json.arr (canon.map fun kv => Json.arr #[strJ kv.1, strJ kv.2]).toArray),
                ("bfi", idxJ (byFullnameOrImportAs db)), ("bfi_fixed", idxJ (byFullnameOrImportAsFixed db)),
                ("canonical_fixed",
                  Json.arr ((db.fixCanon.canonical.mergeSort fun a b => strLe a.1 b.1).map
                    fun kv => Json.arr #[strJ kv.1, strJ kv.2]).toArray)]

def ostrJ : Option Str → Json
  | none => Json.null
  | some s => strJ s

def pathsJ (l : List Path) : Json := Json.arr (l.map fun p => strJ (pathStr p)).toArray

def keyJ : Key → Json
  | .dir d env => Json.arr #[Json.str "1", strJ (pathStr d), ostrJ env.pp, ostrJ env.known, ostrJ env.mand]
  | .files fs => Json.arr #[Json.str "2", pathsJ fs, Json.arr #[]]

def keysJ (c : Cache) : Json := Json.arr (c.map fun kv => keyJ kv.1).toArray

/-- The file list a fresh lookup loads (`null` when the search path itself is rejected). -/
def filesOf (w : World) (q : Query) : Json :=
  match targetDirname w q.target with
  | .error _ => Json.null
  | .ok d0 =>
    match getPythonPath w q.env.pp (defaultPath w) (firstDirR w d0.reverse) with
    | .ok fs => pathsJ fs
    | .error _ => Json.null

def histJ (w : World) : Cache → List Query → List Json
  | _, [] => []
  | c, q :: qs =>
    let r := getDefault w c q
    Json.mkObj [("db", dbJ r.1), ("keys", keysJ r.2)] :: histJ w r.2 qs

def handle (j : Json) : Except String Json := do
  let op ← jstr j "op"
  match op with
  | "world" =>
    let root ← nodeOf (← jobj j "tree")
    let (dev, ch) ← match root with
      | .dir d c => pure (d, c)
      | .file _ => throw "root must be a directory"
    let home ← jstr j "home"
    let cwd ← jstr j "cwd"
    let etc ← jStrList (← jarr j "etc")
    -- where the scratch root really is (only its `/dev` prefix matters) and which `/dev` test the tree has
    let mount := (jstr j "mount").toOption.getD ""
    let devfix := (jbool j "devfix").toOption.getD false
    let w : World := { rootDev := dev, rootCh := ch, home := toStr home, cwd := absPath [] (toStr cwd), etc := etc,
                       mount := toStr mount, devStreamsOnly := devfix }
    let queries ← (← jarr j "queries").toList.mapM queryOf
    let hists ← (← jarr j "histories").toList.mapM fun h => do (← h.getArr?).toList.mapM queryOf
    let fresh := queries.map fun q =>
      let r := getDefault w [] q
      Json.mkObj [("db", dbJ r.1), ("files", filesOf w q), ("keys", keysJ r.2)]
    let hs := hists.map fun h => Json.arr (histJ w [] h).toArray
    pure (Json.mkObj [("sorted", Json.bool (sortedNode root)), ("fresh", Json.arr fresh.toArray),
                      ("hist", Json.arr hs.toArray)])
  | "db" =>
    -- a database from statements only (witness replay)
    let st ← (← jarr j "stmts").toList.mapM stmtOf
    pure (dbJ (fromCode [⟨false, st⟩]))
  | _ => throw s!"unknown op {op}"

def main : IO Unit := serve handle
