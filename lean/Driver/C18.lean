import Pfb.DriverUtil
import Pfb.C18.Props
open Lean Pfb Pfb.Drv Pfb.C18

def impOf (j : Json) : Except String Imp := do
  let a ← j.getArr?
  if a.size ≠ 2 then throw "imp"
  let f ← a[0]!.getStr?
  let s ← a[1]!.getStr?
  pure ⟨toStr f, toStr s⟩

def impJ (i : Imp) : Json := Json.arr #[strJ i.fullname, strJ i.importAs]

def optJ : Option Str → Json
  | none => Json.null
  | some s => strJ s

def splitJ (s : Split) : Json := Json.arr #[optJ s.moduleName, strJ s.memberName, optJ s.importAs]

def mapOf (j : Json) : Except String RMap := do
  let a ← j.getArr?
  a.toList.mapM fun e => do
    let p ← e.getArr?
    if p.size ≠ 2 then throw "entry"
    let k ← p[0]!.getStr?
    let v ← p[1]!.getStr?
    pure (toStr k, toStr v)

def blockOf (j : Json) : Except String Block := do
  let kind ← jstr j "kind"
  if kind = "imports" then
    let imps ← (← jarr j "imports").toList.mapM impOf
    pure (.imports imps)
  else
    pure (.text (toStr (← jstr j "text")))

def blockJ : Block → Json
  | .imports imps => Json.mkObj [("kind", Json.str "imports"), ("imports", Json.arr (imps.map impJ).toArray)]
  | .text s => Json.mkObj [("kind", Json.str "text"), ("text", strJ s)]

def handle (j : Json) : Except String Json := do
  let op ← jstr j "op"
  match op with
  | "replace" =>
    let imp ← impOf (← jobj j "imp")
    let k ← jstr j "old"
    let v ← jstr j "new"
    let r := imp.replace (toStr k) (toStr v)
    pure (Json.mkObj [("ok", impJ r), ("split", splitJ r.split), ("rt", impJ (Imp.fromSplit r.split))])
  | "split" =>
    let imp ← impOf (← jobj j "imp")
    pure (Json.mkObj [("ok", splitJ imp.split), ("rt", impJ (Imp.fromSplit imp.split))])
  | "sub" =>
    let k ← jstr j "old"
    let v ← jstr j "new"
    let s ← jstr j "text"
    let g ← jbool j "guard"
    pure (Json.mkObj [("ok", strJ (wordReplace g (toStr k) (toStr v) (toStr s))),
                      ("tok", strJ (tokReplace g (runs (toStr k)) (toStr v) (runs (toStr s))))])
  | "isw" =>
    let cps ← jNatList (← jarr j "cps")
    pure (Json.mkObj [("ok", Json.arr (cps.map fun n => Json.bool (isW (Char.ofNat n))).toArray),
                      ("in", Json.arr (cps.map fun n => Json.bool (inAlphabet (Char.ofNat n))).toArray)])
  | "transform" =>
    let m ← mapOf (← jobj j "map")
    let g ← jbool j "guard"
    let bs ← (← jarr j "blocks").toList.mapM blockOf
    let single := (jbool j "single").toOption.getD false
    let licensed := (jbool j "licensed").toOption.getD false
    let nested ← match jopt j "nested" with
      | some a => (← a.getArr?).toList.mapM impOf
      | none => pure []
    let v : Variant := ⟨g, single, licensed⟩
    let out := if single || licensed then transformBlocksV v m nested bs bs else transformBlocks g m bs
    pure (Json.mkObj [("ok", Json.arr (out.map blockJ).toArray),
                      ("nonint", Json.bool (nonInterferingB m))])
  | _ => throw s!"unknown op {op}"

def main : IO Unit := serve handle
