import Pfb.DriverUtil
import Pfb.C11.Model
open Lean Pfb Pfb.Drv Pfb.C11

def optStrJ : Option Str → Json
  | none => Json.null
  | some s => strJ s

def stmtJ (s : Stmt) : Json :=
  Json.arr #[optStrJ s.fromname,
    Json.arr (s.aliases.map fun a => Json.arr #[strJ a.1, optStrJ a.2]).toArray]

def errJ : Err → Json
  | .assertion => Json.str "AssertionError"
  | .valueError => Json.str "ValueError"
  | .typeError => Json.str "TypeError"
  | .conflicting => Json.str "ConflictingImportsError"

def optStr (j : Json) : Except String (Option Str) :=
  match j with
  | .null => pure none
  | .str s => pure (some (toStr s))
  | _ => throw "expected string or null"

def splitOf (j : Json) : Except String Split := do
  let a ← j.getArr?
  if a.size ≠ 3 then throw "split"
  let m ← optStr a[0]!
  let mem ← a[1]!.getStr?
  let asn ← optStr a[2]!
  pure ⟨m, toStr mem, asn⟩

def alignOf (j : Json) : Except String Align := do
  let t ← jstr j "t"
  match t with
  | "bool" => pure (.bool (← jbool j "b"))
  | "col" => pure (.col (← jnat j "n"))
  | "cols" => pure (.cols (← jNatList (← jarr j "l")))
  | _ => throw "align"

def hangOf (s : String) : Except String Hang :=
  match s with
  | "never" => pure .never
  | "auto" => pure .auto
  | "always" => pure .always
  | _ => throw "hanging"

def paramsOf (j : Json) : Except String Params := do
  let width ← match jopt j "width" with
    | none => pure none
    | some w => do let n ← w.getNat?; pure (some n)
  pure { width := width, align := ← alignOf (← jobj j "align"), fromSpaces := ← jnat j "from_spaces",
         hanging := ← hangOf (← jstr j "hanging"), indent := ← jnat j "indent",
         sepFrom := ← jbool j "sep_from", alignFuture := ← jbool j "align_future",
         d2fix := (jbool j "d2fix").toOption.getD false }

def handle (j : Json) : Except String Json := do
  let op ← jstr j "op"
  match op with
  | "pretty" =>
    let splits ← (← jarr j "splits").toList.mapM splitOf
    let p ← paramsOf j
    let imps := splits.map Imp.fromSplit
    let S := dedup imps
    let fs := max 1 p.fromSpaces
    let stmtsJ := match getStatements S p.sepFrom with
      | .ok ss => Json.arr (ss.map stmtJ).toArray
      | .error e => errJ e
    let flags : List (String × Json) := match getStatements S p.sepFrom with
      | .ok ss =>
        (match importColumn ss p fs with
         | .ok col =>
           [("valid", Json.bool (ss.all validStmt)),
            ("wf", Json.bool (S.all fun i => wfName i.fullname && decide (Imp.fromSplit i.split = i))),
            ("noBadParen", Json.bool (ss.all fun st =>
              if doAlign p st then noBadParen st p col fs else noBadParen st p none 1))]
         | .error _ => [])
      | .error _ => []
    match pretty imps p with
    | .ok t => pure (Json.mkObj ([("ok", strJ t), ("stmts", stmtsJ)] ++ flags))
    | .error e => pure (Json.mkObj [("err", errJ e), ("stmts", stmtsJ)])
  | "stmt_pretty" =>
    let fromname ← match jopt j "fromname" with
      | none => pure none
      | some v => do let t ← v.getStr?; pure (some (toStr t))
    let aliases ← (← jarr j "aliases").toList.mapM fun a => do
      let arr ← a.getArr?
      if arr.size ≠ 2 then throw "alias"
      let n ← arr[0]!.getStr?
      let m ← optStr arr[1]!
      pure ((toStr n, m) : Alias)
    let p ← paramsOf j
    let col ← match jopt j "col" with
      | none => pure none
      | some v => do let n ← v.getNat?; pure (some n)
    let fs ← jnat j "fs"
    match Stmt.pretty ⟨fromname, aliases⟩ p col fs with
    | .ok t => pure (Json.mkObj [("ok", strJ t)])
    | .error e => pure (Json.mkObj [("err", errJ e)])
  | "parse" =>
    let t ← jstr j "text"
    match parseBlock (toStr t) with
    | some ss => pure (Json.mkObj [("ok", Json.arr (ss.map stmtJ).toArray)])
    | none => pure (Json.mkObj [("err", Json.str "SyntaxError")])
  | "fill" =>
    let toks ← jStrList (← jarr j "tokens")
    let g (k : String) : Except String Str := do pure (toStr (← jstr j k))
    let c : FillCfg := ⟨← g "sepN", ← g "sepT", ← g "pre1", ← g "preC", ← g "sufN", ← g "sufT", ← g "nl"⟩
    match fill c (← jnat j "N") toks with
    | .ok t => pure (Json.mkObj [("ok", strJ t)])
    | .error e => pure (Json.mkObj [("err", errJ e)])
  | "split" =>
    let s ← splitOf (← jobj j "split")
    let i := Imp.fromSplit s
    let s2 := i.split
    pure (Json.mkObj [("fullname", strJ i.fullname), ("import_as", strJ i.importAs),
                      ("split", Json.arr #[optStrJ s2.modName, strJ s2.member, optStrJ s2.asName])])
  | _ => throw s!"unknown op {op}"

def main : IO Unit := serve handle
