import Pfb.DriverUtil
import Pfb.C15.Props
open Lean Pfb Pfb.Drv Pfb.C15

def modeOf (s : String) : Except String Mode :=
  match s with
  | "string" => pure .string
  | "eval" => pure .eval
  | "auto" => pure .auto
  | _ => throw s!"mode {s}"

def specOf (j : Json) : Except String ArgSpec := do
  let args ← jStrList (← jarr j "args")
  let nd ← jnat j "ndefaults"
  let va ← jbool j "varargs"
  let ko ← jStrList (← jarr j "kwonly")
  let kd ← jStrList (← jarr j "kwdefaults")
  let vk ← jbool j "varkw"
  pure ⟨args, nd, va, ko, kd, vk⟩

def errJ : PErr → Json
  | .wantHelp => "wantHelp" | .wantSource => "wantSource" | .invalidOption => "invalidOption"
  | .unknownOption => "unknownOption" | .ambiguous => "ambiguous" | .missingArgEnd => "missingArgEnd"
  | .missingArgDashDash => "missingArgDashDash" | .bothPosKw => "bothPosKw"
  | .missingRequired => "missingRequired" | .missingRequiredKw => "missingRequiredKw"
  | .tooManyPos => "tooManyPos" | .evalError => "evalError"

def valJ : Val → Json
  | .raw s => Json.arr #["raw", strJ s]
  | .evaluated s => Json.arr #["eval", strJ s]
  | .dflt n => Json.arr #["default", strJ n]

def bindErrJ : BindErr → Json
  | .tooMany => "tooMany" | .multiple => "multiple" | .missing => "missing" | .missingKw => "missingKw"
  | .unexpected => "unexpected"

def amodeJ : Option AMode → Json
  | none => Json.null
  | some .string => "string" | some .eval => "eval" | some .auto => "auto" | some .error => "error"

def isAscii (s : Str) : Bool := s.all (fun c => c.toNat < 128)

def handle (j : Json) : Except String Json := do
  let op ← jstr j "op"
  match op with
  | "parse" =>
    let spec ← specOf (← jobj j "spec")
    let argv ← jStrList (← jarr j "argv")
    let stdin := toStr (← jstr j "stdin")
    let mode ← modeOf (← jstr j "mode")
    let idents ← jStrList (← jarr j "idents")          -- non-ASCII strings that are identifiers
    let parsable ← jStrList (← jarr j "parsable")
    let craises ← (match jarr j "compileRaises" with
      | .ok a => jStrList a
      | .error _ => pure [])
    let unimp ← jStrList (← jarr j "unimportable")
    let everr ← jStrList (← jarr j "evalerr")
    let exactFirst ← jbool j "exactFirst"
    let eqValue := (match jbool j "eqValue" with          -- tree with fixes/C15-H2.diff
      | .ok b => b
      | .error _ => false)
    let env : Env := {
      isIdent := fun s => if isAscii s then asciiIdent s else idents.contains s
      parsable := fun s => parsable.contains s
      compileRaises := fun s => craises.contains s
      outcome := fun s => if unimp.contains s then .unimportable else if everr.contains s then .error else .value
      exactFirst := exactFirst
      eqValue := eqValue }
    match parseAutoApply env spec argv stdin mode with
    | .error e => pure (Json.mkObj [("err", errJ e)])
    | .ok (a, k) =>
      -- the delivered call must itself bind (C15_delivered_binds), report it for the cross-check
      let b := match pyBind spec Val.dflt a k with
        | .ok _ => Json.bool true
        | .error e => bindErrJ e
      pure (Json.mkObj [("ok", Json.mkObj [("args", Json.arr (a.map valJ).toArray),
              ("kwargs", Json.arr (k.map fun (n, v) => Json.arr #[strJ n, valJ v]).toArray)]), ("binds", b)])
  | "bind" =>
    let spec ← specOf (← jobj j "spec")
    let pos ← jStrList (← jarr j "pos")
    let kwn ← jStrList (← jarr j "kw")
    let kw := kwn.map fun n => (n, (['k', ':'] ++ n : Str))
    match pyBind spec (fun n => (['d', ':'] ++ n : Str)) pos kw with
    | .error e => pure (Json.mkObj [("err", bindErrJ e)])
    | .ok b => pure (Json.mkObj [("ok", Json.mkObj [("args", strsJ b.args), ("star", strsJ b.star),
          ("kwonly", strsJ b.kwonly),
          ("starstar", Json.arr (b.starstar.map fun (n, v) => Json.arr #[strJ n, strJ v]).toArray)])])
  | "gopts" =>
    let argv ← jStrList (← jarr j "argv")
    match globalOpts argv none with
    | .error _ => pure (Json.mkObj [("err", "ValueError")])
    | .ok o => pure (Json.mkObj [("ok", Json.mkObj [("mode", amodeJ o.argMode), ("rest", strsJ o.rest)])])
  | _ => throw s!"unknown op {op}"

/-- `Json.compress` leaves code points ≥ 0x7f as they are; U+0085 / U+2028 / U+2029 would be taken for line ends by
    the harness (`str.splitlines`), so the answer line is made pure ASCII (`\\uXXXX`, surrogate pairs above the BMP). -/
def hex4 (n : Nat) : String :=
  let d (k : Nat) : Char := (Nat.toDigits 16 ((n / 16 ^ k) % 16)).headD '0'
  String.ofList [d 3, d 2, d 1, d 0]

def asciiOnly (s : String) : String :=
  s.foldl (fun acc c =>
    let n := c.toNat
    if n < 0x7f then acc.push c
    else if n < 0x10000 then acc ++ "\\u" ++ hex4 n
    else
      let m := n - 0x10000
      acc ++ "\\u" ++ hex4 (0xD800 + m / 0x400) ++ "\\u" ++ hex4 (0xDC00 + m % 0x400)) ""

partial def serveAscii (handle : Json → Except String Json) : IO Unit := do
  let stdin ← IO.getStdin
  let stdout ← IO.getStdout
  let rec loop : IO Unit := do
    let line ← stdin.getLine
    if line.isEmpty then return ()
    let out := match Json.parse line with
      | .error e => Json.mkObj [("fatal", Json.str ("json: " ++ e))]
      | .ok j =>
        let id := (j.getObjVal? "id").toOption.getD Json.null
        match handle j with
        | .ok r => r.setObjVal! "id" id
        | .error e => Json.mkObj [("id", id), ("fatal", Json.str e)]
    stdout.putStrLn (asciiOnly out.compress)
    loop
  loop
  stdout.flush

def main : IO Unit := serveAscii handle
