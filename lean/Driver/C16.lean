import Pfb.DriverUtil
import Pfb.C16.Model
open Lean Pfb Pfb.Drv Pfb.C16

def optStr (j : Json) (k : String) : Option Pfb.Str :=
  match jopt j k with
  | some (.str s) => some (toStr s)
  | _ => none

def pairsOf (a : Array Json) : Except String (List (Pfb.Str × Nat)) :=
  a.toList.mapM fun p => do
    let q ← p.getArr?
    if q.size ≠ 2 then throw "pair"
    let k ← q[0]!.getStr?
    let v ← q[1]!.getNat?
    pure (toStr k, v)

def objOf (j : Json) : Except String Obj := do
  let k ← jstr j "k"
  match k with
  | "func" =>
    pure (.func (toStr (← jstr j "name")) (optStr j "modn") (← jnat j "code") (← jnat j "defaults") (← jnat j "doc")
            (← jnat j "dict") (← jNatList (← jarr j "cells")) (← jStrList (← jarr j "freevars")))
  | "cls" =>
    let sl ← match jopt j "slots" with
      | some v => do let a ← v.getArr?; pure (some (← jStrList a))
      | none => pure none
    pure (.cls (toStr (← jstr j "name")) (optStr j "modn") sl (← jNatList (← jarr j "bases")) (← pairsOf (← jarr j "attrs")))
  | "dict" => pure (.dict (← pairsOf (← jarr j "entries")))
  | "inst" =>
    let d := match jopt j "dict" with
      | some v => v.getNat?.toOption
      | none => none
    pure (.inst (← jnat j "cls") d (← pairsOf (← jarr j "slots")))
  | "meth" => pure (.meth (← jnat j "func") (← jnat j "self"))
  | "smeth" => pure (.smeth (← jnat j "func"))
  | "cmeth" => pure (.cmeth (← jnat j "func"))
  | "module" => pure (.module (← jnat j "dict"))
  | "cell" => pure (.cell (← jnat j "content"))
  | "atom" => pure (.atom (toStr (← jstr j "ty")) (toStr (← jstr j "val")))
  | _ => throw s!"unknown object kind {k}"

def pairsJ (l : List (Pfb.Str × Nat)) : Json :=
  Json.arr (l.map fun (k, v) => Json.arr #[strJ k, natJ v]).toArray

def optStrJ : Option Pfb.Str → Json
  | some s => strJ s
  | none => Json.null

def objJ : Obj → Json
  | .func n m c d doc di cells fv =>
    Json.mkObj [("k", "func"), ("name", strJ n), ("modn", optStrJ m), ("code", natJ c), ("defaults", natJ d),
                ("doc", natJ doc), ("dict", natJ di), ("cells", natsJ cells), ("freevars", strsJ fv)]
  | .cls n m sl b a =>
    Json.mkObj [("k", "cls"), ("name", strJ n), ("modn", optStrJ m),
                ("slots", match sl with | some s => strsJ s | none => Json.null),
                ("bases", natsJ b), ("attrs", pairsJ a)]
  | .dict e => Json.mkObj [("k", "dict"), ("entries", pairsJ e)]
  | .inst c d sl =>
    Json.mkObj [("k", "inst"), ("cls", natJ c), ("dict", match d with | some x => natJ x | none => Json.null),
                ("slots", pairsJ sl)]
  | .meth f s => Json.mkObj [("k", "meth"), ("func", natJ f), ("self", natJ s)]
  | .smeth f => Json.mkObj [("k", "smeth"), ("func", natJ f)]
  | .cmeth f => Json.mkObj [("k", "cmeth"), ("func", natJ f)]
  | .module d => Json.mkObj [("k", "module"), ("dict", natJ d)]
  | .cell c => Json.mkObj [("k", "cell"), ("content", natJ c)]
  | .atom t v => Json.mkObj [("k", "atom"), ("ty", strJ t), ("val", strJ v)]

def errJ : Err → Json
  | .fuel => "fuel" | .stuck => "stuck" | .keyError => "KeyError" | .assertion => "AssertionError"
  | .typeError => "TypeError" | .attributeError => "AttributeError" | .syntaxError => "SyntaxError"
  | .execFailed i => Json.mkObj [("execFailed", natJ i)]

def fixesOf (j : Json) : Fixes :=
  let f (k : String) : Bool := match j.getObjVal? "fixes" with
    | .ok v => (v.getObjValAs? Bool k).toOption.getD false
    | .error _ => false
  { d18 := f "d18", d41 := f "d41", d44 := f "d44", d45 := f "d45", d52 := f "d52" }

/-- "dyn": [[id, "f", typeName] | [id, "h", classId]] -/
def dynOfJ (j : Json) : List (Nat × DynTy) :=
  match j.getObjVal? "dyn" with
  | .ok (.arr a) => a.toList.filterMap fun e =>
      match e with
      | .arr #[i, .str "f", .str n] => (i.getNat?.toOption).map fun k => (k, DynTy.foreign (toStr n))
      | .arr #[i, .str "h", c] => match i.getNat?.toOption, c.getNat?.toOption with
        | some k, some cc => some (k, DynTy.heap cc)
        | _, _ => none
      | _ => none
  | _ => []

def handle (j : Json) : Except String Json := do
  let op ← jstr j "op"
  match op with
  | "xreload" =>
    let heap ← (← jarr j "heap").toList.mapM objOf
    let sysmods ← pairsOf (← jarr j "sysmods")
    let objs ← (← jarr j "objs").toList.mapM objOf
    let outcome := match jopt j "fail" with
      | some v => ExecOutcome.fail (v.getNat?.toOption.getD 0) objs
      | none => ExecOutcome.ok objs
    let inp : ReloadIn := { name := toStr (← jstr j "name"), module := ← jnat j "module",
                            compileOk := ← jbool j "compileOk", outcome := outcome,
                            mtime := ← objOf (← jobj j "mtime"), fuel := ← jnat j "fuel", fx := fixesOf j, dyn := dynOfJ j }
    -- the mtime / unchanged-text guard (absent fields: the reload is attempted)
    let lt := (j.getObjValAs? Nat "loadtime").toOption.getD 0
    let mt := (j.getObjValAs? Nat "mtimeNs").toOption.getD lt
    let same := (j.getObjValAs? Bool "same").toOption.getD false
    let (w, g) := xreloadGuarded { heap := heap, sysmods := sysmods } inp lt mt same
    let (res, skipped) := match g with
      | .notModified => (Json.mkObj [("ok", natJ inp.module)], Json.str "not modified since load")
      | .sameText => (Json.mkObj [("ok", natJ inp.module)], Json.str "text unchanged")
      | .ran (.ok m) => (Json.mkObj [("ok", natJ m)], Json.null)
      | .ran (.error e) => (Json.mkObj [("err", errJ e)], Json.null)
    pure (Json.mkObj [("result", res), ("skipped", skipped), ("heap", Json.arr (w.heap.map objJ).toArray),
                      ("sysmods", pairsJ w.sysmods)])
  | "livepatch" =>
    let heap ← (← jarr j "heap").toList.mapM objOf
    let sysmods ← pairsOf (← jarr j "sysmods")
    let cx : Ctx := { modname := optStr j "modname", sysmods := sysmods, fx := fixesOf j, dyn := dynOfJ j }
    match livepatch cx (← jnat j "fuel") heap (← jnat j "old") (← jnat j "new") with
    | .ok (r, h) => pure (Json.mkObj [("result", Json.mkObj [("ok", natJ r)]), ("heap", Json.arr (h.map objJ).toArray)])
    | .error e => pure (Json.mkObj [("result", Json.mkObj [("err", errJ e)])])
  | _ => throw s!"unknown op {op}"

def main : IO Unit := serve handle
