/-
  Pfb.Basic — shared definitions for the pyflyby models.

  Text is modelled as `List Char` (Python `len` and `List.length` both count
  code points).  No Mathlib in model files.
-/
namespace Pfb

abbrev Str := List Char

/-- `"\n".join(lines)` -/
def joinNl : List Str → Str
  | [] => []
  | [l] => l
  | l :: l' :: ls => l ++ '\n' :: joinNl (l' :: ls)

/-- `s.split("\n")` — always non-empty. -/
def splitNl : Str → List Str
  | [] => [[]]
  | c :: cs =>
    if c = '\n' then [] :: splitNl cs
    else match splitNl cs with
      | [] => [[c]]
      | l :: ls => (c :: l) :: ls

theorem splitNl_ne_nil (s : Str) : splitNl s ≠ [] := by
  induction s with
  | nil => simp [splitNl]
  | cons c cs ih =>
    unfold splitNl
    split
    · simp
    · split <;> simp

theorem joinNl_cons_cons (l l' : Str) (ls : List Str) :
    joinNl (l :: l' :: ls) = l ++ '\n' :: joinNl (l' :: ls) := rfl

theorem joinNl_cons_ne (l : Str) (ls : List Str) (h : ls ≠ []) :
    joinNl (l :: ls) = l ++ '\n' :: joinNl ls := by
  cases ls with
  | nil => exact absurd rfl h
  | cons a as => rfl

@[simp] theorem joinNl_splitNl (s : Str) : joinNl (splitNl s) = s := by
  induction s with
  | nil => simp [splitNl, joinNl]
  | cons c cs ih =>
    unfold splitNl
    split
    · rename_i h
      rw [joinNl_cons_ne _ _ (splitNl_ne_nil cs), ih]; simp [h]
    · have hne := splitNl_ne_nil cs
      split
      · rename_i h; exact absurd h hne
      · rename_i l ls h
        rw [h] at ih
        cases ls with
        | nil => simp [joinNl] at ih ⊢; exact ih
        | cons a as =>
          simp only [joinNl_cons_cons] at ih ⊢
          simp [← ih]

/-- No line produced by `splitNl` contains a newline. -/
theorem splitNl_no_nl (s : Str) : ∀ l ∈ splitNl s, '\n' ∉ l := by
  induction s with
  | nil => simp [splitNl]
  | cons c cs ih =>
    unfold splitNl
    split
    · intro l hl
      simp at hl
      rcases hl with rfl | hl
      · simp
      · exact ih l hl
    · rename_i hc
      split
      · intro l hl; simp at hl; subst hl; simp; exact fun h => hc h.symm
      · rename_i a as h
        intro l hl
        simp at hl
        rw [h] at ih
        rcases hl with rfl | hl
        · have := ih a (by simp)
          simp; exact ⟨fun h => hc h.symm, this⟩
        · exact ih l (by simp [hl])

/-- Python `str.isspace` for one character (the Unicode White_Space set that
    `str.strip()` removes). -/
def isPySpace (c : Char) : Bool :=
  let n := c.toNat
  (9 ≤ n && n ≤ 13) || (28 ≤ n && n ≤ 32) || n = 0x85 || n = 0xa0 || n = 0x1680
  || (0x2000 ≤ n && n ≤ 0x200a) || n = 0x2028 || n = 0x2029 || n = 0x202f
  || n = 0x205f || n = 0x3000

def endsWith (s suf : Str) : Bool := suf.isSuffixOf s

def startsWith (s pre : Str) : Bool := pre.isPrefixOf s

/-- lexicographic `<` on code points: Python's `str.__lt__`. -/
def strLt : Str → Str → Bool
  | [], [] => false
  | [], _ :: _ => true
  | _ :: _, [] => false
  | a :: as, b :: bs => a.toNat < b.toNat || (a = b && strLt as bs)

def strLe (a b : Str) : Bool := !strLt b a

end Pfb
