/-
  Pfb.TextLemmas — positions as offsets; "a slice is the substring between the
  two offsets"; helper lemmas used by C10 / C01 / C03.
-/
import Pfb.Text
namespace Pfb

/-- substring `s[a:b]` -/
def extract {α} (s : List α) (a b : Nat) : List α := (s.take b).drop a

theorem extract_append {α} (s : List α) (a b c : Nat) (hab : a ≤ b) (hbc : b ≤ c) :
    extract s a b ++ extract s b c = extract s a c := by
  unfold extract
  have h1 : s.take b = (s.take c).take b := by
    rw [List.take_take, Nat.min_eq_left hbc]
  rw [h1]
  generalize s.take c = u
  have h2 : u.drop a = (u.take b ++ u.drop b).drop a := by rw [List.take_append_drop]
  rw [h2, List.drop_append]
  congr 1
  by_cases h : a ≤ (u.take b).length
  · have : a - (u.take b).length = 0 := by omega
    rw [this]; simp
  · have hl : u.length < b := by
      rw [List.length_take] at h
      omega
    have : u.drop b = [] := List.drop_eq_nil_of_le (by omega)
    rw [this]; simp

theorem extract_full {α} (s : List α) : extract s 0 s.length = s := by
  simp [extract]

/-! ### Validity of a position and its offset -/

def FText.colOff (t : FText) (i : Nat) : Nat := if i = 0 then t.start.col else 1

/-- `p` denotes a character position of `t` (or the position just after a line's
    last character): exactly the positions `_lineno_to_index`/`_colno_to_index` accept. -/
structure Valid (t : FText) (p : Pos) : Prop where
  hl : t.start.line ≤ p.line
  hi : p.line - t.start.line < t.lines.length
  hc : t.colOff (p.line - t.start.line) ≤ p.col
  hlen : p.col - t.colOff (p.line - t.start.line) ≤ (t.lines.getD (p.line - t.start.line) []).length

/-- offset of `p` in `t.joined` -/
def FText.off (t : FText) (p : Pos) : Nat :=
  lcOff t.lines (p.line - t.start.line) (p.col - t.colOff (p.line - t.start.line))

theorem lineIdx_ok {t : FText} {p : Pos} (v : Valid t p) :
    t.lineIdx p.line = .ok (p.line - t.start.line) := by
  unfold FText.lineIdx
  have := v.hl; have := v.hi
  simp [show ¬ p.line < t.start.line by omega, v.hi]

theorem colIdx_ok {t : FText} {p : Pos} (v : Valid t p) :
    t.colIdx (p.line - t.start.line) p.col = .ok (p.col - t.colOff (p.line - t.start.line)) := by
  unfold FText.colIdx
  have h1 := v.hc; have h2 := v.hlen
  unfold FText.colOff at h1 h2 ⊢
  simp only []
  rw [if_neg (by omega), if_pos h2]

theorem lcOff_le_length (lines : List Str) (i c : Nat) (hi : i < lines.length)
    (hc : c ≤ (lines.getD i []).length) : lcOff lines i c ≤ (joinNl lines).length := by
  have h := lcOff_take lines i c hi hc
  have : ((joinNl lines).take (lcOff lines i c)).length = (joinNl (lines.take i ++ [(lines.getD i []).take c])).length := by
    rw [h]
  rw [List.length_take] at this
  -- length of the prefix equals lcOff by a direct computation
  clear h this
  induction lines generalizing i with
  | nil => simp at hi
  | cons l ls ih =>
    cases i with
    | zero =>
      simp [lcOff] at hc ⊢
      cases ls with
      | nil => simpa [joinNl] using hc
      | cons a as => simp only [joinNl_cons_cons, List.length_append, List.length_cons]; omega
    | succ j =>
      have hj : j < ls.length := by simpa using hi
      have hne : ls ≠ [] := by intro h; simp [h] at hj
      rw [joinNl_cons_ne _ _ hne]
      simp only [lcOff, List.length_append, List.length_cons]
      have := ih j hj (by simpa using hc)
      omega

theorem lcOff_end (lines : List Str) (hne : lines ≠ []) :
    lcOff lines (lines.length - 1) ((lines.getLast?.getD []).length) = (joinNl lines).length := by
  induction lines with
  | nil => exact absurd rfl hne
  | cons l ls ih =>
    cases ls with
    | nil => simp [lcOff, joinNl]
    | cons a as =>
      have := ih (by simp)
      simp only [joinNl_cons_cons, List.length_append, List.length_cons] at this ⊢
      simp only [List.length_cons, Nat.add_sub_cancel] at this ⊢
      simp only [lcOff]
      rw [List.getLast?_cons_cons]
      omega

theorem lcOff_mono (lines : List Str) (i1 c1 i2 c2 : Nat) (h1 : i1 < lines.length)
    (hc1 : c1 ≤ (lines.getD i1 []).length)
    (hle : i1 < i2 ∨ (i1 = i2 ∧ c1 ≤ c2)) : lcOff lines i1 c1 ≤ lcOff lines i2 c2 := by
  induction lines generalizing i1 i2 with
  | nil => simp at h1
  | cons l ls ih =>
    cases i1 with
    | zero =>
      cases i2 with
      | zero => simp [lcOff]; omega
      | succ j2 =>
        simp [lcOff] at hc1 ⊢
        omega
    | succ j1 =>
      cases i2 with
      | zero => omega
      | succ j2 =>
        simp only [lcOff]
        have := ih j1 j2 (by simpa using h1) (by simpa using hc1) (by omega)
        omega

theorem off_le_length {t : FText} {p : Pos} (v : Valid t p) : t.off p ≤ t.joined.length :=
  lcOff_le_length t.lines _ _ v.hi v.hlen

theorem off_mono {t : FText} {a b : Pos} (va : Valid t a) (vb : Valid t b) (h : a.le b = true) :
    t.off a ≤ t.off b := by
  unfold FText.off
  apply lcOff_mono _ _ _ _ _ va.hi va.hlen
  unfold Pos.le at h
  have := va.hl; have := vb.hl
  simp at h
  rcases h with h | ⟨h1, h2⟩
  · left; omega
  · right
    rw [h1]
    exact ⟨rfl, by omega⟩

/-- **A slice is the substring between the two offsets** and starts at `a`. -/
theorem slice_joined {t : FText} {a b : Pos} (hne : t.lines ≠ [])
    (va : Valid t a) (vb : Valid t b) (h : a.le b = true) :
    ∃ r, t.slice a b = .ok r ∧ r.joined = extract t.joined (t.off a) (t.off b) ∧ r.start = a := by
  unfold FText.slice
  rw [lineIdx_ok va, lineIdx_ok vb]
  simp only [bind, Except.bind]
  rw [colIdx_ok va, colIdx_ok vb]
  simp only []
  have hl1 := va.hl; have hl2 := vb.hl
  have hle : a.line - t.start.line ≤ b.line - t.start.line := by
    unfold Pos.le at h; simp at h; omega
  rw [if_neg (by simpa using hle)]
  split
  · rename_i hfull
    refine ⟨t, rfl, ?_, ?_⟩
    · obtain ⟨h1, h2, h3, h4⟩ := hfull
      unfold FText.off FText.joined
      rw [h2, h4, h1, h3, lcOff_end _ hne]
      simp [lcOff, extract]
    · obtain ⟨h1, h2, _, _⟩ := hfull
      have hc := va.hc
      rw [h1] at h2 hc
      simp [FText.colOff] at h2 hc
      cases a; cases hs : t.start
      simp_all
      omega
  · refine ⟨_, rfl, ?_, ?_⟩
    · unfold FText.joined FText.off extract
      simp only []
      apply sliceLines_joined _ _ _ _ _ vb.hi vb.hlen hle va.hlen
      intro he
      unfold Pos.le at h; simp at h
      have hc1 := va.hc; have hc2 := vb.hc
      rw [he] at hc1 ⊢
      rcases h with h | ⟨h1, h2⟩
      · omega
      · omega
    · have hc := va.hc
      simp only [FText.colOff] at hc ⊢
      cases a with
      | mk al ac =>
        simp only [Pos.mk.injEq] at *
        refine ⟨by omega, ?_⟩
        by_cases h0 : al - t.start.line = 0
        · simp only [h0, if_true] at hc ⊢; omega
        · simp only [h0, if_false] at hc ⊢; omega

/-- The lines of a slice that does not start on the first line of the text. -/
theorem slice_lines {t : FText} {a b : Pos} (va : Valid t a) (vb : Valid t b) (h : a.le b = true)
    (hnz : a.line - t.start.line ≠ 0) :
    ∃ r, t.slice a b = .ok r ∧
      r.lines = sliceLines t.lines (a.line - t.start.line) (a.col - t.colOff (a.line - t.start.line))
                  (b.line - t.start.line) (b.col - t.colOff (b.line - t.start.line)) := by
  unfold FText.slice
  rw [lineIdx_ok va, lineIdx_ok vb]
  simp only [bind, Except.bind]
  rw [colIdx_ok va, colIdx_ok vb]
  simp only []
  have hl1 := va.hl; have hl2 := vb.hl
  have hle : a.line - t.start.line ≤ b.line - t.start.line := by
    unfold Pos.le at h; simp at h; omega
  rw [if_neg (by simpa using hle)]
  rw [if_neg (by intro hh; exact hnz hh.1)]
  exact ⟨_, rfl, rfl⟩

theorem lcOff_strict (lines : List Str) (i1 c1 i2 c2 : Nat) (h1 : i1 < lines.length)
    (hc1 : c1 ≤ (lines.getD i1 []).length)
    (hlt : i1 < i2 ∨ (i1 = i2 ∧ c1 < c2)) : lcOff lines i1 c1 < lcOff lines i2 c2 := by
  induction lines generalizing i1 i2 with
  | nil => simp at h1
  | cons l ls ih =>
    cases i1 with
    | zero =>
      cases i2 with
      | zero => simp [lcOff]; omega
      | succ j2 =>
        simp [lcOff] at hc1 ⊢
        omega
    | succ j1 =>
      cases i2 with
      | zero => omega
      | succ j2 =>
        simp only [lcOff]
        have := ih j1 j2 (by simpa using h1) (by simpa using hc1) (by omega)
        omega

theorem off_strict {t : FText} {a b : Pos} (va : Valid t a) (vb : Valid t b) (h : a.lt b = true) :
    t.off a < t.off b := by
  unfold FText.off
  apply lcOff_strict _ _ _ _ _ va.hi va.hlen
  unfold Pos.lt at h
  have := va.hl; have := vb.hl
  have hca := va.hc; have hcb := vb.hc
  simp at h
  rcases h with h | ⟨h1, h2⟩
  · left; omega
  · right
    rw [h1] at hca ⊢
    exact ⟨rfl, by omega⟩

theorem extract_head {α} (s : List α) (a b : Nat) (hab : a < b) (hb : b ≤ s.length) :
    (extract s a b).head? = s[a]? := by
  unfold extract
  rw [List.head?_drop, List.getElem?_take]
  simp [hab]

end Pfb
