/-
  Pfb.C09.Lemmas — helper lemmas about the C09 model: the file-system primitives, the cached
  attributes of `Modifier`, one action (`step`), the action loop of one file (`runActions`) and the
  loop over files (`processFiles`).
-/
import Pfb.C09.Model
namespace Pfb.C09

/-! ### File system -/

@[simp] theorem FS.update_same (fs : FS) (p : Path) (n : Node) : (fs.update p n) p = some n := by
  simp [FS.update]

theorem FS.update_other (fs : FS) {p q : Path} (n : Node) (h : q ≠ p) : (fs.update p n) q = fs q := by
  simp [FS.update, h]

theorem FS.update_update (fs : FS) (p : Path) (n m : Node) : (fs.update p n).update p m = fs.update p m := by
  funext q; by_cases h : q = p <;> simp [FS.update, h]

theorem FS.update_ne_iff (fs : FS) {p q : Path} {n : Node} (h : (fs.update p n) q ≠ fs q) : q = p := by
  by_cases hq : q = p
  · exact hq
  · exact absurd (FS.update_other fs n hq) h

theorem resolveN_nonlink {fs : FS} : ∀ {n : Nat} {p q : Path}, resolveN fs n p = some q → isLink fs q = false
  | 0, p, q, h => by simp [resolveN] at h
  | n + 1, p, q, h => by
    unfold resolveN at h
    split at h
    · simp at h
    · exact resolveN_nonlink h
    · rename_i node hne hp
      simp at h; subst h
      unfold isLink
      split
      · rename_i t ht
        exact absurd ht (by rw [hp]; intro hh; injection hh with hh; exact hne _ hh)
      · rfl

theorem resolveN_exists {fs : FS} : ∀ {n : Nat} {p q : Path}, resolveN fs n p = some q → fs q ≠ none
  | 0, p, q, h => by simp [resolveN] at h
  | n + 1, p, q, h => by
    unfold resolveN at h
    split at h
    · simp at h
    · exact resolveN_exists h
    · rename_i node hne hp
      simp at h; subst h
      rw [hp]; simp

/-- Something that is not a symlink and exists resolves to itself. -/
theorem resolve_self {fs : FS} {q : Path} (hl : isLink fs q = false) (he : fs q ≠ none) : resolve fs q = some q := by
  unfold resolve linkFuel
  unfold resolveN
  split
  · rename_i h; exact absurd h he
  · rename_i t h; simp [isLink, h] at hl
  · rfl

theorem resolve_nonlink {fs : FS} {p q : Path} (h : resolve fs p = some q) : isLink fs q = false :=
  resolveN_nonlink h

theorem resolve_idem {fs : FS} {p q : Path} (h : resolve fs p = some q) : resolve fs q = some q :=
  resolve_self (resolveN_nonlink h) (resolveN_exists h)

theorem contentAt_resolve {fs : FS} {p q : Path} (h : resolve fs p = some q) : contentAt fs q = contentAt fs p := by
  unfold contentAt
  rw [resolve_idem h, h]

theorem contentAt_file {fs : FS} {q : Path} {c : Content} {g : Bool} (h : fs q = some (.file c g)) :
    contentAt fs q = some c := by
  have : resolve fs q = some q := resolve_self (by simp [isLink, h]) (by simp [h])
  simp [contentAt, this, h]

theorem isLink_update_file (fs : FS) (p : Path) (o : Content) (g : Bool) : isLink (fs.update p (.file o g)) p = false := by
  simp [isLink]

/-- Resolution survives any change of the file system that keeps every symlink and turns nothing that
    exists and is not a symlink into a symlink or into nothing (which is all the action loop can do). -/
theorem resolveN_stable {fs fs' : FS} (hlink : ∀ x, isLink fs x = true → fs' x = fs x)
    (hnodes : ∀ x, fs' x = fs x ∨ ∃ o, fs' x = some (.file o false)) :
    ∀ (n : Nat) (p q : Path), resolveN fs n p = some q → resolveN fs' n p = some q
  | 0, p, q, h => by simp [resolveN] at h
  | n + 1, p, q, h => by
    unfold resolveN at h ⊢
    split at h
    · simp at h
    · rename_i t hp
      have : fs' p = some (.link t) := by rw [hlink p (by simp [isLink, hp]), hp]
      rw [this]
      exact resolveN_stable hlink hnodes n t q h
    · rename_i node hne hp
      rcases hnodes p with h1 | ⟨o, h1⟩
      · rw [h1, hp]
        cases node with
        | link t => exact absurd rfl (hne t)
        | file c g => exact h
        | dir es => exact h
      · rw [h1]; exact h

theorem isLink_stable {fs fs' : FS} (hlink : ∀ x, isLink fs x = true → fs' x = fs x) {p : Path}
    (h : isLink fs p = true) : isLink fs' p = true := by
  have := hlink p h
  unfold isLink at h ⊢; rw [this]; exact h

/-! ### The cached attributes -/

theorem getInput_ok {env : Env} {fs : FS} {st st1 : MState} {c : Content} {ev : List Event}
    (h : getInput env fs st = .ok (st1, c, ev)) :
    st1.cur = st.cur ∧ st1.out = st.out ∧ st1.inp = some c ∧
      ((st.inp = some c ∧ st1 = st) ∨ (st.inp = none ∧ contentAt fs st.cur = some c ∧ env.readable c = true)) := by
  unfold getInput at h
  split at h
  · rename_i c' hc
    simp at h
    obtain ⟨h1, h2, _⟩ := h
    subst h1; subst h2
    simp [hc]
  · rename_i hn
    split at h
    · simp at h
    · rename_i c' hc
      split at h
      · rename_i hr
        simp at h
        obtain ⟨h1, h2, _⟩ := h
        subst h1; subst h2
        simp [hn, hc, hr]
      · simp at h

theorem getOutput_ok {env : Env} {fs : FS} {st st1 : MState} {o : Content} {ev : List Event}
    (h : getOutput env fs st = .ok (st1, o, ev)) :
    st1.cur = st.cur ∧ st1.out = some o ∧
      ((st.out = some o ∧ st1 = st) ∨
       (st.out = none ∧ ∃ c, st1.inp = some c ∧ env.rw c = some o ∧
          ((st.inp = some c) ∨ (st.inp = none ∧ contentAt fs st.cur = some c ∧ env.readable c = true)))) := by
  unfold getOutput at h
  split at h
  · rename_i o' ho
    simp at h
    obtain ⟨h1, h2, _⟩ := h
    subst h1; subst h2
    simp [ho]
  · rename_i hn
    split at h
    · simp at h
    · rename_i st2 c ev2 hi
      have hI := getInput_ok hi
      split at h
      · simp at h
      · rename_i o' hrw
        simp at h
        obtain ⟨h1, h2, _⟩ := h
        subst h1; subst h2
        refine ⟨hI.1, rfl, Or.inr ⟨hn, c, hI.2.2.1, hrw, ?_⟩⟩
        rcases hI.2.2.2 with ⟨h3, _⟩ | ⟨h3, h4, h5⟩
        · exact Or.inl h3
        · exact Or.inr ⟨h3, h4, h5⟩

/-- Coherence of the `Modifier` caches with the file as it was when its processing began
    (`fs0`, content `c0`), and the only shape the file system can have taken since. -/
structure Inv (env : Env) (fs0 : FS) (c0 : Option Content) (fs : FS) (st : MState) : Prop where
  out_inp : st.inp = none → st.out = none
  inp : ∀ c, st.inp = some c → c0 = some c ∧ env.readable c = true
  out : ∀ o, st.out = some o → ∃ c, st.inp = some c ∧ env.rw c = some o
  cur : contentAt fs0 st.cur = c0
  shape : fs = fs0 ∨ ∃ o, st.out = some o ∧ fs = fs0.update st.cur (.file o false)

theorem Inv.fresh (env : Env) (fs0 : FS) (p : Path) : Inv env fs0 (contentAt fs0 p) fs0 (MState.fresh p) :=
  ⟨fun _ => rfl, fun c h => by simp [MState.fresh] at h, fun o h => by simp [MState.fresh] at h, rfl, Or.inl rfl⟩

theorem Inv.getOutput {env : Env} {fs0 fs : FS} {c0 : Option Content} {st st1 : MState} {o : Content}
    {ev : List Event} (hJ : Inv env fs0 c0 fs st) (h : getOutput env fs st = .ok (st1, o, ev)) :
    Inv env fs0 c0 fs st1 := by
  obtain ⟨hcur, hout, hcase⟩ := getOutput_ok h
  rcases hcase with ⟨_, heq⟩ | ⟨hno, c, hinp1, hrw, hsrc⟩
  · rw [heq]; exact hJ
  · have hfs : fs = fs0 := by
      rcases hJ.shape with h1 | ⟨o', ho', _⟩
      · exact h1
      · rw [hno] at ho'; simp at ho'
    refine ⟨?_, ?_, ?_, ?_, Or.inl hfs⟩
    · intro hn; rw [hinp1] at hn; simp at hn
    · intro c' hc'
      rw [hinp1] at hc'; simp at hc'; subst hc'
      rcases hsrc with h1 | ⟨_, h2, h3⟩
      · exact hJ.inp c h1
      · refine ⟨?_, h3⟩
        rw [← hJ.cur, ← hfs]; exact h2
    · intro o' ho'
      rw [hout] at ho'; simp at ho'; subst ho'
      exact ⟨c, hinp1, hrw⟩
    · rw [hcur]; exact hJ.cur

theorem withOutput_cases (env : Env) (fs : FS) (st : MState) (ans : List Str)
    (k : MState → Content → List Event → Res) :
    (∃ e ev, getOutput env fs st = .error (e, ev) ∧ withOutput env fs st ans k = ⟨fs, st, ans, ev, .error e⟩) ∨
    (∃ st1 o ev, getOutput env fs st = .ok (st1, o, ev) ∧ withOutput env fs st ans k = k st1 o ev) := by
  unfold withOutput
  split
  · rename_i e ev h; exact Or.inl ⟨e, ev, h, rfl⟩
  · rename_i st1 o ev h; exact Or.inr ⟨st1, o, ev, h, rfl⟩

/-! ### One action -/

/-- The only action that changes the file system is a completed REPLACE, which writes the cached
    output at `m.filename`. -/
theorem step_fs (env : Env) (a : Action) (fs : FS) (st : MState) (ans : List Str) :
    (step env a fs st ans).fs = fs ∨
    (a = .replace ∧ (step env a fs st ans).oc = .done ∧ (step env a fs st ans).st.cur = st.cur ∧
      ∃ o, (step env a fs st ans).st.out = some o ∧ (step env a fs st ans).fs = fs.update st.cur (.file o false)) := by
  cases a with
  | replace =>
    rcases withOutput_cases env fs st ans _ with ⟨e, ev, _, h2⟩ | ⟨st1, o, ev, h1, h2⟩
    · left; simp only [step]; rw [h2]
    · obtain ⟨hc, ho, _⟩ := getOutput_ok h1
      by_cases hw : env.writable st1.cur = true
      · right
        have hs : step env .replace fs st ans = ⟨fs.update st1.cur (.file o false), st1, ans, ev ++ [.write st1.cur o], .done⟩ := by
          simp only [step]; rw [h2]; simp [hw]
        rw [hs]
        exact ⟨rfl, rfl, hc, o, ho, by simp [hc]⟩
      · left
        have hs : step env .replace fs st ans = ⟨fs, st1, ans, ev ++ [.writeFailed st1.cur], .error .io⟩ := by
          simp only [step]; rw [h2]; simp [hw]
        rw [hs]
  | print | diff | exec =>
    left
    rcases withOutput_cases env fs st ans _ with ⟨e, ev, _, h2⟩ | ⟨st1, o, ev, _, h2⟩ <;>
      (simp only [step]; rw [h2])
  | ifchanged =>
    left
    rcases withOutput_cases env fs st ans _ with ⟨e, ev, _, h2⟩ | ⟨st1, o, ev, _, h2⟩
    · simp only [step]; rw [h2]
    · simp only [step]; rw [h2]
      split
      · rfl
      · split <;> rfl
  | exit1 => left; rfl
  | query n =>
    left
    simp only [step]
    split
    · rfl
    · split <;> rfl
  | symlink pol =>
    left
    cases pol <;> simp only [step] <;> (try split) <;> (try split) <;> rfl

theorem step_notdone_fs {env : Env} {a : Action} {fs : FS} {st : MState} {ans : List Str}
    (h : (step env a fs st ans).oc ≠ .done) : (step env a fs st ans).fs = fs := by
  rcases step_fs env a fs st ans with h1 | ⟨_, h2, _⟩
  · exact h1
  · exact absurd h2 h

theorem Inv.getInput {env : Env} {fs0 fs : FS} {c0 : Option Content} {st st1 : MState} {c : Content}
    {ev : List Event} (hJ : Inv env fs0 c0 fs st) (h : getInput env fs st = .ok (st1, c, ev)) :
    Inv env fs0 c0 fs st1 := by
  obtain ⟨hcur, hout, hinp, hcase⟩ := getInput_ok h
  rcases hcase with ⟨_, heq⟩ | ⟨hno, hc, hr⟩
  · rw [heq]; exact hJ
  · have hon : st.out = none := hJ.out_inp hno
    have hfs : fs = fs0 := by
      rcases hJ.shape with h1 | ⟨o', ho', _⟩
      · exact h1
      · rw [hon] at ho'; simp at ho'
    refine ⟨?_, ?_, ?_, ?_, Or.inl hfs⟩
    · intro hn; rw [hinp] at hn; simp at hn
    · intro c' hc'
      rw [hinp] at hc'; simp at hc'; subst hc'
      refine ⟨?_, hr⟩
      rw [← hJ.cur, ← hfs]; exact hc
    · intro o' ho'; rw [hout, hon] at ho'; simp at ho'
    · rw [hcur]; exact hJ.cur

/-- Shape of `step` for the four actions that only need `m.output_content`. -/
theorem step_out_cases (env : Env) (a : Action) (fs : FS) (st : MState) (ans : List Str)
    (ha : a = .print ∨ a = .diff ∨ a = .exec ∨ a = .replace) :
    (∃ e ev, getOutput env fs st = .error (e, ev) ∧ step env a fs st ans = ⟨fs, st, ans, ev, .error e⟩) ∨
    (∃ st1 o ev, getOutput env fs st = .ok (st1, o, ev) ∧
      (step env a fs st ans).fs =
        (if a = .replace ∧ env.writable st1.cur = true then fs.update st1.cur (.file o false) else fs) ∧
      (step env a fs st ans).st = st1 ∧ (step env a fs st ans).ans = ans ∧
      (step env a fs st ans).oc = (if a = .replace ∧ env.writable st1.cur = false then .error .io else .done)) := by
  rcases ha with h | h | h | h <;> subst h <;>
    rcases withOutput_cases env fs st ans _ with ⟨e, ev, h1, h2⟩ | ⟨st1, o, ev, h1, h2⟩
  all_goals first
    | (left; exact ⟨e, ev, h1, by simp only [step]; rw [h2]⟩)
    | (right; refine ⟨st1, o, ev, h1, ?_⟩; simp only [step]; rw [h2]
       by_cases hw : env.writable st1.cur = true <;> simp [hw])

/-- Shape of `step` for IFCHANGED. -/
theorem step_ifchanged_cases (env : Env) (fs : FS) (st : MState) (ans : List Str) :
    (∃ e ev, getOutput env fs st = .error (e, ev) ∧ step env .ifchanged fs st ans = ⟨fs, st, ans, ev, .error e⟩) ∨
    (∃ st1 o ev, getOutput env fs st = .ok (st1, o, ev) ∧
      ((∃ e, getInput env fs st1 = .error e ∧ step env .ifchanged fs st ans = ⟨fs, st1, ans, ev, .error e⟩) ∨
       (∃ st2 c ev2, getInput env fs st1 = .ok (st2, c, ev2) ∧
          step env .ifchanged fs st ans = ⟨fs, st2, ans, ev ++ ev2, if o = c then .aborted else .done⟩))) := by
  rcases withOutput_cases env fs st ans _ with ⟨e, ev, h1, h2⟩ | ⟨st1, o, ev, h1, h2⟩
  · left; exact ⟨e, ev, h1, by simp only [step]; rw [h2]⟩
  · right
    refine ⟨st1, o, ev, h1, ?_⟩
    cases hI : getInput env fs st1 with
    | error e =>
      left; refine ⟨e, rfl, ?_⟩
      simp only [step]; rw [h2]; simp [hI]
    | ok v =>
      obtain ⟨st2, c, ev2⟩ := v
      right; refine ⟨st2, c, ev2, rfl, ?_⟩
      simp only [step]; rw [h2]; simp only [hI]
      split <;> rfl

/-- Actions that never touch the Modifier. -/
theorem step_simple (env : Env) (a : Action) (fs : FS) (st : MState) (ans : List Str)
    (ha : a = .exit1 ∨ (∃ n, a = .query n) ∨ a = .symlink .error ∨ a = .symlink .skip ∨ a = .symlink .replace) :
    (step env a fs st ans).fs = fs ∧ (step env a fs st ans).st = st := by
  rcases ha with h | ⟨n, h⟩ | h | h | h <;> subst h <;> simp only [step]
  · simp
  · split
    · simp
    · split <;> simp
  · split <;> simp
  · split <;> simp
  · simp

/-- `symlink_follow` meets a symlink whose real path `Filename` refuses. -/
def followRefused (env : Env) (fs : FS) (st : MState) : Bool :=
  isLink fs st.cur && !env.realSafe ((resolve fs st.cur).getD st.cur)

/-- `symlink_follow` when `Filename(realpath)` raises: an ordinary exception, the Modifier is as it was. -/
theorem step_follow_refused {env : Env} {fs : FS} {st : MState} (ans : List Str)
    (h : followRefused env fs st = true) :
    step env (.symlink .follow) fs st ans = ⟨fs, st, ans, [], .error .unsafeTarget⟩ := by
  simp only [followRefused, Bool.and_eq_true, Bool.not_eq_true'] at h
  simp only [step, h.1, h.2]
  simp

/-- `symlink_follow` otherwise (not a symlink, or a symlink with an acceptable real path). -/
theorem step_follow {env : Env} {fs : FS} {st : MState} (ans : List Str)
    (h : followRefused env fs st = false) :
    step env (.symlink .follow) fs st ans =
      ⟨fs, if isLink fs st.cur then { st with cur := (resolve fs st.cur).getD st.cur } else st, ans, [], .done⟩ := by
  simp only [step]
  by_cases hl : isLink fs st.cur = true
  · have hs : env.realSafe ((resolve fs st.cur).getD st.cur) = true := by
      simpa [followRefused, hl] using h
    simp [hl, hs]
  · simp [hl]

theorem step_follow_done {env : Env} {fs : FS} {st : MState} {ans : List Str}
    (hd : (step env (.symlink .follow) fs st ans).oc = .done) : followRefused env fs st = false := by
  cases h : followRefused env fs st with
  | false => rfl
  | true => rw [step_follow_refused ans h] at hd; simp at hd

theorem action_cases (a : Action) :
    (a = .print ∨ a = .diff ∨ a = .exec ∨ a = .replace) ∨ a = .ifchanged ∨
    (a = .exit1 ∨ (∃ n, a = .query n) ∨ a = .symlink .error ∨ a = .symlink .skip ∨ a = .symlink .replace) ∨
    a = .symlink .follow := by
  cases a with
  | symlink pol => cases pol <;> simp
  | query n => simp
  | _ => simp

/-- Cached attributes are never recomputed or dropped. -/
theorem step_mono (env : Env) (a : Action) (fs : FS) (st : MState) (ans : List Str) :
    (∀ c, st.inp = some c → (step env a fs st ans).st.inp = some c) ∧
    (∀ o, st.out = some o → (step env a fs st ans).st.out = some o) := by
  rcases action_cases a with ha | ha | ha | ha
  · rcases step_out_cases env a fs st ans ha with ⟨e, ev, _, h2⟩ | ⟨st1, o, ev, h1, _, h3, _⟩
    · rw [h2]; exact ⟨fun _ h => h, fun _ h => h⟩
    · rw [h3]
      obtain ⟨_, ho, hc⟩ := getOutput_ok h1
      rcases hc with ⟨_, heq⟩ | ⟨hno, c, hi, _, hsrc⟩
      · rw [heq]; exact ⟨fun _ h => h, fun _ h => h⟩
      · refine ⟨fun c' hc' => ?_, fun o' ho' => by rw [hno] at ho'; simp at ho'⟩
        rcases hsrc with h4 | ⟨h4, _⟩
        · rw [hi, ← h4, hc']
        · rw [h4] at hc'; simp at hc'
  · subst ha
    rcases step_ifchanged_cases env fs st ans with ⟨e, ev, _, h2⟩ | ⟨st1, o, ev, h1, hrest⟩
    · rw [h2]; exact ⟨fun _ h => h, fun _ h => h⟩
    · have key : (∀ c, st.inp = some c → st1.inp = some c) ∧ (∀ o, st.out = some o → st1.out = some o) := by
        obtain ⟨_, ho, hc⟩ := getOutput_ok h1
        rcases hc with ⟨_, heq⟩ | ⟨hno, c, hi, _, hsrc⟩
        · rw [heq]; exact ⟨fun _ h => h, fun _ h => h⟩
        · refine ⟨fun c' hc' => ?_, fun o' ho' => by rw [hno] at ho'; simp at ho'⟩
          rcases hsrc with h4 | ⟨h4, _⟩
          · rw [hi, ← h4, hc']
          · rw [h4] at hc'; simp at hc'
      rcases hrest with ⟨e, _, h2⟩ | ⟨st2, c, ev2, hI, h2⟩
      · rw [h2]; exact key
      · rw [h2]
        obtain ⟨_, hout, hinp, hcase⟩ := getInput_ok hI
        refine ⟨fun c' hc' => ?_, fun o' ho' => by simp only; rw [hout]; exact key.2 o' ho'⟩
        simp only
        rcases hcase with ⟨_, heq⟩ | ⟨hno, _, _⟩
        · rw [heq]; exact key.1 c' hc'
        · rw [key.1 c' hc'] at hno; simp at hno
  · obtain ⟨_, h2⟩ := step_simple env a fs st ans ha
    rw [h2]; exact ⟨fun _ h => h, fun _ h => h⟩
  · subst ha
    cases hr : followRefused env fs st with
    | true => rw [step_follow_refused ans hr]; exact ⟨fun _ h => h, fun _ h => h⟩
    | false =>
      rw [step_follow ans hr]
      simp only
      split <;> exact ⟨fun _ h => h, fun _ h => h⟩

/-- `m.filename` changes only in `symlink_follow`. -/
theorem step_cur_nofollow (env : Env) (a : Action) (fs : FS) (st : MState) (ans : List Str)
    (ha : a ≠ .symlink .follow) : (step env a fs st ans).st.cur = st.cur := by
  rcases action_cases a with h | h | h | h
  · rcases step_out_cases env a fs st ans h with ⟨e, ev, _, h2⟩ | ⟨st1, o, ev, h1, _, h3, _⟩
    · rw [h2]
    · rw [h3]; exact (getOutput_ok h1).1
  · subst h
    rcases step_ifchanged_cases env fs st ans with ⟨e, ev, _, h2⟩ | ⟨st1, o, ev, h1, hrest⟩
    · rw [h2]
    · rcases hrest with ⟨e, _, h2⟩ | ⟨st2, c, ev2, hI, h2⟩
      · rw [h2]; exact (getOutput_ok h1).1
      · rw [h2]; simp only; rw [(getInput_ok hI).1]; exact (getOutput_ok h1).1
  · rw [(step_simple env a fs st ans h).2]
  · exact absurd h ha

/-- Once `m.filename` is not a symlink it stays what it is, and stays a non-symlink. -/
theorem step_cur_of_nonlink (env : Env) (a : Action) (fs : FS) (st : MState) (ans : List Str)
    (hl : isLink fs st.cur = false) :
    (step env a fs st ans).st.cur = st.cur ∧ isLink (step env a fs st ans).fs st.cur = false := by
  have hcur : (step env a fs st ans).st.cur = st.cur := by
    by_cases ha : a = .symlink .follow
    · subst ha
      have hr : followRefused env fs st = false := by simp [followRefused, hl]
      rw [step_follow ans hr]; simp [hl]
    · exact step_cur_nofollow env a fs st ans ha
  refine ⟨hcur, ?_⟩
  rcases step_fs env a fs st ans with h | ⟨_, _, _, o, _, h⟩
  · rw [h]; exact hl
  · rw [h]; exact isLink_update_file fs st.cur o false

/-- The invariant is kept by every completed action. -/
theorem step_Inv {env : Env} {fs0 fs : FS} {c0 : Option Content} {st : MState} (a : Action) (ans : List Str)
    (hJ : Inv env fs0 c0 fs st) (hd : (step env a fs st ans).oc = .done) :
    Inv env fs0 c0 (step env a fs st ans).fs (step env a fs st ans).st := by
  rcases action_cases a with h | h | h | h
  · rcases step_out_cases env a fs st ans h with ⟨e, ev, _, h2⟩ | ⟨st1, o, ev, h1, hfs, h3, _⟩
    · rw [h2] at hd; simp at hd
    · have hJ1 := hJ.getOutput h1
      obtain ⟨hc, ho, _⟩ := getOutput_ok h1
      rw [hfs, h3]
      split
      · refine ⟨hJ1.out_inp, hJ1.inp, hJ1.out, hJ1.cur, Or.inr ⟨o, ho, ?_⟩⟩
        rcases hJ1.shape with h4 | ⟨o', ho', h4⟩
        · rw [h4]
        · rw [ho] at ho'; simp at ho'; subst ho'
          rw [h4, FS.update_update]
      · exact hJ1
  · subst h
    rcases step_ifchanged_cases env fs st ans with ⟨e, ev, _, h2⟩ | ⟨st1, o, ev, h1, hrest⟩
    · rw [h2] at hd; simp at hd
    · rcases hrest with ⟨e, _, h2⟩ | ⟨st2, c, ev2, hI, h2⟩
      · rw [h2] at hd; simp at hd
      · rw [h2]; exact (hJ.getOutput h1).getInput hI
  · obtain ⟨h1, h2⟩ := step_simple env a fs st ans h
    rw [h1, h2]; exact hJ
  · subst h
    rw [step_follow ans (step_follow_done hd)]
    simp only
    split
    · rename_i hl
      -- a symlink: nothing can have been written at `cur` yet
      have hfs : fs = fs0 := by
        rcases hJ.shape with h1 | ⟨o, _, h1⟩
        · exact h1
        · rw [h1, isLink_update_file] at hl; simp at hl
      refine ⟨hJ.out_inp, hJ.inp, hJ.out, ?_, Or.inl hfs⟩
      simp only
      cases hr : resolve fs st.cur with
      | none => simpa using hJ.cur
      | some q =>
        simp only [Option.getD]
        rw [← hJ.cur, ← hfs]; exact contentAt_resolve hr
    · exact hJ

theorem step_ifchanged_done {env : Env} {fs : FS} {st : MState} {ans : List Str}
    (hd : (step env .ifchanged fs st ans).oc = .done) :
    ∃ o c, (step env .ifchanged fs st ans).st.out = some o ∧ (step env .ifchanged fs st ans).st.inp = some c ∧ o ≠ c := by
  rcases step_ifchanged_cases env fs st ans with ⟨e, ev, _, h2⟩ | ⟨st1, o, ev, h1, hrest⟩
  · rw [h2] at hd; simp at hd
  · rcases hrest with ⟨e, _, h2⟩ | ⟨st2, c, ev2, hI, h2⟩
    · rw [h2] at hd; simp at hd
    · rw [h2] at hd ⊢
      simp only at hd ⊢
      obtain ⟨_, hout, hinp, _⟩ := getInput_ok hI
      refine ⟨o, c, by rw [hout]; exact (getOutput_ok h1).2.1, hinp, ?_⟩
      intro heq; simp [heq] at hd

theorem step_query_done {env : Env} {n : Bool} {fs : FS} {st : MState} {ans : List Str}
    (hd : (step env (.query n) fs st ans).oc = .done) :
    ∃ x, ans = x :: (step env (.query n) fs st ans).ans ∧ isYes x = true := by
  simp only [step] at hd ⊢
  split at hd
  · simp at hd
  · rename_i x rest
    split at hd
    · rename_i hy
      simp only [hy, if_true]
      exact ⟨x, rfl, hy⟩
    · simp at hd

/-- The answers left are a suffix of the answers given. -/
theorem step_ans (env : Env) (a : Action) (fs : FS) (st : MState) (ans : List Str) :
    (step env a fs st ans).ans = ans ∨ ∃ x, ans = x :: (step env a fs st ans).ans := by
  rcases action_cases a with h | h | h | h
  · rcases step_out_cases env a fs st ans h with ⟨e, ev, _, h2⟩ | ⟨st1, o, ev, _, _, _, h3, _⟩
    · rw [h2]; exact Or.inl rfl
    · exact Or.inl h3
  · subst h
    rcases step_ifchanged_cases env fs st ans with ⟨e, ev, _, h2⟩ | ⟨st1, o, ev, h1, hrest⟩
    · rw [h2]; exact Or.inl rfl
    · rcases hrest with ⟨e, _, h2⟩ | ⟨st2, c, ev2, hI, h2⟩ <;> (rw [h2]; exact Or.inl rfl)
  · rcases h with h | ⟨n, h⟩ | h | h | h <;> subst h <;> simp only [step]
    · simp
    · split
      · simp
      · rename_i x rest
        split <;> exact Or.inr ⟨x, rfl⟩
    · split <;> simp
    · split <;> simp
    · simp
  · subst h
    cases hr : followRefused env fs st with
    | true => rw [step_follow_refused ans hr]; exact Or.inl rfl
    | false => rw [step_follow ans hr]; exact Or.inl rfl

theorem step_symlink_done {env : Env} {pol : Policy} {fs : FS} {st : MState} {ans : List Str}
    (hp : pol = .skip ∨ pol = .error) (hd : (step env (.symlink pol) fs st ans).oc = .done) :
    isLink fs st.cur = false := by
  rcases hp with h | h <;> subst h <;> simp only [step] at hd <;>
    (split at hd
     · simp at hd
     · rename_i hl; simpa using hl)

/-- Only `symlink_error` meeting a symlink raises SystemExit. -/
theorem step_sysexit {env : Env} {a : Action} {fs : FS} {st : MState} {ans : List Str}
    (h : (step env a fs st ans).oc = .sysexit) :
    a = .symlink .error ∧ isLink fs st.cur = true ∧ (step env a fs st ans).st = st := by
  rcases action_cases a with ha | ha | ha | ha
  · rcases step_out_cases env a fs st ans ha with ⟨e, ev, _, h2⟩ | ⟨st1, o, ev, _, _, _, _, h3⟩
    · rw [h2] at h; simp at h
    · rw [h3] at h; split at h <;> simp at h
  · subst ha
    rcases step_ifchanged_cases env fs st ans with ⟨e, ev, _, h2⟩ | ⟨st1, o, ev, h1, hrest⟩
    · rw [h2] at h; simp at h
    · rcases hrest with ⟨e, _, h2⟩ | ⟨st2, c, ev2, hI, h2⟩
      · rw [h2] at h; simp at h
      · rw [h2] at h; simp only at h; split at h <;> simp at h
  · rcases ha with ha | ⟨n, ha⟩ | ha | ha | ha <;> subst ha <;> simp only [step] at h ⊢
    · simp at h
    · split at h
      · simp at h
      · split at h <;> simp at h
    · split at h
      · rename_i hl; simp [hl]
      · simp at h
    · split at h <;> simp at h
    · simp at h
  · subst ha
    cases hr : followRefused env fs st with
    | true => rw [step_follow_refused ans hr] at h; simp at h
    | false => rw [step_follow ans hr] at h; simp at h

/-! ### The action loop of one file -/

@[simp] theorem runActions_nil (env : Env) (fs : FS) (st : MState) (ans : List Str) :
    runActions env [] fs st ans = ⟨fs, st, ans, [], .done⟩ := rfl

theorem runActions_cons_done {env : Env} {a : Action} {rest : List Action} {fs : FS} {st : MState}
    {ans : List Str} (h : (step env a fs st ans).oc = .done) :
    runActions env (a :: rest) fs st ans =
      { runActions env rest (step env a fs st ans).fs (step env a fs st ans).st (step env a fs st ans).ans with
        ev := (step env a fs st ans).ev ++
          (runActions env rest (step env a fs st ans).fs (step env a fs st ans).st (step env a fs st ans).ans).ev } := by
  simp only [runActions, h]

theorem runActions_cons_notdone {env : Env} {a : Action} {rest : List Action} {fs : FS} {st : MState}
    {ans : List Str} (h : (step env a fs st ans).oc ≠ .done) :
    runActions env (a :: rest) fs st ans = step env a fs st ans := by
  cases hoc : (step env a fs st ans).oc with
  | done => exact absurd hoc h
  | _ => simp only [runActions, hoc]

theorem runActions_cons_done_inv {env : Env} {a : Action} {rest : List Action} {fs : FS} {st : MState}
    {ans : List Str} (h : (runActions env (a :: rest) fs st ans).oc = .done) :
    (step env a fs st ans).oc = .done := by
  apply Classical.byContradiction
  intro hd
  rw [runActions_cons_notdone hd] at h
  exact hd h

/-- The whole turn of a file when `symlink_follow` heads the tuple and `Filename` refuses the real path:
    the exception leaves the loop at once; file system, Modifier and answers are as they were, no event. -/
theorem runActions_follow_refused {env : Env} {fs : FS} {st : MState} (rest : List Action) (ans : List Str)
    (h : followRefused env fs st = true) :
    runActions env (.symlink .follow :: rest) fs st ans = ⟨fs, st, ans, [], .error .unsafeTarget⟩ := by
  rw [runActions_cons_notdone (by rw [step_follow_refused ans h]; simp), step_follow_refused ans h]

/-- Per-file safety, for any coherent starting state: a node that differs after the loop was written by
    a REPLACE at some index `k`, reached with all of `acts.take k` completed, at `m.filename`, with the
    rewriter's output on the content the file had when its processing began. -/
theorem runActions_change {env : Env} {fs0 : FS} {c0 : Option Content} :
    ∀ (acts : List Action) {fs : FS} {st : MState} (ans : List Str) {q : Path},
    Inv env fs0 c0 fs st →
    (runActions env acts fs st ans).fs q ≠ fs q →
    ∃ k, acts[k]? = some .replace ∧
      (runActions env (acts.take k) fs st ans).oc = .done ∧
      (runActions env (acts.take k) fs st ans).st.cur = q ∧
      ∃ c o, c0 = some c ∧ env.readable c = true ∧ env.rw c = some o ∧
        (runActions env acts fs st ans).fs q = some (.file o false)
  | [], fs, st, ans, q, _, h => by simp at h
  | a :: rest, fs, st, ans, q, hJ, h => by
    by_cases hd : (step env a fs st ans).oc = .done
    · rw [runActions_cons_done hd] at h ⊢
      simp only at h ⊢
      have hJ1 := step_Inv a ans hJ hd
      by_cases hch : (runActions env rest (step env a fs st ans).fs (step env a fs st ans).st
          (step env a fs st ans).ans).fs q ≠ (step env a fs st ans).fs q
      · obtain ⟨k, hk, hdone, hcur, hrest⟩ := runActions_change rest _ hJ1 hch
        refine ⟨k + 1, by simpa using hk, ?_, ?_, hrest⟩
        · rw [List.take_succ_cons, runActions_cons_done hd]; exact hdone
        · rw [List.take_succ_cons, runActions_cons_done hd]; exact hcur
      · have heq := Classical.not_not.mp hch
        rw [heq] at h ⊢
        rcases step_fs env a fs st ans with h1 | ⟨ha, _, hcur, o, ho, hfs⟩
        · rw [h1] at h; exact absurd rfl h
        · refine ⟨0, by simp [ha], by simp, ?_, ?_⟩
          · simp only [List.take_zero, runActions_nil]
            rw [hfs] at h
            exact (FS.update_ne_iff fs h).symm
          · obtain ⟨c, hc, hrw⟩ := hJ1.out o ho
            obtain ⟨hc0, hr⟩ := hJ1.inp c hc
            refine ⟨c, o, hc0, hr, hrw, ?_⟩
            rw [hfs] at h ⊢
            rw [FS.update_ne_iff fs h]; simp
    · rw [runActions_cons_notdone hd] at h
      rw [step_notdone_fs hd] at h
      exact absurd rfl h

theorem runActions_Inv {env : Env} {fs0 : FS} {c0 : Option Content} :
    ∀ (acts : List Action) {fs : FS} {st : MState} (ans : List Str),
    Inv env fs0 c0 fs st → (runActions env acts fs st ans).oc = .done →
    Inv env fs0 c0 (runActions env acts fs st ans).fs (runActions env acts fs st ans).st
  | [], fs, st, ans, hJ, _ => by simpa using hJ
  | a :: rest, fs, st, ans, hJ, h => by
    by_cases hd : (step env a fs st ans).oc = .done
    · rw [runActions_cons_done hd] at h ⊢
      exact runActions_Inv rest _ (step_Inv a ans hJ hd) h
    · rw [runActions_cons_notdone hd] at h; exact absurd h hd

theorem runActions_mono (env : Env) :
    ∀ (acts : List Action) (fs : FS) (st : MState) (ans : List Str),
    (∀ c, st.inp = some c → (runActions env acts fs st ans).st.inp = some c) ∧
    (∀ o, st.out = some o → (runActions env acts fs st ans).st.out = some o)
  | [], fs, st, ans => by simp
  | a :: rest, fs, st, ans => by
    have hs := step_mono env a fs st ans
    by_cases hd : (step env a fs st ans).oc = .done
    · rw [runActions_cons_done hd]
      have ih := runActions_mono env rest (step env a fs st ans).fs (step env a fs st ans).st (step env a fs st ans).ans
      exact ⟨fun c hc => ih.1 c (hs.1 c hc), fun o ho => ih.2 o (hs.2 o ho)⟩
    · rw [runActions_cons_notdone hd]; exact hs

/-- A completed loop that contains IFCHANGED ends with output ≠ input. -/
theorem runActions_done_ifchanged (env : Env) :
    ∀ (acts : List Action) (fs : FS) (st : MState) (ans : List Str),
    (runActions env acts fs st ans).oc = .done → .ifchanged ∈ acts →
    ∃ o c, (runActions env acts fs st ans).st.out = some o ∧ (runActions env acts fs st ans).st.inp = some c ∧ o ≠ c
  | [], fs, st, ans, _, hm => by simp at hm
  | a :: rest, fs, st, ans, h, hm => by
    by_cases hd : (step env a fs st ans).oc = .done
    · rw [runActions_cons_done hd] at h ⊢
      simp only at h ⊢
      rcases List.mem_cons.mp hm with ha | ha
      · subst ha
        obtain ⟨o, c, ho, hc, hne⟩ := step_ifchanged_done hd
        have hm := runActions_mono env rest (step env .ifchanged fs st ans).fs (step env .ifchanged fs st ans).st
          (step env .ifchanged fs st ans).ans
        exact ⟨o, c, hm.2 o ho, hm.1 c hc, hne⟩
      · exact runActions_done_ifchanged env rest _ _ _ h ha
    · rw [runActions_cons_notdone hd] at h; exact absurd h hd

theorem runActions_ans (env : Env) :
    ∀ (acts : List Action) (fs : FS) (st : MState) (ans : List Str),
    ∃ pre, ans = pre ++ (runActions env acts fs st ans).ans
  | [], fs, st, ans => ⟨[], by simp⟩
  | a :: rest, fs, st, ans => by
    have hs : ∃ pre, ans = pre ++ (step env a fs st ans).ans := by
      rcases step_ans env a fs st ans with h | ⟨x, h⟩
      · exact ⟨[], by simp [h]⟩
      · exact ⟨[x], by simpa using h⟩
    by_cases hd : (step env a fs st ans).oc = .done
    · rw [runActions_cons_done hd]
      obtain ⟨p1, h1⟩ := hs
      obtain ⟨p2, h2⟩ := runActions_ans env rest (step env a fs st ans).fs (step env a fs st ans).st (step env a fs st ans).ans
      exact ⟨p1 ++ p2, by simp only; rw [List.append_assoc, ← h2, ← h1]⟩
    · rw [runActions_cons_notdone hd]; exact hs

/-- A completed loop that contains QUERY consumed an answer that means yes. -/
theorem runActions_done_query (env : Env) :
    ∀ (acts : List Action) (fs : FS) (st : MState) (ans : List Str),
    (runActions env acts fs st ans).oc = .done → (∃ n, .query n ∈ acts) →
    ∃ x ∈ ans, isYes x = true
  | [], fs, st, ans, _, hm => by simp at hm
  | a :: rest, fs, st, ans, h, ⟨n, hm⟩ => by
    by_cases hd : (step env a fs st ans).oc = .done
    · rw [runActions_cons_done hd] at h
      simp only at h
      rcases List.mem_cons.mp hm with ha | ha
      · subst ha
        obtain ⟨x, hx, hy⟩ := step_query_done hd
        exact ⟨x, by rw [hx]; simp, hy⟩
      · obtain ⟨x, hx, hy⟩ := runActions_done_query env rest _ _ _ h ⟨n, ha⟩
        refine ⟨x, ?_, hy⟩
        rcases step_ans env a fs st ans with h1 | ⟨y, h1⟩
        · rw [← h1]; exact hx
        · rw [h1]; exact List.mem_cons_of_mem _ hx
    · rw [runActions_cons_notdone hd] at h; exact absurd h hd

theorem runActions_cur_of_nonlink (env : Env) :
    ∀ (acts : List Action) (fs : FS) (st : MState) (ans : List Str), isLink fs st.cur = false →
    (runActions env acts fs st ans).st.cur = st.cur ∧ isLink (runActions env acts fs st ans).fs st.cur = false
  | [], fs, st, ans, hl => by simpa using hl
  | a :: rest, fs, st, ans, hl => by
    obtain ⟨h1, h2⟩ := step_cur_of_nonlink env a fs st ans hl
    by_cases hd : (step env a fs st ans).oc = .done
    · rw [runActions_cons_done hd]
      simp only
      have ih := runActions_cur_of_nonlink env rest (step env a fs st ans).fs (step env a fs st ans).st
        (step env a fs st ans).ans (by rw [h1]; exact h2)
      rw [h1] at ih; exact ih
    · rw [runActions_cons_notdone hd]; exact ⟨h1, h2⟩

theorem runActions_cur_nofollow (env : Env) :
    ∀ (acts : List Action) (fs : FS) (st : MState) (ans : List Str), .symlink .follow ∉ acts →
    (runActions env acts fs st ans).st.cur = st.cur
  | [], fs, st, ans, _ => by simp
  | a :: rest, fs, st, ans, hn => by
    have ha : a ≠ .symlink .follow := fun h => hn (by simp [h])
    have hr : .symlink .follow ∉ rest := fun h => hn (List.mem_cons_of_mem _ h)
    have h1 := step_cur_nofollow env a fs st ans ha
    by_cases hd : (step env a fs st ans).oc = .done
    · rw [runActions_cons_done hd]
      simp only
      rw [runActions_cur_nofollow env rest _ _ _ hr, h1]
    · rw [runActions_cons_notdone hd]; exact h1

/-- SystemExit needs `symlink_error` in the list … -/
theorem runActions_sysexit_mem (env : Env) :
    ∀ (acts : List Action) (fs : FS) (st : MState) (ans : List Str),
    (runActions env acts fs st ans).oc = .sysexit → .symlink .error ∈ acts
  | [], fs, st, ans, h => by simp at h
  | a :: rest, fs, st, ans, h => by
    by_cases hd : (step env a fs st ans).oc = .done
    · rw [runActions_cons_done hd] at h
      exact List.mem_cons_of_mem _ (runActions_sysexit_mem env rest _ _ _ h)
    · rw [runActions_cons_notdone hd] at h
      rw [(step_sysexit h).1]; simp

/-- … and a symlink to meet. -/
theorem runActions_sysexit_link (env : Env) :
    ∀ (acts : List Action) (fs : FS) (st : MState) (ans : List Str), isLink fs st.cur = false →
    (runActions env acts fs st ans).oc ≠ .sysexit
  | [], fs, st, ans, _ => by simp
  | a :: rest, fs, st, ans, hl => by
    obtain ⟨h1, h2⟩ := step_cur_of_nonlink env a fs st ans hl
    by_cases hd : (step env a fs st ans).oc = .done
    · rw [runActions_cons_done hd]
      exact runActions_sysexit_link env rest _ _ _ (by rw [h1]; exact h2)
    · rw [runActions_cons_notdone hd]
      intro h
      have := (step_sysexit h).2.1
      rw [hl] at this; simp at this

theorem runActions_no_replace (env : Env) :
    ∀ (acts : List Action) (fs : FS) (st : MState) (ans : List Str), .replace ∉ acts →
    (runActions env acts fs st ans).fs = fs
  | [], fs, st, ans, _ => by simp
  | a :: rest, fs, st, ans, hn => by
    have ha : a ≠ .replace := fun h => hn (by simp [h])
    have hr : .replace ∉ rest := fun h => hn (List.mem_cons_of_mem _ h)
    have h1 : (step env a fs st ans).fs = fs := by
      rcases step_fs env a fs st ans with h | ⟨h, _⟩
      · exact h
      · exact absurd h ha
    by_cases hd : (step env a fs st ans).oc = .done
    · rw [runActions_cons_done hd]
      simp only
      rw [runActions_no_replace env rest _ _ _ hr, h1]
    · rw [runActions_cons_notdone hd]; exact h1

/-- Whatever happens, a node is either untouched or a freshly written regular file. -/
theorem runActions_nodes (env : Env) :
    ∀ (acts : List Action) (fs : FS) (st : MState) (ans : List Str) (q : Path),
    (runActions env acts fs st ans).fs q = fs q ∨ ∃ o, (runActions env acts fs st ans).fs q = some (.file o false)
  | [], fs, st, ans, q => by simp
  | a :: rest, fs, st, ans, q => by
    have h1 : (step env a fs st ans).fs q = fs q ∨ ∃ o, (step env a fs st ans).fs q = some (.file o false) := by
      rcases step_fs env a fs st ans with h | ⟨_, _, _, o, _, h⟩
      · rw [h]; exact Or.inl rfl
      · rw [h]
        by_cases hq : q = st.cur
        · right; exact ⟨o, by rw [hq]; simp⟩
        · left; exact FS.update_other fs _ hq
    by_cases hd : (step env a fs st ans).oc = .done
    · rw [runActions_cons_done hd]
      simp only
      rcases runActions_nodes env rest (step env a fs st ans).fs (step env a fs st ans).st (step env a fs st ans).ans q with h | h
      · rw [h]; exact h1
      · exact Or.inr h
    · rw [runActions_cons_notdone hd]; exact h1

/-- A path where `atomic_write_file` fails is never changed by an action. -/
theorem step_unwritable (env : Env) (a : Action) (fs : FS) (st : MState) (ans : List Str) {q : Path}
    (hq : env.writable q = false) : (step env a fs st ans).fs q = fs q := by
  rcases step_fs env a fs st ans with h | ⟨ha, _, _, _, _, _⟩
  · rw [h]
  · subst ha
    rcases step_out_cases env .replace fs st ans (by simp) with ⟨e, ev, _, h2⟩ | ⟨st1, o, ev, _, hfs, _, _, _⟩
    · rw [h2]
    · rw [hfs]
      split
      · rename_i hc
        have : q ≠ st1.cur := by
          intro h; rw [h, hc.2] at hq; simp at hq
        exact FS.update_other fs _ this
      · rfl

theorem runActions_unwritable (env : Env) {q : Path} (hq : env.writable q = false) :
    ∀ (acts : List Action) (fs : FS) (st : MState) (ans : List Str), (runActions env acts fs st ans).fs q = fs q
  | [], fs, st, ans => by simp
  | a :: rest, fs, st, ans => by
    have h1 := step_unwritable env a fs st ans hq
    by_cases hd : (step env a fs st ans).oc = .done
    · rw [runActions_cons_done hd]
      simp only
      rw [runActions_unwritable env hq rest, h1]
    · rw [runActions_cons_notdone hd]; exact h1

/-! ### Laziness: the rewriter runs at most once per file -/

def Event.isRewrite : Event → Bool
  | .rewrite _ => true
  | _ => false

/-- number of rewriter invocations in an event list -/
def rewrites (ev : List Event) : Nat := ev.countP Event.isRewrite

/-- how many rewriter invocations the Modifier may still cause -/
def budget (st : MState) : Nat := if st.out.isSome then 0 else 1

@[simp] theorem rewrites_nil : rewrites [] = 0 := rfl

theorem rewrites_append (a b : List Event) : rewrites (a ++ b) = rewrites a + rewrites b := by
  simp [rewrites, List.countP_append]

theorem getInput_ev {env : Env} {fs : FS} {st st1 : MState} {c : Content} {ev : List Event}
    (h : getInput env fs st = .ok (st1, c, ev)) : rewrites ev = 0 := by
  unfold getInput at h
  split at h
  · simp at h; rcases h with ⟨_, _, rfl⟩; rfl
  · split at h
    · simp at h
    · split at h
      · simp at h; rcases h with ⟨_, _, rfl⟩; simp [rewrites, Event.isRewrite]
      · simp at h

theorem getOutput_ev_ok {env : Env} {fs : FS} {st st1 : MState} {o : Content} {ev : List Event}
    (h : getOutput env fs st = .ok (st1, o, ev)) : rewrites ev = budget st ∧ budget st1 = 0 := by
  have hout := (getOutput_ok h).2.1
  refine ⟨?_, by simp [budget, hout]⟩
  unfold getOutput at h
  split at h
  · rename_i o' ho
    simp at h; rcases h with ⟨_, _, rfl⟩; simp [budget, ho]
  · rename_i hn
    split at h
    · simp at h
    · rename_i st2 c ev2 hi
      split at h
      · simp at h
      · simp at h
        rcases h with ⟨_, _, rfl⟩
        rw [rewrites_append, getInput_ev hi]
        simp [rewrites, Event.isRewrite, budget, hn]

theorem getOutput_ev_err {env : Env} {fs : FS} {st : MState} {e : ErrKind} {ev : List Event}
    (h : getOutput env fs st = .error (e, ev)) : rewrites ev ≤ budget st := by
  unfold getOutput at h
  split at h
  · simp at h
  · rename_i hn
    split at h
    · simp at h; rcases h with ⟨_, rfl⟩; simp
    · rename_i st2 c ev2 hi
      split at h
      · simp at h
        rcases h with ⟨_, rfl⟩
        rw [rewrites_append, getInput_ev hi]
        simp [rewrites, Event.isRewrite, budget, hn]
      · simp at h

theorem step_out_ev (env : Env) (a : Action) (fs : FS) (st : MState) (ans : List Str)
    (ha : a = .print ∨ a = .diff ∨ a = .exec ∨ a = .replace) {st1 : MState} {o : Content} {ev : List Event}
    (h1 : getOutput env fs st = .ok (st1, o, ev)) :
    ∃ x, Event.isRewrite x = false ∧ (step env a fs st ans).ev = ev ++ [x] := by
  rcases ha with h | h | h | h <;> subst h <;> simp only [step, withOutput, h1]
  · exact ⟨_, rfl, rfl⟩
  · exact ⟨_, rfl, rfl⟩
  · exact ⟨_, rfl, rfl⟩
  · split <;> exact ⟨_, rfl, rfl⟩

theorem step_simple_ev (env : Env) (a : Action) (fs : FS) (st : MState) (ans : List Str)
    (ha : a = .exit1 ∨ (∃ n, a = .query n) ∨ a = .symlink .error ∨ a = .symlink .skip ∨ a = .symlink .replace) :
    rewrites (step env a fs st ans).ev = 0 := by
  rcases ha with h | ⟨n, h⟩ | h | h | h <;> subst h <;> simp only [step]
  · rfl
  · split
    · rfl
    · split <;> rfl
  · split <;> rfl
  · split <;> rfl
  · rfl

/-- One action uses at most the remaining budget, and leaves what it did not use. -/
theorem step_rewrites (env : Env) (a : Action) (fs : FS) (st : MState) (ans : List Str) :
    rewrites (step env a fs st ans).ev +
      (if (step env a fs st ans).oc = .done then budget (step env a fs st ans).st else 0) ≤ budget st := by
  rcases action_cases a with ha | ha | ha | ha
  · rcases step_out_cases env a fs st ans ha with ⟨e, ev, h1, h2⟩ | ⟨st1, o, ev, h1, _, hst, _, hoc⟩
    · rw [h2]; simpa using getOutput_ev_err h1
    · obtain ⟨h3, h4⟩ := getOutput_ev_ok h1
      obtain ⟨x, hx, hev⟩ := step_out_ev env a fs st ans ha h1
      rw [hev, hoc, hst, rewrites_append, h3, h4]
      split <;> simp [rewrites, hx]
  · subst ha
    rcases step_ifchanged_cases env fs st ans with ⟨e, ev, h1, h2⟩ | ⟨st1, o, ev, h1, hrest⟩
    · rw [h2]; simpa using getOutput_ev_err h1
    · obtain ⟨h3, h4⟩ := getOutput_ev_ok h1
      rcases hrest with ⟨e, _, h2⟩ | ⟨st2, c, ev2, hI, h2⟩
      · rw [h2]; simp [h3]
      · rw [h2]
        have h5 : budget st2 = 0 := by
          have := (getInput_ok hI).2.1
          simp only [budget, this] at h4 ⊢; exact h4
        simp only [rewrites_append, getInput_ev hI, h3, h5]
        split <;> simp
  · obtain ⟨_, h2⟩ := step_simple env a fs st ans ha
    rw [step_simple_ev env a fs st ans ha, h2]
    split <;> simp
  · subst ha
    cases hr : followRefused env fs st with
    | true => rw [step_follow_refused ans hr]; simp
    | false =>
      rw [step_follow ans hr]
      by_cases hl : isLink fs st.cur = true <;> simp [budget, hl]

theorem runActions_rewrites (env : Env) :
    ∀ (acts : List Action) (fs : FS) (st : MState) (ans : List Str),
    rewrites (runActions env acts fs st ans).ev ≤ budget st
  | [], fs, st, ans => by simp
  | a :: rest, fs, st, ans => by
    have hs := step_rewrites env a fs st ans
    by_cases hd : (step env a fs st ans).oc = .done
    · rw [runActions_cons_done hd]
      simp only [rewrites_append]
      have ih := runActions_rewrites env rest (step env a fs st ans).fs (step env a fs st ans).st (step env a fs st ans).ans
      simp only [hd, if_true] at hs
      omega
    · rw [runActions_cons_notdone hd]
      simp only [hd, if_false] at hs
      omega

/-! ### The loop over files -/

theorem processFile_fs (env : Env) (acts : List Action) (s : Run) (p : Path) :
    (processFile env acts s p).fs = (runActions env acts s.fs (MState.fresh p) s.ans).fs := by
  unfold processFile; simp only; split <;> rfl

theorem processFile_ans (env : Env) (acts : List Action) (s : Run) (p : Path) :
    (processFile env acts s p).ans = (runActions env acts s.fs (MState.fresh p) s.ans).ans := by
  unfold processFile; simp only; split <;> rfl

theorem processFile_halted (env : Env) (acts : List Action) (s : Run) (p : Path) (h : s.halted = none) :
    (processFile env acts s p).halted = none ↔ (runActions env acts s.fs (MState.fresh p) s.ans).oc ≠ .sysexit := by
  unfold processFile; simp only; split <;> simp_all

theorem processFile_errors (env : Env) (acts : List Action) (s : Run) (p : Path) :
    (processFile env acts s p).errors =
      match (runActions env acts s.fs (MState.fresh p) s.ans).oc with
      | .error e => s.errors ++ [⟨p, e⟩]
      | _ => s.errors := by
  unfold processFile; simp only; split <;> simp_all

/-- Body of the loop over files in that case: the error is collected under the link's own name; nothing
    else of the loop state changes. -/
theorem processFile_follow_refused {env : Env} (rest : List Action) (s : Run) (p : Path)
    (h : followRefused env s.fs (MState.fresh p) = true) :
    processFile env (.symlink .follow :: rest) s p =
      { s with ev := s.ev ++ [.begin p, .failed p .unsafeTarget], errors := s.errors ++ [⟨p, .unsafeTarget⟩] } := by
  unfold processFile
  rw [runActions_follow_refused rest s.ans h]
  simp

@[simp] theorem processFiles_nil (env : Env) (acts : List Action) (s : Run) : processFiles env acts [] s = s := rfl

theorem processFiles_cons_halt {env : Env} {acts : List Action} {p : Path} {ps : List Path} {s : Run}
    (h : (processFile env acts s p).halted ≠ none) :
    processFiles env acts (p :: ps) s = processFile env acts s p := by
  simp only [processFiles]
  split
  · rfl
  · rename_i h'; exact absurd h' h

theorem processFiles_cons_go {env : Env} {acts : List Action} {p : Path} {ps : List Path} {s : Run}
    (h : (processFile env acts s p).halted = none) :
    processFiles env acts (p :: ps) s = processFiles env acts ps (processFile env acts s p) := by
  simp only [processFiles, h]

/-- A predicate kept by the body of the loop is kept by the loop. -/
theorem processFiles_induct {env : Env} {acts : List Action} (P : Run → Prop) :
    ∀ (files : List Path) (s : Run), (∀ s p, p ∈ files → P s → P (processFile env acts s p)) → P s →
      P (processFiles env acts files s)
  | [], s, _, h => h
  | p :: ps, s, hstep, h => by
    have h1 := hstep s p (by simp) h
    by_cases hh : (processFile env acts s p).halted = none
    · rw [processFiles_cons_go hh]
      exact processFiles_induct P ps _ (fun s q hq => hstep s q (List.mem_cons_of_mem _ hq)) h1
    · rw [processFiles_cons_halt hh]; exact h1

theorem processFiles_append {env : Env} {acts : List Action} :
    ∀ (pre post : List Path) (s : Run), (processFiles env acts pre s).halted = none → s.halted = none →
      processFiles env acts (pre ++ post) s = processFiles env acts post (processFiles env acts pre s)
  | [], post, s, _, _ => rfl
  | p :: ps, post, s, h, hs => by
    by_cases hh : (processFile env acts s p).halted = none
    · rw [processFiles_cons_go hh] at h ⊢
      rw [List.cons_append, processFiles_cons_go hh]
      exact processFiles_append ps post _ h hh
    · rw [processFiles_cons_halt hh] at h; exact absurd h hh

end Pfb.C09
