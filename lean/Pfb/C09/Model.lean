/-
  Pfb.C09.Model — executable model of pyflyby's command-line action machinery
  (`lib/python/pyflyby/_cmdline.py`: `parse_args` (set_actions / action callbacks /
  symlink_callback), `filename_args` + `_file.expand_py_files_from_args`, `Modifier`,
  `process_actions`, `action_*`, `symlink_*`), as coded on the pinned tree.

  The rewriter (`modify_function`) is a parameter `env.rw : Content → Option Content`
  (`none` = it raises); `env.readable` says which contents `read_file` can decode.  Contents and paths
  are opaque numbers; the file system is a function `Path → Option Node`.
  External commands (DIFF, EXECUTE:cmd) are assumed not to touch the argument files;
  `atomic_write_file` is assumed to succeed (its own failure modes are C08's subject).
-/
import Pfb.Basic
namespace Pfb.C09

abbrev Path := Nat
abbrev Content := Nat

/-- `--symlinks=` values (`symlink_callbacks`). -/
inductive Policy | error | follow | skip | replace
  deriving DecidableEq, Repr

/-- Elements of `options.actions`.  `query named` distinguishes the prompt of
    `--interactive` (`"Replace {filename}?"`) from plain `QUERY`; `diff` and `exec` are both
    `action_external_command`. -/
inductive Action
  | print | replace | ifchanged | query (named : Bool) | diff | exec | exit1
  | symlink (pol : Policy)
  deriving DecidableEq, Repr

def Action.isSymlink : Action → Bool
  | .symlink _ => true
  | _ => false

/-- Command-line options that touch `parser.values.actions`, in command-line order. -/
inductive Opt
  | actions (as : List Action)      -- --actions=A,B,…  (parse_action never yields a symlink action)
  | actionsBad                      -- --actions=… with an unknown word: `raise Exception`
  | print | diff | replace | diffReplace | interactive
  | symlinks (v : Option Policy)    -- `none`: a value outside symlink_callbacks → OptionValueError
  deriving DecidableEq, Repr

inductive ParseErr | optionValueError | exception
  deriving DecidableEq, Repr

def actionsInteractive : List Action := [.ifchanged, .diff, .query true, .replace]

/-- `default_actions`: interactive when stdin and stdout are ttys, else PRINT. -/
def defaultActions (tty : Bool) : List Action :=
  if tty then actionsInteractive else [.print]

/-- `set_actions`.  On the pinned tree (`keep = false`) the new actions *replace* the tuple, which drops the
    symlink policy action an earlier `--symlinks` (or the implicit leading one) put there — D4.
    With `fixes/C09-D4.diff` (`keep = true`) the symlink action(s) already in the tuple stay at its head. -/
def setActions (keep : Bool) (acts new : List Action) : List Action :=
  if keep then acts.filter Action.isSymlink ++ new else new

/-- One option callback: every action option goes through `set_actions`;
    `--symlinks` filters the symlink actions out and prepends its own (`symlink_callback`). -/
def optStep (keep : Bool) (acts : List Action) : Opt → Except ParseErr (List Action)
  | .actions as => .ok (setActions keep acts as)
  | .actionsBad => .error .exception
  | .print => .ok (setActions keep acts [.print])
  | .diff => .ok (setActions keep acts [.diff])
  | .replace => .ok (setActions keep acts [.ifchanged, .replace])
  | .diffReplace => .ok (setActions keep acts [.ifchanged, .diff, .replace])
  | .interactive => .ok (setActions keep acts actionsInteractive)
  | .symlinks (some p) => .ok (.symlink p :: acts.filter (fun a => !a.isSymlink))
  | .symlinks none => .error .optionValueError

def optFold (keep : Bool) : List Action → List Opt → Except ParseErr (List Action)
  | acts, [] => .ok acts
  | acts, o :: os =>
    match optStep keep acts o with
    | .ok acts' => optFold keep acts' os
    | .error e => .error e

/-- `parse_args(modify_action_params=True)`: `args = ["--symlinks=error"] + sys.argv[1:]`. -/
def parseOptions (keep : Bool) (tty : Bool) (opts : List Opt) : Except ParseErr (List Action) :=
  optFold keep (defaultActions tty) (.symlinks (some .error) :: opts)

/-! ### File system -/

structure DirEntry where
  path : Path
  /-- base name does not start with "." and is not "__pycache__" -/
  visible : Bool
  /-- extension is ".py" -/
  py : Bool
  deriving DecidableEq, Repr

inductive Node
  /-- regular file; `orig = true` while it is the inode that existed before the run -/
  | file (c : Content) (orig : Bool)
  | link (target : Path)
  | dir (entries : List DirEntry)
  deriving DecidableEq, Repr

abbrev FS := Path → Option Node

def FS.update (fs : FS) (p : Path) (n : Node) : FS :=
  fun q => if q = p then some n else fs q

/-- Follow symlinks (at most `n` of them) to something that is not a symlink. -/
def resolveN (fs : FS) : Nat → Path → Option Path
  | 0, _ => none
  | n + 1, p =>
    match fs p with
    | none => none
    | some (.link t) => resolveN fs n t
    | some _ => some p

def linkFuel : Nat := 40

def resolve (fs : FS) (p : Path) : Option Path := resolveN fs linkFuel p

/-- `Filename.islink` -/
def isLink (fs : FS) (p : Path) : Bool :=
  match fs p with
  | some (.link _) => true
  | _ => false

/-- `Filename.isfile` (follows symlinks) -/
def isFile (fs : FS) (p : Path) : Bool :=
  match resolve fs p with
  | some q => (match fs q with | some (.file _ _) => true | _ => false)
  | none => false

/-- `Filename.isdir` (follows symlinks) -/
def isDir (fs : FS) (p : Path) : Bool :=
  match resolve fs p with
  | some q => (match fs q with | some (.dir _) => true | _ => false)
  | none => false

/-- what `open(str(filename)).read()` returns -/
def contentAt (fs : FS) (p : Path) : Option Content :=
  match resolve fs p with
  | some q => (match fs q with | some (.file c _) => some c | _ => none)
  | none => none

def dirEntries (fs : FS) (p : Path) : List DirEntry :=
  match resolve fs p with
  | some q => (match fs q with | some (.dir es) => es | _ => [])
  | none => []

/-- The recursive part of `expand_py_files_from_args` (sorted entries, hidden names and
    `__pycache__` skipped, files need `.py`, directories are descended into; `depth` bounds
    the recursion). -/
def expandDir (fs : FS) : Nat → Path → List Path
  | 0, _ => []
  | n + 1, d =>
    (dirEntries fs d).flatMap fun e =>
      if !e.visible then []
      else if isFile fs e.path then (if e.py then [e.path] else [])
      else if isDir fs e.path then expandDir fs n e.path
      else []

def dirFuel : Nat := 16

def expandArg (fs : FS) (p : Path) : List Path :=
  if isFile fs p then [p]
  else if isDir fs p then expandDir fs dirFuel p
  else []

def isBadArg (fs : FS) (p : Path) : Bool := !isFile fs p && !isDir fs p

structure FileArgs where
  files : List Path
  /-- arguments reported through `on_error`, in the order the code reports them (reversed) -/
  bad : List Path

/-- `filename_args` for a non-empty argument list. -/
def filenameArgs (fs : FS) (args : List Path) : FileArgs :=
  { files := args.flatMap (expandArg fs), bad := args.reverse.filter (isBadArg fs) }

/-! ### One file: `Modifier` and the actions -/

/-- `Modifier`: `filename` and the two cached attributes. -/
structure MState where
  cur : Path
  inp : Option Content
  out : Option Content
  deriving DecidableEq, Repr

def MState.fresh (p : Path) : MState := ⟨p, none, none⟩

inductive ErrKind
  | badFilename   -- on_error of filename_args
  | io            -- reading the file failed (missing, a directory, undecodable bytes)
  | rewriter      -- the rewriter raised (syntax error, undecodable bytes, …)
  | eof           -- input() hit end of file
  | unsafeTarget  -- `symlink_follow`: `Filename(os.path.realpath(link))` raised UnsafeFilenameError
  deriving DecidableEq, Repr

inductive Event
  | badArg (p : Path)
  | begin (p : Path)
  | read (p : Path) (c : Content)
  | rewrite (c : Content)
  | print (o : Content)
  | write (p : Path) (o : Content)
  | writeFailed (p : Path)
  | exec (diff : Bool) (p : Path) (o : Content)
  | ask (named : Bool) (p : Path)
  | aborted
  | failed (p : Path) (e : ErrKind)
  deriving DecidableEq, Repr

inductive Outcome
  | done | aborted | exit1 | error (e : ErrKind) | sysexit
  deriving DecidableEq, Repr

/-- Result of one action / of the action loop of one file. -/
structure Res where
  fs : FS
  st : MState
  ans : List Str
  ev : List Event
  oc : Outcome

/-- The things the action loop is parametric in: the rewriter (`modify_function`; `none` = it
    raises), which contents `read_file` can decode, where `atomic_write_file` succeeds, and which real paths
    `Filename` accepts. -/
structure Env where
  rw : Content → Option Content
  readable : Content → Bool
  /-- `atomic_write_file(path, …)` succeeds; otherwise it raises `OSError` before anything exists under the
      target's name (unwritable directory, read-only file system, `<name>.tmp.<pid>` longer than NAME_MAX, …) -/
  writable : Path → Bool
  /-- `Filename(os.path.realpath(<name of the path>))` does not raise: the real path (all symlinks resolved; a
      link and the file it finally resolves to have the same one) lies inside `Filename`'s whitelist
      `[a-zA-Z0-9_=+{}/.,~@-]`.  Consulted only by `symlink_follow` (`m.filename = m.filename.realpath`): the
      other policies never build the real path. -/
  realSafe : Path → Bool := fun _ => true

/-- `m.input_content` (cached). -/
def getInput (env : Env) (fs : FS) (st : MState) : Except ErrKind (MState × Content × List Event) :=
  match st.inp with
  | some c => .ok (st, c, [])
  | none =>
    match contentAt fs st.cur with
    | none => .error .io
    | some c => if env.readable c then .ok ({ st with inp := some c }, c, [.read st.cur c]) else .error .io

/-- `m.output_content` (cached; the rewriter runs only when nothing is cached).  The events are
    returned also on failure. -/
def getOutput (env : Env) (fs : FS) (st : MState) :
    Except (ErrKind × List Event) (MState × Content × List Event) :=
  match st.out with
  | some o => .ok (st, o, [])
  | none =>
    match getInput env fs st with
    | .error e => .error (e, [])
    | .ok (st1, c, ev) =>
      match env.rw c with
      | none => .error (.rewriter, ev ++ [.rewrite c])
      | some o => .ok ({ st1 with out := some o }, o, ev ++ [.rewrite c])

def pyWhitespace (c : Char) : Bool :=
  c = ' ' || c = '\t' || c = '\n' || c = '\r' || c = '\x0b' || c = '\x0c' ||
  c = '\x1c' || c = '\x1d' || c = '\x1e' || c = '\x1f' || c = '\u0085' || c = '\u00a0'

/-- `input().strip().lower().startswith('y')` -/
def isYes (a : Str) : Bool :=
  match a.dropWhile pyWhitespace with
  | c :: _ => c = 'y' || c = 'Y'
  | [] => false

def withOutput (env : Env) (fs : FS) (st : MState) (ans : List Str)
    (k : MState → Content → List Event → Res) : Res :=
  match getOutput env fs st with
  | .error (e, ev) => ⟨fs, st, ans, ev, .error e⟩
  | .ok (st1, o, ev) => k st1 o ev

/-- One action applied to the Modifier. -/
def step (env : Env) (a : Action) (fs : FS) (st : MState) (ans : List Str) : Res :=
  match a with
  | .print => withOutput env fs st ans fun st1 o ev => ⟨fs, st1, ans, ev ++ [.print o], .done⟩
  | .ifchanged =>
    withOutput env fs st ans fun st1 o ev =>
      -- `m.output_content.joined == m.input_content.joined` (the input is cached by now unless the
      -- output cache was pre-filled; then it is read here)
      match getInput env fs st1 with
      | .error e => ⟨fs, st1, ans, ev, .error e⟩
      | .ok (st2, c, ev2) =>
        if o = c then ⟨fs, st2, ans, ev ++ ev2, .aborted⟩ else ⟨fs, st2, ans, ev ++ ev2, .done⟩
  | .replace =>
    withOutput env fs st ans fun st1 o ev =>
      if env.writable st1.cur then
        ⟨fs.update st1.cur (.file o false), st1, ans, ev ++ [.write st1.cur o], .done⟩
      else
        -- OSError out of atomic_write_file: an ordinary exception, collected like any other
        ⟨fs, st1, ans, ev ++ [.writeFailed st1.cur], .error .io⟩
  | .exit1 => ⟨fs, st, ans, [], .exit1⟩
  | .diff => withOutput env fs st ans fun st1 o ev => ⟨fs, st1, ans, ev ++ [.exec true st1.cur o], .done⟩
  | .exec => withOutput env fs st ans fun st1 o ev => ⟨fs, st1, ans, ev ++ [.exec false st1.cur o], .done⟩
  | .query named =>
    match ans with
    | [] => ⟨fs, st, ans, [.ask named st.cur], .error .eof⟩
    | a :: rest =>
      if isYes a then ⟨fs, st, rest, [.ask named st.cur], .done⟩
      else ⟨fs, st, rest, [.ask named st.cur, .aborted], .aborted⟩
  | .symlink .error => if isLink fs st.cur then ⟨fs, st, ans, [], .sysexit⟩ else ⟨fs, st, ans, [], .done⟩
  | .symlink .follow =>
    if isLink fs st.cur then
      -- `m.filename = m.filename.realpath`: `Filename.realpath` builds `Filename(os.path.realpath(...))`, which
      -- raises UnsafeFilenameError (a ValueError, collected by process_actions like any exception) when the
      -- resolved path has a character outside the whitelist; `m.filename` is then still the link, nothing was
      -- read, the rewriter has not run
      if env.realSafe ((resolve fs st.cur).getD st.cur) then
        ⟨fs, { st with cur := (resolve fs st.cur).getD st.cur }, ans, [], .done⟩
      else ⟨fs, st, ans, [], .error .unsafeTarget⟩
    else ⟨fs, st, ans, [], .done⟩
  | .symlink .skip => if isLink fs st.cur then ⟨fs, st, ans, [], .aborted⟩ else ⟨fs, st, ans, [], .done⟩
  | .symlink .replace => ⟨fs, st, ans, [], .done⟩

/-- `for action in actions: action(m)` — any outcome other than `done` leaves the loop. -/
def runActions (env : Env) : List Action → FS → MState → List Str → Res
  | [], fs, st, ans => ⟨fs, st, ans, [], .done⟩
  | a :: rest, fs, st, ans =>
    let r := step env a fs st ans
    match r.oc with
    | .done =>
      let r2 := runActions env rest r.fs r.st r.ans
      { r2 with ev := r.ev ++ r2.ev }
    | _ => r

/-! ### The loop over files -/

structure Msg where
  path : Path
  kind : ErrKind
  deriving DecidableEq, Repr

structure Run where
  fs : FS
  ans : List Str
  errors : List Msg
  exit1 : Bool
  ev : List Event
  /-- `SystemExit` raised by `symlink_error` for this path: the loop is left -/
  halted : Option Path

/-- Body of `for filename in filenames:` with its `except` clauses. -/
def processFile (env : Env) (acts : List Action) (s : Run) (p : Path) : Run :=
  let r := runActions env acts s.fs (MState.fresh p) s.ans
  let ev := s.ev ++ .begin p :: r.ev
  match r.oc with
  | .done => { s with fs := r.fs, ans := r.ans, ev := ev }
  | .aborted => { s with fs := r.fs, ans := r.ans, ev := ev }
  | .exit1 => { s with fs := r.fs, ans := r.ans, ev := ev, exit1 := true }
  | .error e => { s with fs := r.fs, ans := r.ans, ev := ev ++ [.failed p e], errors := s.errors ++ [⟨p, e⟩] }
  | .sysexit => { s with fs := r.fs, ans := r.ans, ev := ev, halted := some r.st.cur }

def processFiles (env : Env) (acts : List Action) : List Path → Run → Run
  | [], s => s
  | p :: ps, s =>
    let s1 := processFile env acts s p
    match s1.halted with
    | some _ => s1
    | none => processFiles env acts ps s1

structure Result where
  fs : FS
  /-- process exit status -/
  status : Nat
  /-- the files named by the final message, in order -/
  summary : List Msg
  /-- `some p`: the run ended with symlink_error's SystemExit naming `p` -/
  sysexit : Option Path
  ev : List Event
  ansLeft : List Str

/-- The end of `process_actions`: `SystemExit(msg)` when there are errors, else `SystemExit(exit_code)`;
    a SystemExit from `symlink_error` bypasses both. -/
def finish (s : Run) : Result :=
  match s.halted with
  | some p => ⟨s.fs, 1, [], some p, s.ev, s.ans⟩
  | none =>
    if s.errors.isEmpty then ⟨s.fs, if s.exit1 then 1 else 0, [], none, s.ev, s.ans⟩
    else ⟨s.fs, 1, s.errors, none, s.ev, s.ans⟩

def initRun (fs : FS) (fa : FileArgs) (ans : List Str) : Run :=
  { fs := fs, ans := ans, errors := fa.bad.map (⟨·, .badFilename⟩), exit1 := false,
    ev := fa.bad.map .badArg, halted := none }

/-- `process_actions(filenames, actions, modify_function)` for a non-empty `filenames`. -/
def processActions (env : Env) (fs : FS) (acts : List Action) (args : List Path)
    (ans : List Str) : Result :=
  let fa := filenameArgs fs args
  finish (processFiles env acts fa.files (initRun fs fa ans))

/-- A whole invocation: option parsing, then `process_actions`.  An option error ends the
    program before any file is looked at (exit status 2 from optparse, 1 for the exception). -/
def main (env : Env) (keep : Bool) (tty : Bool) (opts : List Opt) (fs : FS) (args : List Path)
    (ans : List Str) : Result :=
  match parseOptions keep tty opts with
  | .error .optionValueError => ⟨fs, 2, [], none, [], ans⟩
  | .error .exception => ⟨fs, 1, [], none, [], ans⟩
  | .ok acts => processActions env fs acts args ans

/-! ### File names (`_file.Filename._from_filename`)

The tools build `Filename(arg)` for every argument before anything else; a name outside the
whitelist raises `UnsafeFilenameError` out of `process_actions` (nothing is read or written), and
`Filename.list` silently drops such directory entries (that is part of `DirEntry.visible`).  This
whitelist is what makes the unquoted `"%s %s %s" % (command, input, output)` handed to
`subprocess.call(..., shell=True)` by `action_external_command` (DIFF / EXECUTE) a three-word command. -/

/-- the character class `[a-zA-Z0-9_=+{}/.,~@-]` -/
def safeChar (c : Char) : Bool :=
  (97 ≤ c.toNat && c.toNat ≤ 122) || (65 ≤ c.toNat && c.toNat ≤ 90) || (48 ≤ c.toNat && c.toNat ≤ 57) ||
  c = '_' || c = '=' || c = '+' || c = '{' || c = '}' || c = '/' || c = '.' || c = ',' || c = '~' ||
  c = '@' || c = '-'

/-- `re.search("(^|/)~", filename)` finds nothing -/
def noTildeComponent : Str → Bool
  | [] => true
  | '~' :: _ => false
  | s => go s
where
  go : Str → Bool
    | [] => true
    | '/' :: '~' :: _ => false
    | _ :: r => go r

/-- `Filename(abspath)` does not raise -/
def safeName (s : Str) : Bool := !s.isEmpty && s.all safeChar && noTildeComponent s

/-- A whole invocation with named paths: one unsafe argument name refuses the run (after option
    parsing, before any file is looked at). -/
def mainNamed (env : Env) (keep : Bool) (tty : Bool) (opts : List Opt) (name : Path → Str) (fs : FS)
    (args : List Path) (ans : List Str) : Result :=
  if args.all (fun p => safeName (name p)) then main env keep tty opts fs args ans
  else match parseOptions keep tty opts with
    | .error .optionValueError => ⟨fs, 2, [], none, [], ans⟩
    | _ => ⟨fs, 1, [], none, [], ans⟩

/-! ### Variants selected by the tree (defect round: C09-2 `--verbose` fail-fast, C09-1a unsafe argument names)

`mainNamed` above is the tree as pinned *without* noise options.  Two more behaviours exist on one tree or the other:

* fail-fast (`failFast = true`): `process_actions` re-raises the first collected per-file exception
  (`if logger.debug_enabled: raise` before `fixes/C09-2.diff`: under `--debug`, `--verbose` and
  `PYFLYBY_LOG_LEVEL=DEBUG`; after it under `--debug` only): the loop over files is left, no summary is
  printed, the exception leaves the tool.
* isolated unsafe names (`isoUnsafe = true`, tree with `fixes/C09-1a.diff`): an argument whose name `Filename`
  refuses is reported through `on_error` (a "bad filename", in command-line order, ahead of the ones
  `expand_py_files_from_args` reports) and the other arguments are processed; `isoUnsafe = false` is the refusal
  of the whole run (`mainNamed`). -/

/-- The loop over files when the first `error` outcome is re-raised.  Second component: the file and the
    error that left the tool (`none`: the loop ended as `processFiles` does). -/
def processFilesFF (env : Env) (acts : List Action) : List Path → Run → Run × Option Msg
  | [], s => (s, none)
  | p :: ps, s =>
    let s1 := processFile env acts s p
    match (runActions env acts s.fs (MState.fresh p) s.ans).oc with
    | .error e => (s1, some ⟨p, e⟩)
    | _ =>
      match s1.halted with
      | some _ => (s1, none)
      | none => processFilesFF env acts ps s1

/-- A whole invocation with named paths, with the two variant bits.  Second component: the exception that
    escaped `process_actions` under fail-fast (exit status 1, no summary). -/
def mainV (env : Env) (keep tty isoUnsafe failFast : Bool) (opts : List Opt) (name : Path → Str) (fs : FS)
    (args : List Path) (ans : List Str) : Result × Option Msg :=
  match parseOptions keep tty opts with
  | .error .optionValueError => (⟨fs, 2, [], none, [], ans⟩, none)
  | .error .exception => (⟨fs, 1, [], none, [], ans⟩, none)
  | .ok acts =>
    if !isoUnsafe && !args.all (fun p => safeName (name p)) then (⟨fs, 1, [], none, [], ans⟩, none)
    else
      let fa0 := filenameArgs fs (args.filter fun p => safeName (name p))
      let fa : FileArgs := ⟨fa0.files, (args.filter fun p => !safeName (name p)) ++ fa0.bad⟩
      let init := initRun fs fa ans
      if failFast then
        match processFilesFF env acts fa.files init with
        | (s, some m) => (⟨s.fs, 1, [], none, s.ev, s.ans⟩, some m)
        | (s, none) => (finish s, none)
      else (finish (processFiles env acts fa.files init), none)

end Pfb.C09
