/-
  Pfb.C09.Props — C09 "No file is modified without the configured go-ahead":
  property theorems over the model `Pfb.C09.Model` of `_cmdline.py`.

  All theorems quantify over every rewriter/decoder `env`, every file system `fs`, every action
  list, every argument list and every answer sequence; there is no bound on any length.
-/
import Pfb.C09.Lemmas
namespace Pfb.C09

/-! ### Vocabulary of the statements -/

/-- Every REPLACE of the list has an action satisfying `g` somewhere before it. -/
def guardedBy (g : Action → Bool) : List Action → Bool
  | [] => true
  | a :: rest => if a = .replace then false else (g a || guardedBy g rest)

def Action.isQuery : Action → Bool
  | .query _ => true
  | _ => false

theorem guardedBy_spec {g : Action → Bool} : ∀ {acts : List Action} {k : Nat},
    guardedBy g acts = true → acts[k]? = some .replace → ∃ a ∈ acts.take k, g a = true
  | [], k, _, h => by simp at h
  | a :: rest, 0, hg, h => by
    simp at h; subst h; simp [guardedBy] at hg
  | a :: rest, k + 1, hg, h => by
    simp only [guardedBy] at hg
    split at hg
    · simp at hg
    · simp only [Bool.or_eq_true] at hg
      rcases hg with hg | hg
      · exact ⟨a, by simp, hg⟩
      · obtain ⟨x, hx, hgx⟩ := guardedBy_spec hg (by simpa using h)
        exact ⟨x, by simp [hx], hgx⟩

theorem finish_fs (s : Run) : (finish s).fs = s.fs := by
  unfold finish; split
  · rfl
  · split <;> rfl

theorem processActions_fs (env : Env) (fs : FS) (acts : List Action) (args : List Path) (ans : List Str) :
    (processActions env fs acts args ans).fs =
      (processFiles env acts (filenameArgs fs args).files (initRun fs (filenameArgs fs args) ans)).fs := by
  simp only [processActions, finish_fs]

/-! ### C09_safety -/

/-- Loop-level safety, from any state of the loop over files. -/
theorem processFiles_change {env : Env} {acts : List Action} {q : Path} :
    ∀ (files : List Path) (s : Run), s.halted = none →
    (processFiles env acts files s).fs q ≠ s.fs q →
    ∃ pre p post, files = pre ++ p :: post ∧ (processFiles env acts pre s).halted = none ∧
      ∃ k, acts[k]? = some .replace ∧
        (runActions env (acts.take k) (processFiles env acts pre s).fs (MState.fresh p)
            (processFiles env acts pre s).ans).oc = .done ∧
        (runActions env (acts.take k) (processFiles env acts pre s).fs (MState.fresh p)
            (processFiles env acts pre s).ans).st.cur = q ∧
        ∃ c o, contentAt (processFiles env acts pre s).fs p = some c ∧ env.readable c = true ∧
          env.rw c = some o ∧ (processFiles env acts files s).fs q = some (.file o false)
  | [], s, _, h => by simp at h
  | p :: ps, s, hs, h => by
    -- what the body of the loop did for `p`
    have own : (processFile env acts s p).fs q ≠ s.fs q →
        ∃ k, acts[k]? = some .replace ∧
          (runActions env (acts.take k) s.fs (MState.fresh p) s.ans).oc = .done ∧
          (runActions env (acts.take k) s.fs (MState.fresh p) s.ans).st.cur = q ∧
          ∃ c o, contentAt s.fs p = some c ∧ env.readable c = true ∧ env.rw c = some o ∧
            (processFile env acts s p).fs q = some (.file o false) := by
      intro hne
      rw [processFile_fs] at hne ⊢
      exact runActions_change acts s.ans (Inv.fresh env s.fs p) hne
    by_cases hh : (processFile env acts s p).halted = none
    · rw [processFiles_cons_go hh] at h ⊢
      by_cases hch : (processFiles env acts ps (processFile env acts s p)).fs q ≠ (processFile env acts s p).fs q
      · obtain ⟨pre, p', post, hfiles, hhalt, hrest⟩ := processFiles_change ps _ hh hch
        refine ⟨p :: pre, p', post, by simp [hfiles], ?_, ?_⟩
        · rw [processFiles_cons_go hh]; exact hhalt
        · rw [processFiles_cons_go hh]; exact hrest
      · have heq := Classical.not_not.mp hch
        rw [heq] at h ⊢
        obtain ⟨k, hk, hd, hc, hrest⟩ := own h
        exact ⟨[], p, ps, rfl, by simpa using hs, k, hk, by simpa using hd, by simpa using hc, by simpa using hrest⟩
    · rw [processFiles_cons_halt hh] at h ⊢
      obtain ⟨k, hk, hd, hc, hrest⟩ := own h
      exact ⟨[], p, ps, rfl, by simpa using hs, k, hk, by simpa using hd, by simpa using hc, by simpa using hrest⟩

/-- **C09_safety.**  If the node of a path `q` differs after `process_actions`, then some file `p` of the
    expanded argument list was reached by the loop (no SystemExit before it), the action list has a
    REPLACE at some index `k`, the actions before it (`acts.take k`), run on `p` from the state the
    earlier files left, all completed (no AbortActions, Exit1, exception or SystemExit) and left
    `m.filename = q`, and the node of `q` is a freshly written regular file holding exactly the
    rewriter's output on the content `p` had when its turn came. -/
theorem C09_safety (env : Env) (fs : FS) (acts : List Action) (args : List Path) (ans : List Str) (q : Path)
    (h : (processActions env fs acts args ans).fs q ≠ fs q) :
    ∃ pre p post, (filenameArgs fs args).files = pre ++ p :: post ∧
      (processFiles env acts pre (initRun fs (filenameArgs fs args) ans)).halted = none ∧
      ∃ k, acts[k]? = some .replace ∧
        (runActions env (acts.take k) (processFiles env acts pre (initRun fs (filenameArgs fs args) ans)).fs
            (MState.fresh p) (processFiles env acts pre (initRun fs (filenameArgs fs args) ans)).ans).oc = .done ∧
        (runActions env (acts.take k) (processFiles env acts pre (initRun fs (filenameArgs fs args) ans)).fs
            (MState.fresh p) (processFiles env acts pre (initRun fs (filenameArgs fs args) ans)).ans).st.cur = q ∧
        ∃ c o, contentAt (processFiles env acts pre (initRun fs (filenameArgs fs args) ans)).fs p = some c ∧
          env.readable c = true ∧ env.rw c = some o ∧
          (processActions env fs acts args ans).fs q = some (.file o false) := by
  rw [processActions_fs] at h ⊢
  exact processFiles_change _ (initRun fs (filenameArgs fs args) ans) rfl h

/-! ### Corollaries in terms of the inputs only -/

/-- **C09_print_diff_only.**  An action list without REPLACE (PRINT, DIFF, EXECUTE, QUERY, IFCHANGED, EXIT1,
    symlink actions in any number and order) leaves the whole file system as it was. -/
theorem C09_print_diff_only (env : Env) (fs : FS) (acts : List Action) (args : List Path) (ans : List Str)
    (h : .replace ∉ acts) : (processActions env fs acts args ans).fs = fs := by
  rw [processActions_fs]
  refine processFiles_induct (fun s => s.fs = fs) _ _ (fun s p _ hs => ?_) rfl
  show (processFile env acts s p).fs = fs
  rw [processFile_fs, runActions_no_replace env acts _ _ _ h]; exact hs

/-- One file's turn cannot touch a regular file whose content the rewriter maps to itself, when
    IFCHANGED guards every REPLACE. -/
theorem processFile_ifchanged {env : Env} {acts : List Action} (s : Run) (p q : Path) {c : Content} {g : Bool}
    (hg : guardedBy (fun a => decide (a = .ifchanged)) acts = true)
    (hq : s.fs q = some (.file c g)) (hfix : env.rw c = some c) :
    (processFile env acts s p).fs q = s.fs q := by
  rw [processFile_fs]
  apply Classical.byContradiction
  intro hne
  obtain ⟨k, hk, hd, hcur, c', o, hc0, _, hrw, _⟩ := runActions_change acts s.ans (Inv.fresh env s.fs p) hne
  obtain ⟨a, ha, hga⟩ := guardedBy_spec hg hk
  have ha' : a = .ifchanged := by simpa using hga
  subst ha'
  obtain ⟨o', c'', ho', hc'', hneq⟩ := runActions_done_ifchanged env _ _ _ _ hd ha
  have hJ := runActions_Inv (acts.take k) s.ans (Inv.fresh env s.fs p) hd
  have h1 : contentAt s.fs p = some c'' := (hJ.inp c'' hc'').1
  obtain ⟨c3, hc3, hrw3⟩ := hJ.out o' ho'
  rw [hc''] at hc3; simp at hc3; subst hc3
  have h2 : contentAt s.fs q = some c'' := by
    have := hJ.cur; rw [hcur] at this; rw [this]; exact h1
  rw [contentAt_file hq] at h2
  simp at h2; subst h2
  rw [hfix] at hrw3; simp at hrw3
  exact hneq hrw3.symm

/-- **C09_ifchanged.**  If IFCHANGED is configured ahead of every REPLACE, a regular file whose rewriter
    output equals its content keeps its node (bytes and inode), whatever else is on the command line
    (it may be named several times, directly or through symlinks, under any policy). -/
theorem C09_ifchanged (env : Env) (fs : FS) (acts : List Action) (args : List Path) (ans : List Str)
    (q : Path) (c : Content) (g : Bool)
    (hg : guardedBy (fun a => decide (a = .ifchanged)) acts = true)
    (hq : fs q = some (.file c g)) (hfix : env.rw c = some c) :
    (processActions env fs acts args ans).fs q = fs q := by
  rw [processActions_fs]
  refine processFiles_induct (fun s => s.fs q = fs q) _ _ (fun s p _ hs => ?_) rfl
  show (processFile env acts s p).fs q = fs q
  rw [processFile_ifchanged s p q hg (by rw [hs]; exact hq) hfix]; exact hs

/-- **C09_query_no.**  If a QUERY is configured ahead of every REPLACE and no answer in the sequence means
    yes (any other text, or no answer at all: end of input), nothing in the file system changes. -/
theorem C09_query_no (env : Env) (fs : FS) (acts : List Action) (args : List Path) (ans : List Str)
    (hg : guardedBy Action.isQuery acts = true) (hno : ∀ a ∈ ans, isYes a = false) :
    (processActions env fs acts args ans).fs = fs := by
  rw [processActions_fs]
  have key := processFiles_induct (env := env) (acts := acts)
    (fun s => s.fs = fs ∧ ∀ a ∈ s.ans, isYes a = false) (filenameArgs fs args).files
    (initRun fs (filenameArgs fs args) ans) (fun s p _ hs => ?_) ⟨rfl, hno⟩
  · exact key.1
  · obtain ⟨hfs, hans⟩ := hs
    constructor
    · rw [processFile_fs, ← hfs]
      funext q
      apply Classical.byContradiction
      intro hne
      obtain ⟨k, hk, hd, _⟩ := runActions_change acts s.ans (Inv.fresh env s.fs p) hne
      obtain ⟨a, ha, hga⟩ := guardedBy_spec hg hk
      have : ∃ n, Action.query n ∈ acts.take k := by
        cases a <;> simp [Action.isQuery] at hga
        exact ⟨_, ha⟩
      obtain ⟨x, hx, hy⟩ := runActions_done_query env _ _ _ _ hd this
      rw [hans x hx] at hy; simp at hy
    · rw [processFile_ans]
      obtain ⟨pre, hpre⟩ := runActions_ans env acts s.fs (MState.fresh p) s.ans
      intro a ha
      exact hans a (by rw [hpre]; exact List.mem_append_right _ ha)

/-- **C09_rewriter_failure.**  A regular file on whose content the rewriter raises (or which cannot be
    decoded) keeps its node under every action list, policy, argument list and answer sequence. -/
theorem C09_rewriter_failure (env : Env) (fs : FS) (acts : List Action) (args : List Path) (ans : List Str)
    (q : Path) (c : Content) (g : Bool) (hq : fs q = some (.file c g))
    (hfail : env.rw c = none ∨ env.readable c = false) :
    (processActions env fs acts args ans).fs q = fs q := by
  rw [processActions_fs]
  refine processFiles_induct (fun s => s.fs q = fs q) _ _ (fun s p _ hs => ?_) rfl
  show (processFile env acts s p).fs q = fs q
  rw [← hs, processFile_fs]
  apply Classical.byContradiction
  intro hne
  obtain ⟨k, hk, hd, hcur, c', o, hc0, hrd, hrw, _⟩ := runActions_change acts s.ans (Inv.fresh env s.fs p) hne
  have hJ := runActions_Inv (acts.take k) s.ans (Inv.fresh env s.fs p) hd
  have h2 : contentAt s.fs q = some c' := by
    have := hJ.cur; rw [hcur] at this; rw [this]; exact hc0
  rw [contentAt_file (by rw [hs]; exact hq)] at h2
  simp at h2; subst h2
  rcases hfail with h | h
  · rw [h] at hrw; simp at hrw
  · rw [h] at hrd; simp at hrd

/-- a one-file world for the example below: path 3 holds content 10, which the rewriter maps to 11 -/
def fsW' : FS := fun p => if p = 3 then some (.file 10 true) else none
def envW' : Env := { rw := fun c => if c = 10 then some 11 else some c, readable := fun _ => true, writable := fun _ => true }

/-- **C09_rewriter_once.**  `Modifier` laziness: whatever the action list (PRINT, IFCHANGED, DIFF, REPLACE, …
    may all need the output), the rewriter is invoked at most once during one file's turn. -/
theorem C09_rewriter_once (env : Env) (acts : List Action) (fs : FS) (p : Path) (ans : List Str) :
    rewrites (runActions env acts fs (MState.fresh p) ans).ev ≤ 1 := by
  have := runActions_rewrites env acts fs (MState.fresh p) ans
  simpa [budget, MState.fresh] using this

-- the bound is attained although three actions use the output
example : rewrites (runActions envW' [.print, .ifchanged, .diff, .replace] fsW' (MState.fresh 3) []).ev = 1 := by decide

/-- **C09_unwritable_untouched.**  A path at which `atomic_write_file` fails keeps its node, under every
    action list, policy, argument list and answer sequence (a failed REPLACE writes nothing). -/
theorem C09_unwritable_untouched (env : Env) (fs : FS) (acts : List Action) (args : List Path) (ans : List Str)
    (q : Path) (hq : env.writable q = false) :
    (processActions env fs acts args ans).fs q = fs q := by
  rw [processActions_fs]
  refine processFiles_induct (fun s => s.fs q = fs q) _ _ (fun s p _ hs => ?_) rfl
  show (processFile env acts s p).fs q = fs q
  rw [processFile_fs, runActions_unwritable env hq]; exact hs

/-! ### File names -/

/-- Characters the shell gives a meaning to inside an unquoted word (POSIX "must be quoted" set plus the
    pattern, comment, history and expansion characters). -/
def shellSpecial : List Char :=
  [' ', '\t', '\n', '\r', '|', '&', ';', '<', '>', '(', ')', '$', '`', '\\', '"', '\'', '*', '?', '[', ']',
   '#', '!', '^', '%', ':']

/-- **safeName_shell_inert.**  A name accepted by `Filename` contains no character that the shell interprets:
    the unquoted interpolation of file names into the DIFF / EXECUTE command line yields exactly one word per
    name, so such a command cannot redirect into, or run anything on, another path by way of the name. -/
theorem safeName_shell_inert (s : Str) (h : safeName s = true) : ∀ c ∈ s, c ∉ shellSpecial := by
  intro c hc hsp
  have hall : s.all safeChar = true := by
    simp only [safeName, Bool.and_eq_true] at h; exact h.1.2
  have hsafe : safeChar c = true := List.all_eq_true.mp hall c hc
  have hno : ∀ x ∈ shellSpecial, safeChar x = false := by decide
  rw [hno c hsp] at hsafe; simp at hsafe

/-- **C09_unsafe_refused.**  One argument whose name is outside the whitelist refuses the whole run: nothing
    in the file system changes and the exit status is non-zero. -/
theorem C09_unsafe_refused (env : Env) (keep tty : Bool) (opts : List Opt) (name : Path → Str) (fs : FS)
    (args : List Path) (ans : List Str) (p : Path) (hp : p ∈ args) (hu : safeName (name p) = false) :
    (mainNamed env keep tty opts name fs args ans).fs = fs ∧
    (mainNamed env keep tty opts name fs args ans).status ≠ 0 := by
  have hall : args.all (fun p => safeName (name p)) = false := by
    rw [List.all_eq_false]; exact ⟨p, hp, by simp [hu]⟩
  unfold mainNamed
  simp only [hall]
  cases parseOptions keep tty opts with
  | error e => cases e <;> simp
  | ok a => simp

-- the names of the seeded change: 'v1->v2.py' is refused, 'v1-v2.py' accepted, 'é.py' and '~x' refused
example : safeName "/tmp/w/v1->v2.py".toList = false ∧ safeName "/tmp/w/v1-v2.py".toList = true ∧
    safeName "/tmp/w/é.py".toList = false ∧ safeName "/tmp/~x".toList = false ∧ safeName "".toList = false ∧
    safeName "/tmp/a b.py".toList = false ∧ safeName "/tmp/w/-x.py".toList = true := by decide

/-! ### Symlink policies -/

/-- With a symlink policy action other than `replace` at the head of the tuple, every write of one
    file's turn goes to a path that is not a symlink; through a symlink only under `follow`, to the file it
    resolves to, and only if `Filename` accepts that file's real path. -/
theorem processFile_head_policy {env : Env} {pol : Policy} {rest : List Action} (s : Run) (p q : Path)
    (hpol : pol ≠ .replace)
    (hne : (processFile env (.symlink pol :: rest) s p).fs q ≠ s.fs q) :
    isLink s.fs q = false ∧
    (isLink s.fs p = false → q = p) ∧
    (isLink s.fs p = true → pol = .follow ∧ resolve s.fs p = some q ∧ env.realSafe q = true) := by
  rw [processFile_fs] at hne
  obtain ⟨k, hk, hd, hcur, c, o, hc0, _, _, _⟩ :=
    runActions_change (.symlink pol :: rest) s.ans (Inv.fresh env s.fs p) hne
  cases k with
  | zero => simp at hk
  | succ k =>
    rw [List.take_succ_cons] at hd hcur
    have hd1 := runActions_cons_done_inv hd
    rw [runActions_cons_done hd1] at hcur
    simp only at hcur
    -- after the policy action, `m.filename` is not a symlink
    have key : (step env (.symlink pol) s.fs (MState.fresh p) s.ans).fs = s.fs ∧
        isLink s.fs (step env (.symlink pol) s.fs (MState.fresh p) s.ans).st.cur = false ∧
        (isLink s.fs p = false → (step env (.symlink pol) s.fs (MState.fresh p) s.ans).st.cur = p) ∧
        (isLink s.fs p = true → pol = .follow ∧
          resolve s.fs p = some (step env (.symlink pol) s.fs (MState.fresh p) s.ans).st.cur ∧
          env.realSafe (step env (.symlink pol) s.fs (MState.fresh p) s.ans).st.cur = true) := by
      cases pol with
      | replace => exact absurd rfl hpol
      | follow =>
        have hnr := step_follow_done hd1
        rw [step_follow s.ans hnr]
        by_cases hl : isLink s.fs p = true
        · cases hr : resolve s.fs p with
          | none => simp [contentAt, hr] at hc0
          | some t =>
            have hnl := resolve_nonlink hr
            have hsafe : env.realSafe t = true := by
              simpa [followRefused, MState.fresh, hl, hr] using hnr
            refine ⟨rfl, ?_, ?_, ?_⟩
            · simpa [MState.fresh, hl, hr] using hnl
            · intro h; rw [hl] at h; simp at h
            · intro _; simpa [MState.fresh, hl, hr] using hsafe
        · have hl' : isLink s.fs p = false := by simpa using hl
          refine ⟨rfl, ?_, ?_, ?_⟩
          · simp [MState.fresh, hl']
          · intro _; simp [MState.fresh, hl']
          · intro h; rw [hl'] at h; simp at h
      | skip =>
        have h1 := step_symlink_done (Or.inl rfl) hd1
        obtain ⟨h2, h3⟩ := step_simple env (.symlink .skip) s.fs (MState.fresh p) s.ans (by simp)
        rw [h2, h3]
        exact ⟨rfl, h1, fun _ => rfl, fun h => by simp only [MState.fresh] at h1; rw [h1] at h; simp at h⟩
      | error =>
        have h1 := step_symlink_done (Or.inr rfl) hd1
        obtain ⟨h2, h3⟩ := step_simple env (.symlink .error) s.fs (MState.fresh p) s.ans (by simp)
        rw [h2, h3]
        exact ⟨rfl, h1, fun _ => rfl, fun h => by simp only [MState.fresh] at h1; rw [h1] at h; simp at h⟩
    obtain ⟨kfs, knl, kp, kl⟩ := key
    have hstay := (runActions_cur_of_nonlink env (rest.take k)
      (step env (.symlink pol) s.fs (MState.fresh p) s.ans).fs
      (step env (.symlink pol) s.fs (MState.fresh p) s.ans).st
      (step env (.symlink pol) s.fs (MState.fresh p) s.ans).ans (by rw [kfs]; exact knl)).1
    rw [hstay] at hcur
    rw [← hcur]
    exact ⟨knl, kp, kl⟩

/-- **C09_follow_only_target.**  Under the follow policy the turn of a symlink argument `p` can change
    only the node of the file the link resolves to (from any state of the loop over files), and only when
    `Filename` accepts that file's real path (`realSafe`); `p` itself keeps its node.  So when the real path
    is refused, that turn changes no node at all (`C09_follow_unsafe_untouched` says what happens instead). -/
theorem C09_follow_only_target (env : Env) (rest : List Action) (s : Run) (p q : Path)
    (hl : isLink s.fs p = true)
    (hne : (processFile env (.symlink .follow :: rest) s p).fs q ≠ s.fs q) :
    resolve s.fs p = some q ∧ q ≠ p ∧ env.realSafe q = true := by
  obtain ⟨hq, _, h3⟩ := processFile_head_policy s p q (by simp) hne
  refine ⟨(h3 hl).2.1, ?_, (h3 hl).2.2⟩
  intro h; subst h; rw [hl] at hq; simp at hq

/-- **C09_links_preserved.**  While the policy action (error, skip or follow) is at the head of the action
    tuple, no path that is a symlink before the run has a different node after it — whatever the rest of
    the tuple, the arguments and the answers. -/
theorem C09_links_preserved (env : Env) (fs : FS) (pol : Policy) (rest : List Action) (args : List Path)
    (ans : List Str) (hpol : pol ≠ .replace) (q : Path) (hq : isLink fs q = true) :
    (processActions env fs (.symlink pol :: rest) args ans).fs q = fs q := by
  rw [processActions_fs]
  refine processFiles_induct (fun s => s.fs q = fs q) _ _ (fun s p _ hs => ?_) rfl
  show (processFile env (.symlink pol :: rest) s p).fs q = fs q
  rw [← hs]
  apply Classical.byContradiction
  intro hne
  have h1 := (processFile_head_policy s p q hpol hne).1
  have h2 : isLink s.fs q = true := by
    unfold isLink at hq ⊢; rw [hs]; exact hq
  rw [h1] at h2; simp at h2

/-- Under the error or skip policy at the head of the tuple the only paths whose node can differ after the run are arguments (after directory expansion) that are not
    symlinks: no symlink is replaced and no file is modified through a symlink. -/
theorem C09_skip_error_untouched_acts (env : Env) (fs : FS) (pol : Policy) (rest : List Action)
    (args : List Path) (ans : List Str) (hpol : pol = .skip ∨ pol = .error) (q : Path)
    (hne : (processActions env fs (.symlink pol :: rest) args ans).fs q ≠ fs q) :
    q ∈ (filenameArgs fs args).files ∧ isLink fs q = false := by
  rw [processActions_fs] at hne
  have hpr : pol ≠ .replace := by rcases hpol with h | h <;> (subst h; simp)
  have key := processFiles_induct (env := env) (acts := .symlink pol :: rest)
    (fun s => ∀ q, s.fs q ≠ fs q → q ∈ (filenameArgs fs args).files ∧ isLink fs q = false)
    (filenameArgs fs args).files (initRun fs (filenameArgs fs args) ans) (fun s p hp hs q hq => ?_)
    (fun q hq => absurd rfl hq)
  · exact key q hne
  · by_cases hch : (processFile env (.symlink pol :: rest) s p).fs q = s.fs q
    · exact hs q (by rw [← hch]; exact hq)
    · obtain ⟨h1, h2, h3⟩ := processFile_head_policy s p q hpr hch
      have hnl : isLink s.fs p = false := by
        cases hl : isLink s.fs p with
        | false => rfl
        | true =>
          have := (h3 hl).1
          rcases hpol with h | h <;> (subst h; simp at this)
      have hqp := h2 hnl
      subst hqp
      refine ⟨hp, ?_⟩
      by_cases hsame : s.fs q = fs q
      · unfold isLink at hnl ⊢; rw [← hsame]; exact hnl
      · exact (hs q hsame).2

/-! ### Option parsing: when is the policy action still in the tuple? -/

theorem optFold_append (keep : Bool) : ∀ (l1 l2 : List Opt) (acts : List Action),
    optFold keep acts (l1 ++ l2) =
      match optFold keep acts l1 with
      | .ok a => optFold keep a l2
      | .error e => .error e
  | [], l2, acts => rfl
  | o :: l1, l2, acts => by
    simp only [List.cons_append, optFold]
    cases optStep keep acts o with
    | error e => rfl
    | ok a => exact optFold_append keep l1 l2 a

/-- The symlink policy the command line asks for: the last `--symlinks=…`, default `error`. -/
def configuredPolicy (opts : List Opt) : Policy :=
  opts.foldl (fun cur o => match o with | .symlinks (some p) => p | _ => cur) .error

/-- D4's dividing line: the last option that touches the action tuple is `--symlinks=pol`
    (counting the implicit leading `--symlinks=error`). -/
def policyActionPresent (opts : List Opt) (pol : Policy) : Bool :=
  (Opt.symlinks (some .error) :: opts).getLast? == some (.symlinks (some pol))

/-- If no action option follows the last `--symlinks=pol`, the parsed tuple starts with that policy's
    action and contains no other symlink action. -/
theorem parse_policy_present {keep tty : Bool} {opts : List Opt} {pol : Policy} {acts : List Action}
    (hp : policyActionPresent opts pol = true) (h : parseOptions keep tty opts = .ok acts) :
    ∃ rest, acts = .symlink pol :: rest ∧ ∀ a ∈ rest, a.isSymlink = false := by
  unfold policyActionPresent at hp
  have hp' : (Opt.symlinks (some .error) :: opts).getLast? = some (.symlinks (some pol)) := by simpa using hp
  obtain ⟨l', hl'⟩ := List.getLast?_eq_some_iff.mp hp'
  unfold parseOptions at h
  rw [hl', optFold_append] at h
  cases h1 : optFold keep (defaultActions tty) l' with
  | error e => rw [h1] at h; simp at h
  | ok a =>
    rw [h1] at h
    simp only [optFold, optStep] at h
    simp at h
    refine ⟨a.filter (fun x => !x.isSymlink), h.symm, ?_⟩
    intro x hx
    have := (List.mem_filter.mp hx).2
    simpa using this

theorem policyActionPresent_configured {opts : List Opt} {pol : Policy}
    (hp : policyActionPresent opts pol = true) : configuredPolicy opts = pol := by
  unfold policyActionPresent at hp
  have hp' : (Opt.symlinks (some .error) :: opts).getLast? = some (.symlinks (some pol)) := by simpa using hp
  obtain ⟨l', hl'⟩ := List.getLast?_eq_some_iff.mp hp'
  have : configuredPolicy opts = configuredPolicy (Opt.symlinks (some .error) :: opts) := by
    simp [configuredPolicy]
  rw [this, hl']
  simp [configuredPolicy, List.foldl_append]

/-- **C09_skip_error_untouched_partial.**  For a whole invocation (`main`: option parsing, then
    `process_actions`): if the policy asked for is `skip` or `error` *and its action is still in the tuple*
    (no action option after the last `--symlinks`), then the only paths whose node can differ after the run
    are non-symlink arguments themselves — no symlink is replaced, nothing is written through a symlink.
    The full-strength statement (hypothesis `configuredPolicy opts = pol` only) is false on the unchanged
    tree (D4): see `C09_skip_error_untouched_full_false`. -/
theorem C09_skip_error_untouched_partial (env : Env) (keep tty : Bool) (opts : List Opt) (fs : FS)
    (args : List Path) (ans : List Str) (pol : Policy) (hpol : pol = .skip ∨ pol = .error)
    (hpresent : policyActionPresent opts pol = true) (q : Path)
    (hne : (main env keep tty opts fs args ans).fs q ≠ fs q) :
    q ∈ (filenameArgs fs args).files ∧ isLink fs q = false := by
  unfold main at hne
  cases hparse : parseOptions keep tty opts with
  | error e =>
    rw [hparse] at hne
    cases e <;> simp at hne
  | ok acts =>
    rw [hparse] at hne
    simp only at hne
    obtain ⟨rest, hacts, _⟩ := parse_policy_present hpresent hparse
    subst hacts
    exact C09_skip_error_untouched_acts env fs pol rest args ans hpol q hne

/-- The same for the follow policy: with its action still in the tuple no symlink is ever replaced. -/
theorem C09_follow_links_kept_partial (env : Env) (keep tty : Bool) (opts : List Opt) (fs : FS)
    (args : List Path) (ans : List Str) (pol : Policy) (hpol : pol ≠ .replace)
    (hpresent : policyActionPresent opts pol = true) (q : Path) (hq : isLink fs q = true) :
    (main env keep tty opts fs args ans).fs q = fs q := by
  unfold main
  cases hparse : parseOptions keep tty opts with
  | error e => cases e <;> rfl
  | ok acts =>
    simp only
    obtain ⟨rest, hacts, _⟩ := parse_policy_present hpresent hparse
    subst hacts
    exact C09_links_preserved env fs pol rest args ans hpol q hq

/-! ### The same clauses at full strength for the tree with `fixes/C09-D4.diff` (`keep = true`) -/

/-- `parse_action` never yields a symlink action, so `--actions=…` lists contain none. -/
def Opt.wf : Opt → Bool
  | .actions as => as.all (fun a => !a.isSymlink)
  | _ => true

theorem filter_symlink_nil {l : List Action} (h : ∀ a ∈ l, a.isSymlink = false) : l.filter Action.isSymlink = [] := by
  rw [List.filter_eq_nil_iff]
  intro a ha; rw [h a ha]; simp

theorem filter_not_symlink_free (l : List Action) : ∀ a ∈ l.filter (fun a => !a.isSymlink), a.isSymlink = false := by
  intro a ha
  simpa using (List.mem_filter.mp ha).2

theorem setActions_keep {cur : Policy} {rest new : List Action} (h : ∀ a ∈ rest, a.isSymlink = false) :
    setActions true (.symlink cur :: rest) new = .symlink cur :: new := by
  simp [setActions, List.filter_cons, Action.isSymlink, filter_symlink_nil h]

/-- With the fix, the tuple always starts with the action of the policy asked for so far. -/
theorem optFold_keep_inv : ∀ (opts : List Opt) (cur : Policy) (rest acts : List Action),
    (∀ a ∈ rest, a.isSymlink = false) → (∀ o ∈ opts, o.wf = true) →
    optFold true (.symlink cur :: rest) opts = .ok acts →
    ∃ rest', acts = .symlink (opts.foldl (fun cur o => match o with | .symlinks (some p) => p | _ => cur) cur) :: rest' ∧
      ∀ a ∈ rest', a.isSymlink = false
  | [], cur, rest, acts, hrest, _, h => by
    simp [optFold] at h; subst h; exact ⟨rest, rfl, hrest⟩
  | o :: os, cur, rest, acts, hrest, hwf, h => by
    have hwf' : ∀ o ∈ os, o.wf = true := fun x hx => hwf x (List.mem_cons_of_mem _ hx)
    have hwfo := hwf o (by simp)
    simp only [optFold] at h
    cases o with
    | actions as =>
      simp only [optStep, setActions_keep hrest] at h
      have hs : ∀ a ∈ as, a.isSymlink = false := by
        intro a ha
        simp only [Opt.wf, List.all_eq_true] at hwfo
        simpa using hwfo a ha
      simpa using optFold_keep_inv os cur as acts hs hwf' h
    | actionsBad => simp [optStep] at h
    | print =>
      simp only [optStep, setActions_keep hrest] at h
      simpa using optFold_keep_inv os cur _ acts (by simp [Action.isSymlink]) hwf' h
    | diff =>
      simp only [optStep, setActions_keep hrest] at h
      simpa using optFold_keep_inv os cur _ acts (by simp [Action.isSymlink]) hwf' h
    | replace =>
      simp only [optStep, setActions_keep hrest] at h
      simpa using optFold_keep_inv os cur _ acts (by simp [Action.isSymlink]) hwf' h
    | diffReplace =>
      simp only [optStep, setActions_keep hrest] at h
      simpa using optFold_keep_inv os cur _ acts (by simp [Action.isSymlink]) hwf' h
    | interactive =>
      simp only [optStep, setActions_keep hrest] at h
      simpa using optFold_keep_inv os cur _ acts (by simp [actionsInteractive, Action.isSymlink]) hwf' h
    | symlinks v =>
      cases v with
      | none => simp [optStep] at h
      | some p =>
        simp only [optStep] at h
        simpa using optFold_keep_inv os p _ acts (filter_not_symlink_free _) hwf' h

/-- With the fix, whatever the order of the options, the parsed tuple starts with the action of the policy
    asked for (`configuredPolicy`) and contains no other symlink action. -/
theorem parse_fixed_policy {tty : Bool} {opts : List Opt} {acts : List Action}
    (hwf : ∀ o ∈ opts, o.wf = true) (h : parseOptions true tty opts = .ok acts) :
    ∃ rest, acts = .symlink (configuredPolicy opts) :: rest ∧ ∀ a ∈ rest, a.isSymlink = false := by
  unfold parseOptions at h
  simp only [optFold, optStep] at h
  exact optFold_keep_inv opts .error _ acts (filter_not_symlink_free _) hwf h

/-- **C09_skip_error_untouched_fixed.**  The symlink clause at full strength on the model of the tree with
    `fixes/C09-D4.diff`: whenever the policy asked for is skip or error — in any option order — only
    non-symlink arguments themselves can be modified. -/
theorem C09_skip_error_untouched_fixed (env : Env) (tty : Bool) (opts : List Opt) (fs : FS)
    (args : List Path) (ans : List Str) (pol : Policy) (hwf : ∀ o ∈ opts, o.wf = true)
    (hpol : pol = .skip ∨ pol = .error) (hconf : configuredPolicy opts = pol) (q : Path)
    (hne : (main env true tty opts fs args ans).fs q ≠ fs q) :
    q ∈ (filenameArgs fs args).files ∧ isLink fs q = false := by
  unfold main at hne
  cases hparse : parseOptions true tty opts with
  | error e =>
    rw [hparse] at hne
    cases e <;> simp at hne
  | ok acts =>
    rw [hparse] at hne
    simp only at hne
    obtain ⟨rest, hacts, _⟩ := parse_fixed_policy hwf hparse
    subst hacts
    rw [hconf] at hne
    exact C09_skip_error_untouched_acts env fs pol rest args ans hpol q hne

/-- **C09_links_kept_fixed.**  With the fix, under the error, skip or follow policy no symlink is ever
    replaced, in any option order. -/
theorem C09_links_kept_fixed (env : Env) (tty : Bool) (opts : List Opt) (fs : FS)
    (args : List Path) (ans : List Str) (hwf : ∀ o ∈ opts, o.wf = true)
    (hpol : configuredPolicy opts ≠ .replace) (q : Path) (hq : isLink fs q = true) :
    (main env true tty opts fs args ans).fs q = fs q := by
  unfold main
  cases hparse : parseOptions true tty opts with
  | error e => cases e <;> rfl
  | ok acts =>
    simp only
    obtain ⟨rest, hacts, _⟩ := parse_fixed_policy hwf hparse
    subst hacts
    exact C09_links_preserved env fs _ rest args ans hpol q hq

/-! ### Isolation: a failure on one file neither stops the others nor goes unreported -/

theorem processFile_errors_mono (env : Env) (acts : List Action) (s : Run) (p : Path) (m : Msg)
    (h : m ∈ s.errors) : m ∈ (processFile env acts s p).errors := by
  rw [processFile_errors]
  split
  · exact List.mem_append_left _ h
  · exact h

theorem processFiles_errors_mono (env : Env) (acts : List Action) (files : List Path) (s : Run) (m : Msg)
    (h : m ∈ s.errors) : m ∈ (processFiles env acts files s).errors :=
  processFiles_induct (fun s => m ∈ s.errors) files s (fun s p _ hs => processFile_errors_mono env acts s p m hs) h

/-- D12's dividing line: `symlink_error` is not in the tuple, or no argument is a symlink. -/
def noSysExit (fs : FS) (acts : List Action) (files : List Path) : Bool :=
  !acts.contains (.symlink .error) || files.all (fun p => !isLink fs p)

/-- Under `noSysExit` the loop over files never leaves early, from the initial state on. -/
theorem processFiles_nohalt {env : Env} {fs : FS} {acts : List Action} {files : List Path}
    (hno : noSysExit fs acts files = true) :
    ∀ (sub : List Path) (s : Run), (∀ p ∈ sub, p ∈ files) → s.halted = none →
      (∀ p, isLink fs p = false → isLink s.fs p = false) →
      (processFiles env acts sub s).halted = none := by
  intro sub s hsub hs hlinks
  have key := processFiles_induct (env := env) (acts := acts)
    (fun s => s.halted = none ∧ ∀ p, isLink fs p = false → isLink s.fs p = false) sub s
    (fun s p hp hP => ?_) ⟨hs, hlinks⟩
  · exact key.1
  · obtain ⟨hh, hl⟩ := hP
    constructor
    · rw [processFile_halted env acts s p hh]
      simp only [noSysExit, Bool.or_eq_true, Bool.not_eq_true', List.all_eq_true] at hno
      rcases hno with h1 | h2
      · intro hsx
        have := runActions_sysexit_mem env acts _ _ _ hsx
        have h1' : acts.contains (.symlink .error) = false := h1
        simp at h1'
        exact h1' this
      · have := h2 p (hsub p hp)
        exact runActions_sysexit_link env acts s.fs (MState.fresh p) s.ans (hl p (by simpa using this))
    · intro q hq
      rw [processFile_fs]
      rcases runActions_nodes env acts s.fs (MState.fresh p) s.ans q with h | ⟨o, h⟩
      · unfold isLink; rw [h]; exact hl q hq
      · unfold isLink; rw [h]

/-- **C09_isolation_partial.**  Provided SystemExit cannot occur (`noSysExit`: `symlink_error` is not in
    the tuple or no argument is a symlink), for every position of the expanded argument list:
    the loop reaches that file, continues with the files after it whatever happened to it, and if its
    action loop ended with an exception the exit status is non-zero and the final message names the file
    with that error; every argument that is neither a file nor a directory is reported the same way.
    Full strength (without `noSysExit`) is false on the unchanged tree (D12): `C09_isolation_full_false`. -/
theorem C09_isolation_partial (env : Env) (fs : FS) (acts : List Action) (args : List Path) (ans : List Str)
    (hno : noSysExit fs acts (filenameArgs fs args).files = true) :
    (processActions env fs acts args ans).sysexit = none ∧
    (∀ pre p post, (filenameArgs fs args).files = pre ++ p :: post →
      (processFiles env acts pre (initRun fs (filenameArgs fs args) ans)).halted = none ∧
      processFiles env acts (filenameArgs fs args).files (initRun fs (filenameArgs fs args) ans) =
        processFiles env acts post
          (processFile env acts (processFiles env acts pre (initRun fs (filenameArgs fs args) ans)) p) ∧
      ∀ e, (runActions env acts (processFiles env acts pre (initRun fs (filenameArgs fs args) ans)).fs
              (MState.fresh p) (processFiles env acts pre (initRun fs (filenameArgs fs args) ans)).ans).oc = .error e →
        (processActions env fs acts args ans).status ≠ 0 ∧
        (⟨p, e⟩ : Msg) ∈ (processActions env fs acts args ans).summary) ∧
    (∀ a ∈ args, isBadArg fs a = true →
      (processActions env fs acts args ans).status ≠ 0 ∧
      (⟨a, .badFilename⟩ : Msg) ∈ (processActions env fs acts args ans).summary) := by
  have hinit : (initRun fs (filenameArgs fs args) ans).halted = none := rfl
  have hlinks : ∀ p, isLink fs p = false → isLink (initRun fs (filenameArgs fs args) ans).fs p = false :=
    fun p h => h
  have hall := processFiles_nohalt (env := env) hno (filenameArgs fs args).files _ (fun p h => h) hinit hlinks
  -- a reported error makes the status non-zero and appears in the final message
  have report : ∀ m : Msg,
      m ∈ (processFiles env acts (filenameArgs fs args).files (initRun fs (filenameArgs fs args) ans)).errors →
      (processActions env fs acts args ans).status ≠ 0 ∧ m ∈ (processActions env fs acts args ans).summary := by
    intro m hm
    simp only [processActions, finish, hall]
    split
    · rename_i hemp
      simp only [List.isEmpty_iff] at hemp
      rw [hemp] at hm; simp at hm
    · exact ⟨by simp, hm⟩
  refine ⟨?_, ?_, ?_⟩
  · simp only [processActions, finish, hall]
    split <;> rfl
  · intro pre p post hfiles
    have hpre := processFiles_nohalt (env := env) hno pre _
      (fun x hx => by rw [hfiles]; exact List.mem_append_left _ hx) hinit hlinks
    have hpre1 := processFiles_nohalt (env := env) hno (pre ++ [p]) _
      (fun x hx => by
        rw [hfiles]
        rcases List.mem_append.mp hx with h | h
        · exact List.mem_append_left _ h
        · simp at h; subst h; simp) hinit hlinks
    have hsplit : processFiles env acts (pre ++ [p]) (initRun fs (filenameArgs fs args) ans) =
        processFile env acts (processFiles env acts pre (initRun fs (filenameArgs fs args) ans)) p := by
      rw [processFiles_append pre [p] _ hpre hinit]
      by_cases hh : (processFile env acts (processFiles env acts pre (initRun fs (filenameArgs fs args) ans)) p).halted = none
      · rw [processFiles_cons_go hh]; rfl
      · rw [processFiles_cons_halt hh]
    have hwhole : processFiles env acts (filenameArgs fs args).files (initRun fs (filenameArgs fs args) ans) =
        processFiles env acts post
          (processFile env acts (processFiles env acts pre (initRun fs (filenameArgs fs args) ans)) p) := by
      have : (filenameArgs fs args).files = (pre ++ [p]) ++ post := by rw [hfiles]; simp
      rw [this, processFiles_append (pre ++ [p]) post _ hpre1 hinit, hsplit]
    refine ⟨hpre, hwhole, ?_⟩
    intro e he
    apply report
    rw [hwhole]
    apply processFiles_errors_mono
    rw [processFile_errors, he]
    simp
  · intro a ha hbad
    apply report
    apply processFiles_errors_mono
    simp only [initRun, filenameArgs, List.mem_map, List.mem_filter, List.mem_reverse]
    exact ⟨a, ⟨ha, hbad⟩, rfl⟩

/-! ### `--symlinks=follow` and a real path that `Filename` refuses -/

/-- What the loop over files can have done to the file system while a policy action other than `replace`
    heads the tuple: every symlink is as it was, every other node is as it was or a freshly written file. -/
theorem processFiles_links_nodes {env : Env} {fs : FS} {pol : Policy} {rest : List Action} (hpol : pol ≠ .replace)
    (files : List Path) (s : Run)
    (hs : (∀ x, isLink fs x = true → s.fs x = fs x) ∧ (∀ x, s.fs x = fs x ∨ ∃ o, s.fs x = some (.file o false))) :
    (∀ x, isLink fs x = true → (processFiles env (.symlink pol :: rest) files s).fs x = fs x) ∧
    (∀ x, (processFiles env (.symlink pol :: rest) files s).fs x = fs x ∨
      ∃ o, (processFiles env (.symlink pol :: rest) files s).fs x = some (.file o false)) := by
  refine processFiles_induct (env := env) (acts := .symlink pol :: rest)
    (fun s => (∀ x, isLink fs x = true → s.fs x = fs x) ∧ (∀ x, s.fs x = fs x ∨ ∃ o, s.fs x = some (.file o false)))
    files s (fun s p _ hP => ?_) hs
  obtain ⟨h1, h2⟩ := hP
  constructor
  · intro x hx
    rw [← h1 x hx]
    apply Classical.byContradiction
    intro hne
    have h3 := (processFile_head_policy s p x hpol hne).1
    have h4 : isLink s.fs x = true := isLink_stable h1 hx
    rw [h3] at h4; simp at h4
  · intro x
    rw [processFile_fs]
    rcases runActions_nodes env (.symlink pol :: rest) s.fs (MState.fresh p) s.ans x with h | h
    · rw [h]; exact h2 x
    · exact Or.inr h

/-- **C09_follow_unsafe_untouched.**  `--symlinks=follow` (its action at the head of the tuple, no `symlink_error`
    behind it) and an argument `p` that is a symlink resolving to `q` whose real path `Filename` refuses
    (`realSafe q = false`: a blank, a parenthesis, … in the resolved path).  Then
    * over the whole run the link keeps its node, and `q` keeps its node unless `q` is itself among the
      (expanded) arguments — it is never written *through* a link;
    * at every position at which `p` stands in the expanded argument list, the loop reaches it, and its turn
      changes nothing but the error list and the log: file system (the link, its target, every other path),
      pending answers, exit flag are as the earlier files left them, the only events are `begin p`,
      `failed p unsafeTarget` (nothing read, the rewriter not run, nothing printed / executed / asked);
      the files after it are processed from that state;
    * the run's exit status is non-zero and the final message names `p` with that error. -/
theorem C09_follow_unsafe_untouched (env : Env) (fs : FS) (rest : List Action) (args : List Path) (ans : List Str)
    (p q : Path) (hrest : .symlink .error ∉ rest)
    (hl : isLink fs p = true) (hr : resolve fs p = some q) (hu : env.realSafe q = false) :
    (processActions env fs (.symlink .follow :: rest) args ans).fs p = fs p ∧
    (q ∉ (filenameArgs fs args).files → (processActions env fs (.symlink .follow :: rest) args ans).fs q = fs q) ∧
    ∀ pre post s, (filenameArgs fs args).files = pre ++ p :: post →
      s = processFiles env (.symlink .follow :: rest) pre (initRun fs (filenameArgs fs args) ans) →
      s.halted = none ∧
      processFile env (.symlink .follow :: rest) s p =
        { s with ev := s.ev ++ [.begin p, .failed p .unsafeTarget], errors := s.errors ++ [⟨p, .unsafeTarget⟩] } ∧
      processFiles env (.symlink .follow :: rest) (filenameArgs fs args).files (initRun fs (filenameArgs fs args) ans) =
        processFiles env (.symlink .follow :: rest) post (processFile env (.symlink .follow :: rest) s p) ∧
      (processActions env fs (.symlink .follow :: rest) args ans).status ≠ 0 ∧
      (⟨p, .unsafeTarget⟩ : Msg) ∈ (processActions env fs (.symlink .follow :: rest) args ans).summary := by
  have hpol : Policy.follow ≠ .replace := by simp
  refine ⟨C09_links_preserved env fs .follow rest args ans hpol p hl, ?_, ?_⟩
  · -- the target is written only under its own name
    intro hq
    rw [processActions_fs]
    refine processFiles_induct (fun s => s.fs q = fs q) _ _ (fun s p' hp' hs => ?_) rfl
    show (processFile env (.symlink .follow :: rest) s p').fs q = fs q
    rw [← hs]
    apply Classical.byContradiction
    intro hne
    obtain ⟨_, h2, h3⟩ := processFile_head_policy s p' q hpol hne
    cases hl' : isLink s.fs p' with
    | false => exact hq (by rw [h2 hl']; exact hp')
    | true => have := (h3 hl').2.2; rw [hu] at this; simp at this
  · intro pre post s hfiles hs
    have hno : noSysExit fs (.symlink .follow :: rest) (filenameArgs fs args).files = true := by
      simp [noSysExit, hrest]
    obtain ⟨_, hiso, _⟩ := C09_isolation_partial env fs (.symlink .follow :: rest) args ans hno
    obtain ⟨hpre, hwhole, herr⟩ := hiso pre p post hfiles
    rw [← hs] at hpre hwhole herr
    -- when `p`'s turn comes it is still a symlink resolving to `q`
    have hinv := processFiles_links_nodes (env := env) (fs := fs) (rest := rest) hpol pre
      (initRun fs (filenameArgs fs args) ans) ⟨fun _ _ => rfl, fun _ => Or.inl rfl⟩
    rw [← hs] at hinv
    have hl' : isLink s.fs p = true := isLink_stable hinv.1 hl
    have hr' : resolve s.fs p = some q := resolveN_stable hinv.1 hinv.2 linkFuel p q hr
    have href : followRefused env s.fs (MState.fresh p) = true := by
      simp [followRefused, MState.fresh, hl', hr', hu]
    refine ⟨hpre, processFile_follow_refused rest s p href, hwhole, ?_⟩
    exact herr .unsafeTarget (by rw [runActions_follow_refused rest s.ans href])

/-- **C09_follow_unsafe_main.**  The same for a whole invocation (`main`: option parsing, then `process_actions`)
    whose last tuple-affecting option is `--symlinks=follow`: the link `p` keeps its node; its refused target `q`
    keeps its node unless it is an argument itself; and if `p` is among the (expanded) arguments the exit status
    is non-zero and — when the options parse — the final message names `p` with the `unsafeTarget` error. -/
theorem C09_follow_unsafe_main (env : Env) (keep tty : Bool) (opts : List Opt) (fs : FS) (args : List Path)
    (ans : List Str) (p q : Path) (hpresent : policyActionPresent opts .follow = true)
    (hl : isLink fs p = true) (hr : resolve fs p = some q) (hu : env.realSafe q = false) :
    (main env keep tty opts fs args ans).fs p = fs p ∧
    (q ∉ (filenameArgs fs args).files → (main env keep tty opts fs args ans).fs q = fs q) ∧
    (p ∈ (filenameArgs fs args).files →
      (main env keep tty opts fs args ans).status ≠ 0 ∧
      ((parseOptions keep tty opts).toOption.isSome = true →
        (⟨p, .unsafeTarget⟩ : Msg) ∈ (main env keep tty opts fs args ans).summary)) := by
  unfold main
  cases hparse : parseOptions keep tty opts with
  | error e => cases e <;> simp [Except.toOption]
  | ok acts =>
    simp only
    obtain ⟨rest, hacts, hfree⟩ := parse_policy_present hpresent hparse
    subst hacts
    have hrest : Action.symlink .error ∉ rest := fun h => by
      have := hfree _ h; simp [Action.isSymlink] at this
    obtain ⟨h1, h2, h3⟩ := C09_follow_unsafe_untouched env fs rest args ans p q hrest hl hr hu
    refine ⟨h1, h2, fun hp => ?_⟩
    obtain ⟨pre, post, hfiles⟩ := List.append_of_mem hp
    obtain ⟨_, _, _, h4, h5⟩ := h3 pre post _ hfiles rfl
    exact ⟨h4, fun _ => h5⟩

/-! ### Witnesses: where the unchanged code violates the property (D4, D12), and that the hypotheses of the
    theorems above are satisfiable by non-trivial inputs -/

section Witness

/-- 1 ↦ symlink to 2, 2 ↦ regular file with content 10, 3 ↦ regular file with content 10, 4 ↦ regular file
    with content 12 (already tidy), 5 ↦ regular file with content 13 (does not parse). -/
def fsW : FS := fun p =>
  if p = 1 then some (.link 2) else if p = 2 then some (.file 10 true) else if p = 3 then some (.file 10 true)
  else if p = 4 then some (.file 12 true) else if p = 5 then some (.file 13 true) else none

/-- rewriter: 10 ↦ 11, 13 fails, everything else is a fixed point -/
def envW : Env :=
  { rw := fun c => if c = 10 then some 11 else if c = 13 then none else some c, readable := fun _ => true,
    writable := fun p => p != 6 }

/-- D4: `tidy-imports --symlinks=skip --replace link.py`: the policy asked for is `skip`, yet the tuple is
    `[IFCHANGED, REPLACE]` and the symlink is replaced by a regular file with the rewritten content. -/
theorem D4_witness :
    configuredPolicy [.symlinks (some .skip), .replace] = .skip ∧
    (parseOptions false false [.symlinks (some .skip), .replace]).toOption = some [.ifchanged, .replace] ∧
    (main envW false false [.symlinks (some .skip), .replace] fsW [1] []).fs 1 = some (.file 11 false) ∧
    (main envW false false [.symlinks (some .skip), .replace] fsW [1] []).status = 0 := by decide

/-- D4 with the default policy (`error`): `tidy-imports --replace link.py`. -/
theorem D4_witness_default :
    configuredPolicy [.replace] = .error ∧
    (main envW false false [.replace] fsW [1] []).fs 1 = some (.file 11 false) := by decide

/-- D4 under `follow`: `--symlinks=follow --actions=REPLACE link.py` replaces the link instead of its target. -/
theorem D4_witness_follow :
    configuredPolicy [.symlinks (some .follow), .actions [.replace]] = .follow ∧
    (main envW false false [.symlinks (some .follow), .actions [.replace]] fsW [1] []).fs 1 = some (.file 11 false) ∧
    (main envW false false [.symlinks (some .follow), .actions [.replace]] fsW [1] []).fs 2 = some (.file 10 true) := by
  decide

/-- The full-strength symlink clause (hypothesis: the policy *asked for* is skip or error). -/
def SkipErrorUntouchedFull : Prop :=
  ∀ (env : Env) (tty : Bool) (opts : List Opt) (fs : FS) (args : List Path) (ans : List Str) (pol : Policy),
    (pol = .skip ∨ pol = .error) → configuredPolicy opts = pol →
    ∀ q, (main env false tty opts fs args ans).fs q ≠ fs q → q ∈ (filenameArgs fs args).files ∧ isLink fs q = false

/-- It is false on the model of the unchanged code (D4). -/
theorem C09_skip_error_untouched_full_false : ¬ SkipErrorUntouchedFull := by
  intro h
  have := h envW false [.symlinks (some .skip), .replace] fsW [1] [] .skip (Or.inl rfl) (by decide) 1 (by decide)
  revert this
  decide

/-- With `fixes/C09-D4.diff` (`keep = true`) the three D4 inputs leave the symlink alone. -/
theorem D4_fixed_witness :
    (main envW true false [.symlinks (some .skip), .replace] fsW [1] []).fs 1 = some (.link 2) ∧
    (main envW true false [.symlinks (some .skip), .replace] fsW [1] []).fs 2 = some (.file 10 true) ∧
    (main envW true false [.replace] fsW [1] []).fs 1 = some (.link 2) ∧
    (main envW true false [.replace] fsW [1] []).sysexit = some 1 ∧
    (main envW true false [.symlinks (some .follow), .actions [.replace]] fsW [1] []).fs 1 = some (.link 2) ∧
    (main envW true false [.symlinks (some .follow), .actions [.replace]] fsW [1] []).fs 2 = some (.file 11 false) := by
  decide

/-- D12: `tidy-imports --replace --symlinks=error link.py c.py`: SystemExit at `link.py`; `c.py` (path 3),
    which alone would be rewritten, is never processed. -/
theorem D12_witness :
    (parseOptions false false [.replace, .symlinks (some .error)]).toOption = some [.symlink .error, .ifchanged, .replace] ∧
    (main envW false false [.replace, .symlinks (some .error)] fsW [1, 3] []).sysexit = some 1 ∧
    (main envW false false [.replace, .symlinks (some .error)] fsW [1, 3] []).fs 3 = some (.file 10 true) ∧
    Event.begin 3 ∉ (main envW false false [.replace, .symlinks (some .error)] fsW [1, 3] []).ev ∧
    (main envW false false [.replace, .symlinks (some .error)] fsW [3] []).fs 3 = some (.file 11 false) := by decide

/-- D12, second face: the error collected for an earlier file (5 does not parse) is dropped from the final
    message when a later symlink ends the run (the status is still non-zero). -/
theorem D12_witness_summary :
    (main envW false false [.replace, .symlinks (some .error)] fsW [5, 1] []).summary = [] ∧
    (main envW false false [.replace, .symlinks (some .error)] fsW [5, 1] []).status = 1 ∧
    (main envW false false [.replace, .symlinks (some .skip)] fsW [5, 1] []).summary = [⟨5, .rewriter⟩] := by decide

/-- The full-strength isolation clause: every file of the expanded argument list is reached. -/
def IsolationFull : Prop :=
  ∀ (env : Env) (fs : FS) (acts : List Action) (args : List Path) (ans : List Str) (pre post : List Path) (p : Path),
    (filenameArgs fs args).files = pre ++ p :: post →
    (processFiles env acts pre (initRun fs (filenameArgs fs args) ans)).halted = none

/-- It is false on the model of the unchanged code (D12). -/
theorem C09_isolation_full_false : ¬ IsolationFull := by
  intro h
  have := h envW fsW [.symlink .error, .ifchanged, .replace] [1, 3] [] [1] [] 3 (by decide)
  revert this
  decide

/-! Non-vacuity of the hypotheses. -/

-- C09_safety's hypothesis (some node differs) holds for `--symlinks=replace --replace f.py`, and the
-- conclusion's data are the expected ones
example : (processActions envW fsW [.symlink .replace, .ifchanged, .replace] [3] []).fs 3 ≠ fsW 3 := by decide

-- C09_ifchanged: IFCHANGED guards REPLACE in `--replace`; file 4 is a fixed point of the rewriter
example : guardedBy (fun a => decide (a = .ifchanged)) [.symlink .error, .ifchanged, .replace] = true ∧
    fsW 4 = some (.file 12 true) ∧ envW.rw 12 = some 12 := by decide
-- ... and without the guard the same file *is* re-created (so the guard hypothesis matters)
example : (processActions envW fsW [.replace] [4] []).fs 4 = some (.file 12 false) := by decide

-- C09_query_no: QUERY guards REPLACE in `--interactive`; answers "n", "", "no way"
example : guardedBy Action.isQuery actionsInteractive = true ∧
    (∀ a ∈ ["n".toList, "".toList, "no way".toList], isYes a = false) := by decide
-- ... whereas " Y" is a yes and the file is rewritten
example : (processActions envW fsW actionsInteractive [3] [" Y".toList]).fs 3 = some (.file 11 false) := by decide

-- C09_rewriter_failure: the rewriter fails on file 5
example : fsW 5 = some (.file 13 true) ∧ envW.rw 13 = none := by decide

-- C09_skip_error_untouched_partial / C09_follow_links_kept_partial: the policy action is present for
-- `--replace --symlinks=skip` (and not for `--symlinks=skip --replace`)
example : policyActionPresent [.replace, .symlinks (some .skip)] .skip = true ∧
    policyActionPresent [.symlinks (some .skip), .replace] .skip = false ∧
    policyActionPresent [] .error = true := by decide
-- ... and then a non-symlink argument is still rewritten while the symlink is skipped
example : (main envW false false [.replace, .symlinks (some .skip)] fsW [1, 3] []).fs 3 = some (.file 11 false) ∧
    (main envW false false [.replace, .symlinks (some .skip)] fsW [1, 3] []).fs 1 = some (.link 2) := by decide

-- C09_follow_only_target: following the link 1 rewrites its target 2
example : isLink fsW 1 = true ∧
    (main envW false false [.replace, .symlinks (some .follow)] fsW [1] []).fs 2 = some (.file 11 false) ∧
    (main envW false false [.replace, .symlinks (some .follow)] fsW [1] []).fs 1 = some (.link 2) := by decide

-- C09_isolation_partial: `noSysExit` holds under the skip policy with a symlink argument, and under the
-- default error policy when no argument is a symlink; a failing file (5) and a missing one (9) are reported
-- and file 3 behind them is rewritten
example : noSysExit fsW [.symlink .skip, .ifchanged, .replace] [1, 5, 3] = true ∧
    noSysExit fsW [.symlink .error, .ifchanged, .replace] [5, 3] = true ∧
    noSysExit fsW [.symlink .error, .ifchanged, .replace] [1, 3] = false := by decide
example : (processActions envW fsW [.symlink .error, .ifchanged, .replace] [9, 5, 3] []).status = 1 ∧
    (processActions envW fsW [.symlink .error, .ifchanged, .replace] [9, 5, 3] []).summary =
      [⟨9, .badFilename⟩, ⟨5, .rewriter⟩] ∧
    (processActions envW fsW [.symlink .error, .ifchanged, .replace] [9, 5, 3] []).fs 3 = some (.file 11 false) := by
  decide

-- C09_isolation_partial / C09_unwritable_untouched with a write failure: path 3 cannot be written
-- (`-r c.py t.py` with c.py in a read-only directory): it keeps its node, the failure is reported, and the
-- file after it is rewritten
example :
    (processActions { envW with writable := fun p => p != 3 } fsW [.symlink .error, .ifchanged, .replace] [3, 2] []).fs 3
      = some (.file 10 true) ∧
    (processActions { envW with writable := fun p => p != 3 } fsW [.symlink .error, .ifchanged, .replace] [3, 2] []).fs 2
      = some (.file 11 false) ∧
    (processActions { envW with writable := fun p => p != 3 } fsW [.symlink .error, .ifchanged, .replace] [3, 2] []).status = 1 ∧
    (processActions { envW with writable := fun p => p != 3 } fsW [.symlink .error, .ifchanged, .replace] [3, 2] []).summary
      = [⟨3, .io⟩] := by decide

/-- `fsW` plus: 7 ↦ symlink to 8, 8 ↦ regular file with content 10 (think `h.py -> My Project/t.py`),
    9 ↦ symlink to 7 (a chain). -/
def fsU : FS := fun p =>
  if p = 7 then some (.link 8) else if p = 8 then some (.file 10 true) else if p = 9 then some (.link 7) else fsW p

/-- `Filename` refuses the real path of 8 (and therefore of 7 and 9, which resolve to it). -/
def envU : Env := { envW with realSafe := fun p => p != 8 }

-- C09_follow_unsafe_untouched: its hypotheses hold for `--replace --symlinks=follow c.py h.py k.py link.py`
-- (3 regular, 7 and 9 resolve to the refused 8, 1 resolves to the acceptable 2) …
example : Action.symlink .error ∉ [Action.ifchanged, .replace] ∧ isLink fsU 7 = true ∧ resolve fsU 7 = some 8 ∧
    isLink fsU 9 = true ∧ resolve fsU 9 = some 8 ∧ envU.realSafe 8 = false ∧
    (parseOptions false false [.replace, .symlinks (some .follow)]).toOption = some [.symlink .follow, .ifchanged, .replace] := by
  decide
example : policyActionPresent [.replace, .symlinks (some .follow)] .follow = true ∧
    (main envU false false [.replace, .symlinks (some .follow)] fsU [3, 7] []).status = 1 ∧
    (main envU false false [.replace, .symlinks (some .follow)] fsU [3, 7] []).summary = [⟨7, .unsafeTarget⟩] ∧
    (main envU false false [.replace, .symlinks (some .follow)] fsU [3, 7] []).fs 8 = some (.file 10 true) := by decide
-- … and the run does what the theorem says: 7, 9 stay links, 8 keeps bytes and inode, both failures are
-- named, status 1, the rewriter ran for 3 and 2 only, and the files around them are rewritten
example :
    (processActions envU fsU [.symlink .follow, .ifchanged, .replace] [3, 7, 9, 1] []).fs 7 = some (.link 8) ∧
    (processActions envU fsU [.symlink .follow, .ifchanged, .replace] [3, 7, 9, 1] []).fs 9 = some (.link 7) ∧
    (processActions envU fsU [.symlink .follow, .ifchanged, .replace] [3, 7, 9, 1] []).fs 8 = some (.file 10 true) ∧
    (processActions envU fsU [.symlink .follow, .ifchanged, .replace] [3, 7, 9, 1] []).fs 3 = some (.file 11 false) ∧
    (processActions envU fsU [.symlink .follow, .ifchanged, .replace] [3, 7, 9, 1] []).fs 2 = some (.file 11 false) ∧
    (processActions envU fsU [.symlink .follow, .ifchanged, .replace] [3, 7, 9, 1] []).fs 1 = some (.link 2) ∧
    (processActions envU fsU [.symlink .follow, .ifchanged, .replace] [3, 7, 9, 1] []).status = 1 ∧
    (processActions envU fsU [.symlink .follow, .ifchanged, .replace] [3, 7, 9, 1] []).summary =
      [⟨7, .unsafeTarget⟩, ⟨9, .unsafeTarget⟩] ∧
    rewrites (processActions envU fsU [.symlink .follow, .ifchanged, .replace] [3, 7, 9, 1] []).ev = 2 := by decide
-- the hypothesis matters: with an acceptable real path the same command rewrites 8 through the link …
example : (processActions envW fsU [.symlink .follow, .ifchanged, .replace] [7] []).fs 8 = some (.file 11 false) ∧
    (processActions envW fsU [.symlink .follow, .ifchanged, .replace] [7] []).status = 0 := by decide
-- … and the other policies never build the real path: `replace` replaces the link, `skip` skips it, both exit 0
example : (processActions envU fsU [.symlink .replace, .ifchanged, .replace] [7] []).fs 7 = some (.file 11 false) ∧
    (processActions envU fsU [.symlink .replace, .ifchanged, .replace] [7] []).fs 8 = some (.file 10 true) ∧
    (processActions envU fsU [.symlink .replace, .ifchanged, .replace] [7] []).status = 0 ∧
    (processActions envU fsU [.symlink .skip, .ifchanged, .replace] [7] []).fs 7 = some (.link 8) ∧
    (processActions envU fsU [.symlink .skip, .ifchanged, .replace] [7] []).status = 0 ∧
    (processActions envU fsU [.symlink .error, .ifchanged, .replace] [7] []).sysexit = some 7 := by decide

/-! ### Defect round: `--verbose` fail-fast (C09-2) and unsafe argument names (C09-1a) -/

/-- With both variant bits off `mainV` is `mainNamed` (the model the earlier theorems are about). -/
theorem mainV_plain (env : Env) (keep tty : Bool) (opts : List Opt) (name : Path → Str) (fs : FS)
    (args : List Path) (ans : List Str) :
    mainV env keep tty false false opts name fs args ans = (mainNamed env keep tty opts name fs args ans, none) := by
  unfold mainV mainNamed main processActions
  cases hparse : parseOptions keep tty opts with
  | error e => cases e <;> simp
  | ok acts =>
    by_cases hall : args.all (fun p => safeName (name p)) = true
    · have hf : args.filter (fun p => safeName (name p)) = args :=
        List.filter_eq_self.mpr (fun a ha => List.all_eq_true.mp hall a ha)
      have hu : args.filter (fun p => !safeName (name p)) = [] := by
        rw [List.filter_eq_nil_iff]; intro a ha; simp [List.all_eq_true.mp hall a ha]
      simp [hall, hf, hu, initRun]
    · simp [hall]

/-- Fail-fast loop: when no exception left the tool, it did exactly what the collecting loop does. -/
theorem processFilesFF_none (env : Env) (acts : List Action) : ∀ (ps : List Path) (s : Run),
    (processFilesFF env acts ps s).2 = none → (processFilesFF env acts ps s).1 = processFiles env acts ps s
  | [], _, _ => rfl
  | p :: ps, s, h => by
    unfold processFilesFF at h ⊢
    unfold processFiles
    split at h
    · simp at h
    · rename_i hoc
      simp only [] at h ⊢
      split
      · split at h
        · rfl
        · rename_i h1 _ h2; simp_all
      · split at h
        · rename_i h1 _ _ h2; simp_all
        · exact processFilesFF_none env acts ps _ h

/-- **C09_failfast_stops** (the defect C09-2 in model terms).  Under fail-fast, an `error` outcome at `p`
    ends the loop there: the result is the state right after `p`'s turn, whatever files follow — none of them is
    begun, read, rewritten or written. -/
theorem C09_failfast_stops (env : Env) (acts : List Action) (p : Path) (post : List Path) (s : Run) (e : ErrKind)
    (he : (runActions env acts s.fs (MState.fresh p) s.ans).oc = .error e) :
    processFilesFF env acts (p :: post) s = (processFile env acts s p, some ⟨p, e⟩) := by
  unfold processFilesFF
  simp [he]

/-- **C09_unsafe_isolated** (tree with `fixes/C09-1a.diff`).  An argument whose name `Filename` refuses no
    longer refuses the run: provided SystemExit cannot occur, the exit status is non-zero, the final message
    names that argument as a bad file name, and the loop over files is the collecting loop over the expansion of the
    *other* arguments. -/
theorem C09_unsafe_isolated (env : Env) (keep tty : Bool) (opts : List Opt) (name : Path → Str) (fs : FS)
    (args : List Path) (ans : List Str) (acts : List Action) (p : Path)
    (hparse : parseOptions keep tty opts = .ok acts) (hp : p ∈ args) (hu : safeName (name p) = false)
    (hno : noSysExit fs acts (filenameArgs fs (args.filter fun q => safeName (name q))).files = true) :
    (mainV env keep tty true false opts name fs args ans).2 = none ∧
    (mainV env keep tty true false opts name fs args ans).1.status ≠ 0 ∧
    (⟨p, .badFilename⟩ : Msg) ∈ (mainV env keep tty true false opts name fs args ans).1.summary ∧
    (mainV env keep tty true false opts name fs args ans).1.sysexit = none := by
  unfold mainV
  simp only [hparse, Bool.not_true, Bool.false_and, Bool.false_eq_true, if_false]
  generalize hinit : initRun fs _ ans = init
  have hinit_h : init.halted = none := by rw [← hinit]; rfl
  have hinit_fs : init.fs = fs := by rw [← hinit]; rfl
  have hall := processFiles_nohalt (env := env) hno
    (filenameArgs fs (args.filter fun q => safeName (name q))).files init (fun _ h => h) hinit_h
    (fun q h => by rw [hinit_fs]; exact h)
  have hmem : (⟨p, .badFilename⟩ : Msg) ∈ init.errors := by
    rw [← hinit]
    simp only [initRun, List.map_append, List.mem_append, List.mem_map]
    exact Or.inl ⟨p, List.mem_filter.mpr ⟨hp, by simp [hu]⟩, rfl⟩
  have hm := processFiles_errors_mono env acts
    (filenameArgs fs (args.filter fun q => safeName (name q))).files init _ hmem
  refine ⟨trivial, ?_, ?_, ?_⟩ <;> simp only [finish, hall]
  · split
    · rename_i hemp
      simp only [List.isEmpty_iff] at hemp
      rw [hemp] at hm; simp at hm
    · simp
  · split
    · rename_i hemp
      simp only [List.isEmpty_iff] at hemp
      rw [hemp] at hm; simp at hm
    · exact hm
  · split <;> rfl

/-- the names used by the witnesses below: path 5's name has a blank, the others are ordinary -/
def nameW : Path → Str := fun p => if p = 5 then "/w/my module.py".toList else "/w/ok.py".toList

/-- C09-2 witness: `tidy-imports --verbose -r bad.py c.py` (5 does not parse, 3 would be rewritten).  Collecting
    loop: 3 is rewritten and 5 is named; fail-fast loop: the error of 5 leaves the tool, 3 is never begun. -/
theorem C09_2_witness :
    (mainV envW true false false false [.replace] (fun _ => "/w/ok.py".toList) fsW [5, 3] []).1.fs 3 = some (.file 11 false) ∧
    (mainV envW true false false false [.replace] (fun _ => "/w/ok.py".toList) fsW [5, 3] []).1.summary = [⟨5, .rewriter⟩] ∧
    (mainV envW true false false true [.replace] (fun _ => "/w/ok.py".toList) fsW [5, 3] []).1.fs 3 = some (.file 10 true) ∧
    (mainV envW true false false true [.replace] (fun _ => "/w/ok.py".toList) fsW [5, 3] []).2 = some ⟨5, .rewriter⟩ ∧
    (mainV envW true false false true [.replace] (fun _ => "/w/ok.py".toList) fsW [5, 3] []).1.summary = [] ∧
    Event.begin 3 ∉ (mainV envW true false false true [.replace] (fun _ => "/w/ok.py".toList) fsW [5, 3] []).1.ev := by
  decide

/-- C09-1a witness: `tidy-imports -r 'my module.py' c.py`.  Refusing variant: nothing is processed (3 keeps its
    node); isolating variant: 3 is rewritten, 'my module.py' is reported as a bad file name, status 1. -/
theorem C09_1a_witness :
    (mainV envW true false false false [.replace] nameW fsW [5, 3] []).1.fs 3 = some (.file 10 true) ∧
    (mainV envW true false false false [.replace] nameW fsW [5, 3] []).1.summary = [] ∧
    (mainV envW true false true false [.replace] nameW fsW [5, 3] []).1.fs 3 = some (.file 11 false) ∧
    (mainV envW true false true false [.replace] nameW fsW [5, 3] []).1.summary = [⟨5, .badFilename⟩] ∧
    (mainV envW true false true false [.replace] nameW fsW [5, 3] []).1.status = 1 := by
  decide

end Witness

end Pfb.C09
